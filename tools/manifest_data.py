ENGINES = [
    {"name": "E0 tables", "path": "xfabsa/tables.py", "serves_properties": ["C04", "C05", "C06", "C12", "C15", "C16"],
     "kind_free_text": "literal-table extraction from the syntax tree by constant propagation"},
    {"name": "E6 table algebra", "path": "xfabsa/groupalg.py", "serves_properties": ["C04", "C05", "C06", "C12"],
     "kind_free_text": "exact integer/Fraction arithmetic on extracted tables (group axioms, metric invariance, cones)"},
]

CHECKS = [
    {"id": "C04", "engine": "E0 tables + E6 table algebra",
     "technique": "static table extraction (ast) + exact group-axiom checking on the extracted literals",
     "text": "Complete for the property as stated: all 237 tabulated settings and all 244 names are extracted from the "
             "source text on every run and every clause (identity, closure over all pairs, inverses, duplicates, counts, "
             "nuniq x centring, Laue order and class, metric invariance on a basis of conforming metrics, name and number "
             "look-up through the pattern-verified model of sg.__init__) is decided exactly.",
     "note": "Trusted: CPython's ast parser; the checker's own integer arithmetic; the model of sg.__init__ is verified "
             "by pattern on every run (by-number 'Sg%i', by-name sgdic[normalised], trailing r -> rhombohedral)."},
]

_TODO = "check not built yet in this session (work in progress, see DESIGN.md section 3)"
NOT_APPLICABLE = [{"property_id": "C%02d" % i, "reason": _TODO} for i in range(1, 21)
                  if "C%02d" % i not in {c["id"] for c in CHECKS}]
