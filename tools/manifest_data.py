ENGINES = [
    {"name": "E1 sibling equivalence", "path": "xfabsa/siblings.py, xfabsa/signatures.py", "serves_properties": ["C14"],
     "kind_free_text": "normalised-AST comparison of the tools/laue pairs with tau-site detection"},
    {"name": "E4 path rules", "path": "props/c20.py", "serves_properties": ["C20", "C06", "C19"],
     "kind_free_text": "syntax-directed guard dominance, who-may-call and who-may-write rules"},
    {"name": "E3 algebraic value numbering", "path": "xfabsa/symeval.py, xfabsa/poly.py",
     "serves_properties": ["C01", "C02", "C03", "C07", "C08", "C09", "C10", "C13", "C16"],
     "kind_free_text": "abstract interpreter over the ast with rational-function normal forms (no solver, no sampling)"},
    {"name": "E0 tables", "path": "xfabsa/tables.py", "serves_properties": ["C04", "C05", "C06", "C12", "C15", "C16"],
     "kind_free_text": "literal-table extraction from the syntax tree by constant propagation"},
    {"name": "E6 table algebra", "path": "xfabsa/groupalg.py", "serves_properties": ["C04", "C05", "C06", "C12"],
     "kind_free_text": "exact integer/Fraction arithmetic on extracted tables (group axioms, metric invariance, cones)"},
]

CHECKS = [
    {"id": "C17", "engine": "provenance data-flow (E2-style) over the readers",
     "technique": "data-flow tracing of every stored field back to its CIF key / PDB columns over all ADP-type and multiplicity-key configurations; comparison with the format specifications",
     "text": "Mapping half: for 15 configurations of CIFread (5 ADP types x 3 multiplicity-key cases) every keyword of add_atom, the "
             "cell, the symbol and the dispersion table are traced through remove_esd, upper(), B->U (divisor proved equal to "
             "8 pi^2 by E3) and the anisotropic label index to the key the IUCr core dictionary prescribes, in the order "
             "11,22,33,23,13,12 that Uij2betaij consumes; PDBread's fields are traced to the wwPDB v3.3 columns, the SCALE rows and "
             "the space-group tokens. PyCifRW, float() and well-formedness of real files are not decided.",
     "note": "Trusted: the key names and column table of the two format specifications (typed into the checker)."},
    {"id": "C19", "engine": "E4 effect summaries + path enumeration",
     "technique": "per-method read/write effect summaries over self attributes, accessor shape rules, writer/reader agreement, path enumeration of the coercion",
     "text": "The parameters class is decided as a dictionary model over one store: every value getter reads only self.parameters "
             "(plus varylist for the varied values), every mutator writes it, only __init__ binds it; accessor shapes; varylist order "
             "in getter and setter; the file writer and reader agree on separator/arity, the hyphen rule and the post-load type "
             "check; the five paths of dumbtypecheck give str-strip / float / int exactly as stated. The history quantifier is "
             "covered by induction over these per-call facts, not by exploring traces.",
     "note": "Trusted: Python dict/list semantics; str(float) round trip."},
    {"id": "C05", "engine": "E0 tables + E6 table algebra + templates",
     "technique": "static extraction of the 26-slot condition model, permutation schedules, cone tables and operator tables; exhaustive exact comparison on cone points; sign-definiteness of cone generators over metric families",
     "text": "Table half, exact and exhaustive over 237 settings: the reflection-condition model (re-extracted from sysabs_unique and "
             "sysabs on every run) with each setting's syscond vector must agree with extinction by the tabulated operators on "
             "every lattice point of the setting's traversal cones in a box (8 quick, 24 thorough); the seven R settings must be "
             "conjugate under the obverse transformation; genhkl_all's expansion must use rot[:nuniq] and negatives on the right "
             "of the hkl row with unique() de-duplication. Completeness of the walk is decided as a precondition: apex and "
             "generators of every cone pairwise non-obtuse in every conforming reciprocal metric (exact per metric family). "
             "Which reflections one particular oblique cell loses is not decided.",
     "note": "Trusted: C04; numpy unique/dot/concatenate. 31 known findings (early exit unsound for Laue -1, 2/m, rhombohedral -3, -3m)."},
    {"id": "C06", "engine": "E0 tables + E6 table algebra + E4 must-analysis",
     "technique": "orbit enumeration proving the cones a fundamental domain of each setting's Laue group; path-sensitive in-sync dataflow over the loop nest; operator/sort templates",
     "text": "For every setting the union of the Laue class's cones is proven to meet every orbit of {R} u {-R} (the setting's own "
             "first nuniq rotations, acting on the right) exactly once on all points of a box (4 quick, 10 thorough), with exact "
             "unimodular membership so orbit members outside the box are handled; the Laue/cell_choice dispatch is exhaustive; the "
             "shell test has the exclusive/inclusive operators; a forward must-analysis (trace-partitioned by the loop flags) proves "
             "that at every append the stored sin(theta)/lambda is that of the stored hkl; sort and genhkl_unique templates.",
     "note": "Trusted: C04, C05 (same caveat on early exit); numpy argsort/concatenate."},
    {"id": "C11", "engine": "E5 finite-configuration abstract interpretation",
     "technique": "enumeration of all 81 orientation matrices with concrete parameters; dihedral index-map domain for images, affine normal forms for coordinates",
     "text": "Exhaustive over the 81 matrices x 2 directions x 4 functions: with concrete o11..o22 every branch folds, images are "
             "elements of the dihedral index-map domain with symbolic extents and coordinates are affine normal forms, so the "
             "round trips, the agreement of xy_to_detyz with trans_orientation and the mutual inversion of the coordinate maps "
             "are decided exactly for every shape and every real coordinate; the other 73 matrices must raise ValueError in all "
             "four functions; the eta/radius pair is decided on both half planes.",
     "note": "Trusted: numpy transpose/fliplr/flipud/clip semantics; arccos(cos t) identities; the size convention stated in the property."},
    {"id": "C15", "engine": "E3 + abstract lattice-distance domain",
     "technique": "E3 for the image expression; abstract evaluation of the identification predicate over integer/rounding/fraction patterns; loop-shape and dispatch templates",
     "text": "The image of the position under operation i must be R_i x + t_i for symbolic R, t, x (variance: operator on the left); "
             "the predicate identifying two images is evaluated abstractly on all 64 patterns (each difference component an "
             "integer, integer +- rounding error, or a genuine fraction) and must be a two-sided distance to the lattice with a "
             "tolerance in [1e-5, 1e-2]; every image is compared with every representative and appended exactly when none "
             "matches; by-name and by-number reach sg.sg with the caller's setting. That the count is nsymop/|stabiliser| is "
             "the paper step from C04.",
     "note": "Trusted: C04; numpy mod/round/abs/sum; the recognised loop shape (otherwise ANALYSIS-ERROR)."},
    {"id": "C18", "engine": "data-flow + E3 layout inference",
     "technique": "syntax-directed data-flow of the lattice vectors in reduce_cell; row/column layout compared with the layout a_to_cell's body reads (E3)",
     "text": "Two clauses: (1) every candidate is an integer combination A.(i,j,k) of the input basis, the list is sorted by length, "
             "the zero vector skipped, and the second/third pick are guarded by positive collinearity/coplanarity thresholds; "
             "(2) the layout (rows vs columns) in which the three picked vectors reach a_to_cell equals the layout a_to_cell reads, "
             "which is necessary for the returned metric to be that of the picked basis. Whether the default search range "
             "contains the reduced basis of a given cell is not decided.",
     "note": "Trusted: C01. Two known findings (rows passed where columns are read, tools and laue; pinned by a test)."},
    {"id": "C10", "engine": "E3 algebraic value numbering",
     "technique": "abstract evaluation with the tilt matrix of tools.detect_tilt; geometric identities (collinearity, coplanarity) as normal-form identities",
     "text": "det_coor and det_coor2 are shown to give the same pixel for the same ray by substitution; the pixel mapped back by "
             "detector_to_lab is shown to lie on the ray from the grain position along (cos 2t, -sin 2t sin eta, sin 2t cos eta) "
             "(cross product identically zero) and in the detector plane, with R_tilt the product Rx Ry Rz built by "
             "tools.detect_tilt so that orthonormality is available as trigonometric identities. Holds for every distance, "
             "pixel size, centre, tilt and grain position; floating point and the sign of the ray parameter are not decided.",
     "note": "Trusted: C03 (detect_tilt); numpy sum/dot/array; the 2*pi convention of g-vectors in detector.py."},
    {"id": "C07", "engine": "E3 algebraic value numbering",
     "technique": "abstract evaluation of StructureFactor on a symbolic structure; normal-form equality with the sum whose terms carry the transformation laws",
     "text": "StructureFactor is evaluated on symbolic rotation parts, translations, positions, anisotropic tensors and hkl "
             "(2 and 3 operations, 1 and 2 atoms) and must equal the sum whose terms use R x + t, the phase 2 pi h.r with hkl on "
             "the left, and the image tensor R beta R^T; Friedel symmetry is checked on the normal form. The group-level "
             "statement F(hR) = F(h) exp(-2 pi i h.t) is then the re-indexing of that sum over a closed group (C04) - a paper step.",
     "note": "Trusted: C04, C01 (sintl even in h); numpy exp/cos/sin/dot/transpose."},
    {"id": "C08", "engine": "E3 algebraic value numbering",
     "technique": "abstract evaluation of StructureFactor and Uij2betaij; normal-form equality with the explicit sum; call-argument wiring",
     "text": "On a symbolic three-atom structure (isotropic, anisotropic, no ADP), with the dispersion table absent, present and "
             "with a None entry, StructureFactor must equal the explicit sum occ*mult/nsymop*(f+f'+if'')*DW*exp(2 pi i h.r) term "
             "by term; stl, the reciprocal cell and the form factor must be computed from the given cell, hkl and atom type; the "
             "beta tensor formula and U layout are decided separately. The listed consequences follow on paper.",
     "note": "Trusted: C16 (FormFactor), C01, C15; numpy."},
    {"id": "C02", "engine": "E3 algebraic value numbering",
     "technique": "normal-form comparison of each conversion with the stated matrix expression (callees opaque); exhaustive sign-pattern evaluation of the QR normalisation",
     "text": "Each of u_to_ubi, ubi_to_cell, ubi_to_u, ubi_to_u_b, ubi_to_rod (both modules) is evaluated with opaque callees and "
             "must equal the expression the property states (where tau sits, rows of UBI passed as columns, transposition); "
             "ub_to_u_b is evaluated on all 8 sign patterns of the triangular factor's diagonal and must return (Q D, D R). The "
             "round trips are the paper consequence of these shapes plus C01; numerical accuracy of qr/inv is not decided.",
     "note": "Trusted: numpy.linalg.qr/inv contracts; C01; CPython ast."},
    {"id": "C13", "engine": "E3 algebraic value numbering",
     "technique": "entry-wise verification that the back-substituted matrix solves the stated equation (normal forms); literal formula match; convention check of the arguments",
     "text": "For symbolic strain and symbolic unstrained matrix, the triangular matrices built by epsilon_to_b and epsilon_to_b_old "
             "are shown to satisfy sym(B0 X) = eps + I resp. sym(X A0inv) = eps + I entry by entry (hence for every cell and "
             "strain) and to reduce to the unstrained matrix at zero strain; b_to_epsilon(_old) equal sym(T) - I in the stated "
             "order; ubi_to_u_and_eps returns the stated U and must pass on the strained B of the module's own UBI convention. "
             "Mutual inversion is the paper consequence (unique triangular solution).",
     "note": "Trusted: form_b_mat/form_a_mat_inv upper triangular (C01); numpy dot/inv/eye. One known finding (tools, tau)."},
    {"id": "C09", "engine": "E3 algebraic value numbering",
     "technique": "substitution of the returned (omega, eta) expressions into the module's own rotation-matrix builder; identity of normal forms",
     "text": "For all four solvers in both modules the expressions returned for omega and eta are inserted into the rotation "
             "matrix the module itself builds for that solver (form_omega_mat_general, quart_to_omega, form_omega_mat; "
             "Ry(-wedge)Rz(omega) for the wedge solver) and the diffraction condition (x = -g.g, eta from the y,z rows) is "
             "proved as an identity of rational-function normal forms with sqrt relations - i.e. for every g, Bragg angle and "
             "tilt. Two-or-none branching with the right discriminant, the length precondition (assert / rescale) and the "
             "tth, tth2 formulas are decided as well. Tangency, the omega = -pi end point and round-off are not decided.",
     "note": "Trusted: numpy arctan2/arccos principal values; a cos w + b sin w = c has exactly two solutions on the circle "
             "when a^2+b^2 > c^2; C03 (the builders are the documented compositions)."},
    {"id": "C03", "engine": "E3 algebraic value numbering",
     "technique": "canonical trigonometric-polynomial normal forms of the constructors vs products of elementary rotations; reader/writer substitution for the inverses; sign-case enumeration of _arctan2",
     "text": "All six rotation constructors of both modules are compared entry-wise (exact identities in Q[cos,sin]/(s^2+c^2-1)) "
             "with the documented compositions, which the checker verifies to be proper rotations in the same algebra - so "
             "orthonormality, det = +1 and the documented composition hold for all real arguments. u_to_rod / u_to_euler are "
             "decided as reader/writer agreement on all three branches, _arctan2 on all nine sign cases, the output ranges from "
             "the wraps, and the near-gimbal accuracy clause through the ratio of the two thresholds. Floating-point accuracy "
             "of the inverses beyond that threshold rule is not decided.",
     "note": "Trusted: numpy trig functions; refs/rotations.py (elementary rotations, Rodrigues and quaternion formulas); "
             "sin(PHI) >= 0 on [0, pi]."},
    {"id": "C12", "engine": "E0 tables + E6 table algebra + E3",
     "technique": "table extraction + exact group axioms and pairing identities; template match of rotations(); E3 for the Umis trace formula",
     "text": "The seven permutation tables are extracted and checked exactly (orders, unimodularity, closure over all pairs, no "
             "duplicates); each arm of rotations() must be perm' (shown a proper rotation and paired on a basis of conforming "
             "B) or B perm^-1 B^-1 with a hexagonal B (shown orthogonal through the hexagonal reciprocal metric); the ROTATIONS "
             "cache and Umis's trace/arccos/clip formula are compared by shape and by E3. The invariances of the angle multiset "
             "are paper consequences.",
     "note": "Trusted: numpy elementwise product/sum/clip/arccos; C01's B shape for the conforming bases."},
    {"id": "C16", "engine": "E0 tables + E3",
     "technique": "table extraction + arithmetic on the extracted literals; E3 for the reader",
     "text": "Complete for the property as stated: all 94 rows are read from the source; f(0) = Z within 0.1, strict monotone "
             "decrease from the signs of a_i*b_i (analytic), positivity on [0,2] from the end point, and FormFactor's formula "
             "by E3.",
     "note": "Trusted: atomic numbers of H..Pu by symbol; math.exp in the checker."},
    {"id": "C14", "engine": "E1 sibling equivalence + E3",
     "technique": "normalised-AST comparison of the 41 sibling pairs; E3 normal-form equality up to the tau-weight signature for scale-sensitive pairs",
     "text": "Complete for the property as stated over the reals: the 41 pairs are enumerated; pairs that are scale-insensitive "
             "must have identical normalised syntax trees (same operations in the same order); every pair that carries a 2*pi "
             "factor, takes or returns a B matrix / g-vector, or calls such a function is evaluated in both modules by E3 on the "
             "same symbolic input scaled by tau^weight, callees opaque at their signature weight (induction over the call "
             "graph), and the results must be related by exactly the documented tau^weight.",
     "note": "Trusted: the signature table of tau-weights (xfabsa/signatures.py, from the docstrings); positive homogeneity of "
             "numpy's QR for ub_to_u_b (paper argument, listed); CPython ast. One known finding (shared with C13)."},
    {"id": "C20", "engine": "E4 syntax-directed path rules",
     "technique": "guard-dominance / who-may-call / who-may-write rules over the ast of every non-test file; E3 for the predicates",
     "text": "Complete for the property as stated: all call sites of checks._check_* in the repository are enumerated and must be "
             "guarded by exactly `if CHECKS.activated:` with nothing else in the block; each API named by the property must "
             "check the right value before any use (inputs) or before returning it (outputs); every raise is ValueError; the "
             "predicates are compared with the stated ones by E3 and their tolerances must lie in the window that accepts "
             "float32 rotations and rejects 1e-3 perturbations; the switch is a two-state automaton with a single writer.",
     "note": "Trusted: numpy.allclose semantics (|a-b| <= atol + rtol*|b|); CPython ast. A positive example "
             "(selftest/positive/c20_unguarded.py) must make the zero-count rule fire on every run."},
    {"id": "C01", "engine": "E3 algebraic value numbering",
     "technique": "abstract interpretation of the syntax tree into rational-function normal forms; equality with unique closed forms",
     "text": "Every entry of form_a_mat, form_b_mat, cell_volume, cell_invert and sintl^2, in both modules, is canonicalised "
             "(field of rational functions over the cell atoms with sqrt and sin^2+cos^2=1 relations) and compared with the "
             "unique upper-triangular positive-diagonal factor of the metric / reciprocal metric and the Int. Tab. B reciprocal "
             "cell. Normal-form equality is equality of real functions, so the metric clauses hold for every cell; "
             "triangular zeros, positive diagonal (sign domain) and the index pairing of the inverse maps are decided too. "
             "Floating-point accuracy of the round trips is not decided.",
     "note": "Trusted: CPython ast; numpy's cos/sin/sqrt/arccos/dot/transpose/inv mean what they say; the closed forms in "
             "refs/cell.py (self-checked each run: A'A=G, B'B=tau^2 G*, G G*=I, det A=V); the Cholesky uniqueness lemma."},
    {"id": "C04", "engine": "E0 tables + E6 table algebra",
     "technique": "static table extraction (ast) + exact group-axiom checking on the extracted literals",
     "text": "Complete for the property as stated: all 237 tabulated settings and all 244 names are extracted from the "
             "source text on every run and every clause (identity, closure over all pairs, inverses, duplicates, counts, "
             "nuniq x centring, Laue order and class, metric invariance on a basis of conforming metrics, name and number "
             "look-up through the pattern-verified model of sg.__init__) is decided exactly.",
     "note": "Trusted: CPython's ast parser; the checker's own integer arithmetic; the model of sg.__init__ is verified "
             "by pattern on every run (by-number 'Sg%i', by-name sgdic[normalised], trailing r -> rhombohedral)."},
]

_TODO = "not claimed"
NOT_APPLICABLE = [{"property_id": "C%02d" % i, "reason": _TODO} for i in range(1, 21)
                  if "C%02d" % i not in {c["id"] for c in CHECKS}]
