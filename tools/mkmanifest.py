#!/usr/bin/env python3
"""Regenerates /verif/MANIFEST.json from the table below (kept in one place so
the manifest is always schema-valid).  Run:  python3 tools/mkmanifest.py"""
import json, os, sys
HERE = os.path.dirname(os.path.dirname(os.path.abspath(__file__)))
sys.path.insert(0, HERE)
from tools.manifest_data import CHECKS, NOT_APPLICABLE, ENGINES  # noqa

BASE = ("cd /repo && /venv/bin/python -m pytest -ra -q -p no:cacheprovider --timeout=900 "
        "--continue-on-collection-errors")
man = {
    "version": 1,
    "setup_cmd": "true",
    "hooks": {
        "guard": "XFAB_VERIF",
        "enable": "none needed: the checks are static analyses that parse /repo's working tree; no hook "
                  "or instrumentation commit exists in /repo",
        "baseline_off_cmd": BASE,
        "source_commits": [],
        "add_only": True,
    },
    "engines": ENGINES,
    "checks": [],
    "not_applicable": NOT_APPLICABLE,
    "notes": "Every check is `./check <id> --tier quick|thorough` (POSIX sh wrapper around /venv/bin/python, "
             "stdlib only). Exit 0 holds / 1 VIOLATION / 2 ANALYSIS-ERROR (anchor vanished, idiom unreadable). "
             "Genuine defects repaired by `fix:` commits and those recorded instead are in known_findings.json; "
             "see DESIGN.md sections 3 and 4.",
}
for c in CHECKS:
    pid = c["id"]
    man["checks"].append({
        "property_id": pid,
        "quick_cmd": "./check %s --tier quick" % pid,
        "thorough_cmd": "./check %s --tier thorough" % pid,
        "evidence_file": "/verif/evidence/%s.json" % pid,
        "replay_cmd_template": "./check %s --replay {path}" % pid,
        "engine": c["engine"],
        "level_claimed": {"category": "other", "text": c["text"], "design_ref": "DESIGN.md section 3, %s" % pid},
        "level_note": c["note"],
        "technique": c["technique"],
    })
with open(os.path.join(HERE, "MANIFEST.json"), "w") as f:
    json.dump(man, f, indent=1)
    f.write("\n")
try:
    import jsonschema
    jsonschema.validate(man, json.load(open("/root/.vp/MANIFEST.schema.json")))
    print("MANIFEST.json valid;", len(man["checks"]), "checks,", len(NOT_APPLICABLE), "not applicable")
except ImportError:
    print("written (jsonschema not importable here)")
