"""the one-slip repairs of the round-4 seeds: seed id -> [(file, text with the slip, corrected text)] (each text occurs once).
Built into behaviour-preserving refactorings by selftest/mktwin.py (stored under seeded/neutral3/)."""
T, L, S, D, Y, G, A = "xfab/tools.py", "xfab/laue.py", "xfab/structure.py", "xfab/detector.py", "xfab/symmetry.py", "xfab/sglib.py", "xfab/atomlib.py"
SG = "xfab/sg.py"

TWINS = {
    "C01c": [(T, "astar*calpstar],\n                    [0,    1/(b*sgam),     bstar*cbetstar],", "astar*cbetstar],\n                    [0,    1/(b*sgam),     bstar*calpstar],"),
             (L, "astar*calpstar],\n                     [0,    1/(b*sgam),     bstar*cbetstar],", "astar*cbetstar],\n                     [0,    1/(b*sgam),     bstar*calpstar],")],
    "C02c": [(T, "    if CHECKS.activated: checks._check_rotation_matrix(U)\n\n    # The qr split is only unique up to the signs of the diagonal of B:\n"
                 "    # negating row i of B together with column i of U leaves U.B unchanged.\n    signs = n.where(n.diag(B) < 0, -1.0, 1.0)\n    return (U*signs, B*signs[:, n.newaxis])",
              "    # The qr split is only unique up to the signs of the diagonal of B:\n"
              "    # negating row i of B together with column i of U leaves U.B unchanged.\n    signs = n.where(n.diag(B) < 0, -1.0, 1.0)\n    U = U*signs\n"
              "    if CHECKS.activated: checks._check_rotation_matrix(U)\n    return (U, B*signs[:, n.newaxis])"),
             (L, "    if CHECKS.activated: checks._check_rotation_matrix(U)\n\n    # The qr split is only unique up to the signs of the diagonal of B:\n"
                 "    # negating row i of B together with column i of U leaves U.B unchanged.\n    signs = np.where(np.diag(B) < 0, -1.0, 1.0)\n    return (U*signs, B*signs[:, np.newaxis])",
              "    # The qr split is only unique up to the signs of the diagonal of B:\n"
              "    # negating row i of B together with column i of U leaves U.B unchanged.\n    signs = np.where(np.diag(B) < 0, -1.0, 1.0)\n    U = U*signs\n"
              "    if CHECKS.activated: checks._check_rotation_matrix(U)\n    return (U, B*signs[:, np.newaxis])")],
    "C03c": [(T, "    i, j = [k for k in range(3) if k != axis]", "    i, j = (axis + 1) % 3, (axis + 2) % 3"),
             (L, "    i, j = [k for k in range(3) if k != axis]", "    i, j = (axis + 1) % 3, (axis + 2) % 3")],
    "C04c": [(G, "    allrot = [r for r in rot for c in centring]", "    allrot = [r for c in centring for r in rot]"),
             (G, "                for t in trans for c in centring]", "                for c in centring for t in trans]")],
    "C05c": [(T, "            if sintl(unit_cell, plane) > sintlmax:", "            if sintl(unit_cell, plane) > sintl_stop:"),
             (L, "            if sintl(unit_cell, plane) > sintlmax:", "            if sintl(unit_cell, plane) > sintl_stop:")],
    "C06c": [(T, "            if not (sintlmin < stl <= stl_limit):", "            if not (sintlmin < stl <= sintlmax):")],
    "C07c": [(S, "    hklrot = n.dot(rot, hkl)", "    hklrot = n.dot(hkl, rot)")],
    "C08c": [(S, "        hrot = n.dot(rot, hkl)", "        hrot = n.dot(hkl, rot)")],
    "C09c": [(T, "    r_mat = n.dot(_rot_y(w_y), _rot_x(w_x))", "    r_mat = n.dot(_rot_x(w_x), _rot_y(w_y))"),
             (L, "    r_mat = np.dot(_rot_y(w_y), _rot_x(w_x))", "    r_mat = np.dot(_rot_x(w_x), _rot_y(w_y))")],
    "C10c": [(D, "    Ltv = n.dot(R_tilt, pos - det_origin + t*v)", "    Ltv = n.dot(n.transpose(R_tilt), pos - det_origin + t*v)")],
    "C11c": [(D, "    return n.where(reversed_axis, -det_size, 0)", "    return n.where(reversed_axis, -n.dot(n.abs(omat), det_size), 0)")],
    "C12c": [(Y, "    if crystal_system <= TETRAGONAL:", "    if crystal_system < TETRAGONAL:")],
    "C13c": [(T, "    for e, (i, j) in zip(epsilon, _EPSILON_INDEX):\n        if i == j:\n            continue",
              "    pairs = list(zip(epsilon, _EPSILON_INDEX))\n    if not unknown_first:\n        pairs.reverse()\n    for e, (i, j) in pairs:\n        if i == j:\n            continue"),
             (L, "    for e, (i, j) in zip(epsilon, _EPSILON_INDEX):\n        if i == j:\n            continue",
              "    pairs = list(zip(epsilon, _EPSILON_INDEX))\n    if not unknown_first:\n        pairs.reverse()\n    for e, (i, j) in pairs:\n        if i == j:\n            continue")],
    "C14c": [(L, "    'm-3'   : [_SEG_CUBIC, _SEG_WEDGE_K],", "    'm-3'   : [_SEG_CUBIC, [[ 1, 2,  0], [ 0, 1, 0], [ 1, 1, 0], [ 1, 1,  1]]],")],
    "C15c": [(S, "    return int(n.sum(1.0/nshared))", "    return int(round(n.sum(1.0/nshared)))")],
    "C16c": [(A, "_symbol = re.compile(r'\\s*([A-Z][a-z]?)')", "_symbol = re.compile(r'\\s*([A-Za-z]{1,2})')")],
    "C17c": [(S, "        frac = n.dot(xyz, scalemat[:, :3]) + scalemat[:, 3]", "        frac = n.dot(xyz, n.transpose(scalemat[:, :3])) + scalemat[:, 3]")],
    "C18c": [(T, "    res = n.array([[i, j, k, 0] for i in idx for j in idx for k in idx])", "    res = n.array([[i, j, k, 0.0] for i in idx for j in idx for k in idx])"),
             (L, "    res = np.array([[i, j, k, 0] for i in idx for j in idx for k in idx])", "    res = np.array([[i, j, k, 0.0] for i in idx for j in idx for k in idx])")],
    "C20c": [(T, "    if CHECKS.activated: checks._check_rotation_matrix(Q)", "    if CHECKS.activated: checks._check_rotation_matrix(U)"),
             (L, "    if CHECKS.activated: checks._check_rotation_matrix(Q)", "    if CHECKS.activated: checks._check_rotation_matrix(U)")],
    # ---- round 7 (input-class-specific defects): the same edit done right
    "C01s": [(T, "    cell = n.array(unit_cell)\n", "    cell = n.array(unit_cell, dtype=float)\n")],
    "C03s": [(T, "    q = [n.sqrt(max(0., 1. - n.dot(qua, qua))), qua[0], qua[1], qua[2]]",
              "    q = [n.copysign(n.sqrt(max(0., 1. - n.dot(qua, qua))), n.cos(whalf)), qua[0], qua[1], qua[2]]"),
             (L, "    q = [np.sqrt(max(0., 1. - np.dot(qua, qua))), qua[0], qua[1], qua[2]]",
              "    q = [np.copysign(np.sqrt(max(0., 1. - np.dot(qua, qua))), np.cos(whalf)), qua[0], qua[1], qua[2]]")],
    "C04s": [(SG, "            if sgname[0] in \"Rr\" and sgname[-1]==\"r\":", "            if sgname[0] in \"Rr\" and sgname[-1] in \"Rr\":")],
    "C05s": [(T, "    if crystal_system == 'trigonal' or crystal_system == 'hexagonal':\n        # equivalents by the three-fold axis along c (h k i l indices)\n"
                 "        equivalents = [[h, k, l], [-(h+k), h, l], [k, -(h+k), l]]\n    elif crystal_system == 'cubic' or cell_choice == 'rhombohedral':\n"
                 "        # equivalents by the three-fold axis along [111]\n        equivalents = [[h, k, l], [k, l, h], [l, h, k]]\n",
              "    if crystal_system == 'cubic' or cell_choice == 'rhombohedral':\n        # equivalents by the three-fold axis along [111]\n"
              "        equivalents = [[h, k, l], [k, l, h], [l, h, k]]\n    elif crystal_system == 'trigonal' or crystal_system == 'hexagonal':\n"
              "        # equivalents by the three-fold axis along c (h k i l indices)\n        equivalents = [[h, k, l], [-(h+k), h, l], [k, -(h+k), l]]\n")],
    "C06s": [(T, "        a = n.dot(Rots, refl[:3])", "        a = n.dot(refl[:3], Rots)"),
             (L, "        a = np.dot(Rots, refl[:3])", "        a = np.dot(refl[:3], Rots)")],
    "C07s": [(SG, "        trans[inexact] = n.round(3*trans[inexact])/3.", "        trans[inexact] = n.round(24*trans[inexact])/24.")],
    "C08s": [(S, "                hrot = n.dot(mysg.rot[j], hkl)", "                hrot = n.dot(hkl, mysg.rot[j])")],
    "C09s": [(L, "            omega.append(w_plus_alpha - alpha)\n            if omega[i] > np.pi:\n                omega[i] = omega[i] - 2*np.pi\n",
              "            omega.append(w_plus_alpha - alpha)\n            if omega[i] > np.pi:\n                omega[i] = omega[i] - 2*np.pi\n"
              "            elif omega[i] <= -np.pi:\n                omega[i] = omega[i] + 2*np.pi\n")],
    "C10s": [(D, "    pos = n.array([tx, ty, tz])\n", "    pos = n.array([tx, ty, tz], dtype=float)\n")],
    "C11s": [(D, "                                                   -det_size, 0))", "                                                   -n.dot(n.abs(omat), det_size), 0))"),
             (D, "                                     -det_size, 0)", "                                     -n.dot(n.abs(omat), det_size), 0)")],
    "C12s": [(Y, "        perm[1]  = [[-1, 0, 0], [ 0, -1, 0], [ 0, 0,  1]]\n        perm[2]  = [[-1, 0, 0], [ 0,  1, 0], [ 0, 0, -1]]\n        perm[3]  = [[ 1, 0, 0], [ 0, -1, 0], [ 0, 0, -1]]\n        perm = perm[",
              "        perm[1]  = [[-1, 0, 0], [ 0,  1, 0], [ 0, 0, -1]]\n        perm[2]  = [[-1, 0, 0], [ 0, -1, 0], [ 0, 0,  1]]\n        perm[3]  = [[ 1, 0, 0], [ 0, -1, 0], [ 0, 0, -1]]\n        perm = perm[")],
    "C13s": [(T, "    for i, j in zip(*n.triu_indices(3, 1)):", "    for i, j in ((0, 1), (1, 2), (0, 2)):")],
    "C15u": [(S, "def multiplicity(position, sgname=None, sgno=None, cell_choice='standard'):", "def multiplicity(position, sgname=None, sgno=None, cell_choice=None):")],
    "C13u": [(L, "    eps = _a_to_epsilon(np.dot(ubi, U), unit_cell)", "    eps = _a_to_epsilon(np.transpose(np.dot(ubi, U)), unit_cell)")],
    "C14s": [(L, "                        if sysabs(HLAST, sysconditions, crystal_system) == 0:\n                            if  sintlH > sintlmin and sintlH <= sintlmax:\n                                H = np.concatenate((H, [HLAST]))\n                                stl = np.concatenate((stl, [sintlH]))\n",
              "                        if sysabs(HLAST, sysconditions, crystal_system, cell_choice) == 0:\n                            if  sintlH > sintlmin and sintlH <= sintlmax:\n                                H = np.concatenate((H, [HLAST]))\n                                stl = np.concatenate((stl, [sintlH]))\n")],
    "C15s": [(S, "        t = lp[i] - lpu\n", "        t = lp[i] - lpu[:multi]\n")],
    "C16s": [(S, "    formfac = n.full_like(stl2, data[8])", "    formfac = n.full_like(stl2, data[8], dtype=float)")],
    "C17s": [(S, "r'\\s*[-+]?\\d*\\.?\\d*'", "r'\\s*[-+]?\\d*\\.?\\d*(?:[eE][-+]?\\d+)?'")],
    "C20s": [(Y, "        checks._check_rotation_matrix(relative_rotation)", "        checks._check_rotation_matrix(umat_1)\n        checks._check_rotation_matrix(umat_2)")],
}
