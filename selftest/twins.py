"""the one-slip repairs of the round-4 seeds: seed id -> [(file, text with the slip, corrected text)] (each text occurs once).
Built into behaviour-preserving refactorings by selftest/mktwin.py (stored under seeded/neutral3/)."""
T, L, S, D, Y, G, A = "xfab/tools.py", "xfab/laue.py", "xfab/structure.py", "xfab/detector.py", "xfab/symmetry.py", "xfab/sglib.py", "xfab/atomlib.py"

TWINS = {
    "C01c": [(T, "astar*calpstar],\n                    [0,    1/(b*sgam),     bstar*cbetstar],", "astar*cbetstar],\n                    [0,    1/(b*sgam),     bstar*calpstar],"),
             (L, "astar*calpstar],\n                     [0,    1/(b*sgam),     bstar*cbetstar],", "astar*cbetstar],\n                     [0,    1/(b*sgam),     bstar*calpstar],")],
    "C02c": [(T, "    if CHECKS.activated: checks._check_rotation_matrix(U)\n\n    # The qr split is only unique up to the signs of the diagonal of B:\n"
                 "    # negating row i of B together with column i of U leaves U.B unchanged.\n    signs = n.where(n.diag(B) < 0, -1.0, 1.0)\n    return (U*signs, B*signs[:, n.newaxis])",
              "    # The qr split is only unique up to the signs of the diagonal of B:\n"
              "    # negating row i of B together with column i of U leaves U.B unchanged.\n    signs = n.where(n.diag(B) < 0, -1.0, 1.0)\n    U = U*signs\n"
              "    if CHECKS.activated: checks._check_rotation_matrix(U)\n    return (U, B*signs[:, n.newaxis])"),
             (L, "    if CHECKS.activated: checks._check_rotation_matrix(U)\n\n    # The qr split is only unique up to the signs of the diagonal of B:\n"
                 "    # negating row i of B together with column i of U leaves U.B unchanged.\n    signs = np.where(np.diag(B) < 0, -1.0, 1.0)\n    return (U*signs, B*signs[:, np.newaxis])",
              "    # The qr split is only unique up to the signs of the diagonal of B:\n"
              "    # negating row i of B together with column i of U leaves U.B unchanged.\n    signs = np.where(np.diag(B) < 0, -1.0, 1.0)\n    U = U*signs\n"
              "    if CHECKS.activated: checks._check_rotation_matrix(U)\n    return (U, B*signs[:, np.newaxis])")],
    "C03c": [(T, "    i, j = [k for k in range(3) if k != axis]", "    i, j = (axis + 1) % 3, (axis + 2) % 3"),
             (L, "    i, j = [k for k in range(3) if k != axis]", "    i, j = (axis + 1) % 3, (axis + 2) % 3")],
    "C04c": [(G, "    allrot = [r for r in rot for c in centring]", "    allrot = [r for c in centring for r in rot]"),
             (G, "                for t in trans for c in centring]", "                for c in centring for t in trans]")],
    "C05c": [(T, "            if sintl(unit_cell, plane) > sintlmax:", "            if sintl(unit_cell, plane) > sintl_stop:"),
             (L, "            if sintl(unit_cell, plane) > sintlmax:", "            if sintl(unit_cell, plane) > sintl_stop:")],
    "C06c": [(T, "            if not (sintlmin < stl <= stl_limit):", "            if not (sintlmin < stl <= sintlmax):")],
    "C07c": [(S, "    hklrot = n.dot(rot, hkl)", "    hklrot = n.dot(hkl, rot)")],
    "C08c": [(S, "        hrot = n.dot(rot, hkl)", "        hrot = n.dot(hkl, rot)")],
    "C09c": [(T, "    r_mat = n.dot(_rot_y(w_y), _rot_x(w_x))", "    r_mat = n.dot(_rot_x(w_x), _rot_y(w_y))"),
             (L, "    r_mat = np.dot(_rot_y(w_y), _rot_x(w_x))", "    r_mat = np.dot(_rot_x(w_x), _rot_y(w_y))")],
    "C10c": [(D, "    Ltv = n.dot(R_tilt, pos - det_origin + t*v)", "    Ltv = n.dot(n.transpose(R_tilt), pos - det_origin + t*v)")],
    "C11c": [(D, "    return n.where(reversed_axis, -det_size, 0)", "    return n.where(reversed_axis, -n.dot(n.abs(omat), det_size), 0)")],
    "C12c": [(Y, "    if crystal_system <= TETRAGONAL:", "    if crystal_system < TETRAGONAL:")],
    "C13c": [(T, "    for e, (i, j) in zip(epsilon, _EPSILON_INDEX):\n        if i == j:\n            continue",
              "    pairs = list(zip(epsilon, _EPSILON_INDEX))\n    if not unknown_first:\n        pairs.reverse()\n    for e, (i, j) in pairs:\n        if i == j:\n            continue"),
             (L, "    for e, (i, j) in zip(epsilon, _EPSILON_INDEX):\n        if i == j:\n            continue",
              "    pairs = list(zip(epsilon, _EPSILON_INDEX))\n    if not unknown_first:\n        pairs.reverse()\n    for e, (i, j) in pairs:\n        if i == j:\n            continue")],
    "C14c": [(L, "    'm-3'   : [_SEG_CUBIC, _SEG_WEDGE_K],", "    'm-3'   : [_SEG_CUBIC, [[ 1, 2,  0], [ 0, 1, 0], [ 1, 1, 0], [ 1, 1,  1]]],")],
    "C15c": [(S, "    return int(n.sum(1.0/nshared))", "    return int(round(n.sum(1.0/nshared)))")],
    "C16c": [(A, "_symbol = re.compile(r'\\s*([A-Z][a-z]?)')", "_symbol = re.compile(r'\\s*([A-Za-z]{1,2})')")],
    "C17c": [(S, "        frac = n.dot(xyz, scalemat[:, :3]) + scalemat[:, 3]", "        frac = n.dot(xyz, n.transpose(scalemat[:, :3])) + scalemat[:, 3]")],
    "C18c": [(T, "    res = n.array([[i, j, k, 0] for i in idx for j in idx for k in idx])", "    res = n.array([[i, j, k, 0.0] for i in idx for j in idx for k in idx])"),
             (L, "    res = np.array([[i, j, k, 0] for i in idx for j in idx for k in idx])", "    res = np.array([[i, j, k, 0.0] for i in idx for j in idx for k in idx])")],
    "C20c": [(T, "    if CHECKS.activated: checks._check_rotation_matrix(Q)", "    if CHECKS.activated: checks._check_rotation_matrix(U)"),
             (L, "    if CHECKS.activated: checks._check_rotation_matrix(Q)", "    if CHECKS.activated: checks._check_rotation_matrix(U)")],
}
