#!/usr/bin/env python3
"""mktwin.py <seed id> <Cnn> : build the *repaired twin* of a seeded breaking change -- the same clean-up with its one slip
corrected (replacements listed in selftest/twins.py) -- confirm it (test-suite passes, the seed's own demo prints PASS) and
store it as seeded/neutral3/<Cnn>/patch.diff: a behaviour-preserving refactoring every check must stay silent on."""
import os
import shutil
import subprocess
import sys
import tempfile

HERE = os.path.dirname(os.path.abspath(__file__))
VERIF = os.path.dirname(HERE)
sys.path.insert(0, VERIF)
from selftest.twins import TWINS  # noqa: E402


def main(seed, name):
    d = tempfile.mkdtemp(prefix="xfab_twin_")
    try:
        for sub in ("xfab", "test"):
            shutil.copytree(os.path.join("/repo", sub), os.path.join(d, sub), ignore=shutil.ignore_patterns("__pycache__", "*.pyc"))
        shutil.copytree(os.path.join(d, "xfab"), os.path.join(d, "orig", "xfab"))
        subprocess.run(["patch", "-p1", "-s", "-i", os.path.join(VERIF, "seeded", seed, "patch.diff")], cwd=d, check=True)
        for rel, old, new in TWINS[seed]:
            p = os.path.join(d, rel)
            s = open(p).read()
            if s.count(old) < 1 or (s.count(old) != 1 and not old.startswith("    pos = n.array([tx, ty, tz])")):
                print("replacement text occurs %d times in %s: %r" % (s.count(old), rel, old[:60]))
                return 2
            open(p, "w").write(s.replace(old, new))
        env = dict(os.environ, PYTHONPATH=d)
        t = subprocess.run(["/venv/bin/python", "-m", "pytest", "-q", "-p", "no:cacheprovider", "test"], cwd=d, env=env, capture_output=True, text=True)
        tests = (t.stdout.strip().splitlines() or ["?"])[-1]
        demo = [f for f in os.listdir(os.path.join(VERIF, "seeded", seed)) if f.startswith("demo_")][0]
        r = subprocess.run(["/venv/bin/python", os.path.join(VERIF, "seeded", seed, demo)], cwd=d, env=env, capture_output=True, text=True)
        out = os.path.join(VERIF, "seeded", "neutral3", name)
        os.makedirs(out, exist_ok=True)
        diff = subprocess.run(["diff", "-ruN", "orig/xfab", "xfab"], cwd=d, capture_output=True, text=True).stdout
        # git-apply friendly headers
        lines = []
        for ln in diff.splitlines(True):
            if ln.startswith("diff -ruN"):
                rel = ln.split()[-1]
                lines.append("diff --git a/%s b/%s\n" % (rel, rel))
            elif ln.startswith("--- orig/"):
                lines.append("--- a/%s\n" % ln[len("--- orig/"):].split("\t")[0].strip())
            elif ln.startswith("+++ xfab/"):
                lines.append("+++ b/%s\n" % ln[len("+++ "):].split("\t")[0].strip())
            else:
                lines.append(ln)
        open(os.path.join(out, "patch.diff"), "w").write("".join(lines))
        open(os.path.join(out, "confirm.txt"), "w").write("twin of: %s\ntests: %s\ndemo_exit: %d (%s)\n" % (seed, tests, r.returncode, (r.stdout.strip().splitlines() or [""])[-1][:80]))
        open(os.path.join(out, "NOTES.md"), "w").write("Repaired twin of seeded/%s: the same clean-up with its slip corrected (selftest/twins.py).\n" % seed)
        print("[%s twin] tests: %s | demo exit %d (%s)" % (seed, tests, r.returncode, (r.stdout.strip().splitlines() or [""])[-1][:60]))
        return 0 if r.returncode == 0 and "passed" in tests and "failed" not in tests else 1
    finally:
        shutil.rmtree(d, ignore_errors=True)


if __name__ == "__main__":
    sys.exit(main(sys.argv[1], sys.argv[2]))
