#!/bin/sh
# try_seed_on_base.sh <Cnn> <suffix>: a sub-agent's breaking change made ON TOP of a refactored base (a standalone scratch repository
# /tmp/wt_<Cnn><suffix> whose single commit is /repo's tree with seeded/neutral4/<Cnn>/patch.diff applied).  Confirms it (tests pass,
# demo fails with / passes without the change), stores seeded/<Cnn><suffix>/ with patch.diff = base refactoring + change relative to
# /repo (so it applies to /repo directly) and seed_only.diff, then runs every quick check against it (applied to /repo, reverted).
ID="$1"; SFX="$2"; WT="/tmp/wt_${ID}${SFX}"; OUT="/verif/seeded/${ID}${SFX}"
PY=/venv/bin/python
[ -f "$WT/patch.diff" ] || { echo "no patch.diff in $WT"; exit 2; }
mkdir -p "$OUT"
cd "$WT" || exit 2
git diff --quiet -- xfab && git apply patch.diff
T_WITH=$(PYTHONPATH="$WT" $PY -m pytest -q -p no:cacheprovider test 2>&1 | tail -1)
PYTHONPATH="$WT" $PY "demo_${ID}.py" >/tmp/demo_with_$ID.log 2>&1; D_WITH=$?
git diff -- xfab > "$OUT/seed_only.diff"
git stash -q 2>/dev/null || git checkout -q -- xfab
git checkout -q -- xfab 2>/dev/null
PYTHONPATH="$WT" $PY "demo_${ID}.py" >/tmp/demo_without_$ID.log 2>&1; D_WITHOUT=$?
git stash pop -q 2>/dev/null || git apply "$OUT/seed_only.diff"
echo "[$ID$SFX] tests with change: $T_WITH | demo with change exit $D_WITH | demo without exit $D_WITHOUT"
cp "demo_${ID}.py" "$OUT/"; cp NOTES.md "$OUT/NOTES.md" 2>/dev/null
# combined patch relative to /repo
S=$(mktemp -d); mkdir -p "$S/a" "$S/b"; cp -r /repo/xfab "$S/a/xfab"; cp -r "$WT/xfab" "$S/b/xfab"; find "$S" -name __pycache__ -prune -exec rm -rf {} +
(cd "$S" && diff -ruN a/xfab b/xfab) | sed -e 's#^diff -ruN a/\(\S*\) b/\(\S*\)#diff --git a/\1 b/\2#' -e 's#^--- a/\(\S*\).*#--- a/\1#' -e 's#^+++ b/\(\S*\).*#+++ b/\1#' > "$OUT/patch.diff"
rm -rf "$S"
cd /repo && git diff --quiet || { echo "/repo not clean"; exit 2; }
git -C /repo apply "$OUT/patch.diff" || { echo "patch does not apply to /repo"; exit 2; }
CAUGHT=""
for i in 01 02 03 04 05 06 07 08 09 10 11 12 13 14 15 16 17 18 19 20; do
  R=$(cd /verif && XFAB_EVIDENCE_DIR=/tmp/seed_ev ./check C$i --tier quick 2>&1); RC=$?
  if [ $RC -ne 0 ]; then
     CAUGHT="$CAUGHT C$i(exit$RC)"
     echo "$R" | grep -E "^ *FAIL|ANALYSIS-ERROR" | head -3 | cut -c1-300
  fi
done
git -C /repo checkout -- .
echo "[$ID$SFX] checks raising:${CAUGHT:- none}"
echo "$CAUGHT" > "$OUT/caught_by.txt"
echo "base: seeded/neutral4/$ID" > "$OUT/confirm.txt"; echo "tests_with_change: $T_WITH" >> "$OUT/confirm.txt"; echo "demo_with_change_exit: $D_WITH" >> "$OUT/confirm.txt"; echo "demo_without_change_exit: $D_WITHOUT" >> "$OUT/confirm.txt"
