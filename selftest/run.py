#!/usr/bin/env python3
"""Self-test of the checkers, both ways:  python3 selftest/run.py [Cnn ...] [--jobs N]
Applies every entry of selftest/mutations.py (of the listed properties, default all) to its own
scratch copy of /repo's xfab package under $TMPDIR (removed afterwards), runs the property's quick
check with XFAB_REPO pointing at the copy, and compares with the expectation.
Exit 0: every mutant caught and every behaviour-preserving edit silent.  Exit 1 otherwise."""
import os
import shutil
import subprocess
import sys
import tempfile
from concurrent.futures import ThreadPoolExecutor

HERE = os.path.dirname(os.path.abspath(__file__))
VERIF = os.path.dirname(HERE)
sys.path.insert(0, VERIF)
from selftest.mutations import M  # noqa: E402

REPO = os.environ.get("XFAB_REPO", "/repo")


def one(idx_entry):
    idx, (pid, rel, old, new, nth, expect, frag) = idx_entry
    d = tempfile.mkdtemp(prefix="xfab_selftest_")
    try:
        shutil.copytree(os.path.join(REPO, "xfab"), os.path.join(d, "xfab"), ignore=shutil.ignore_patterns("__pycache__", "*.pyc"))
        if os.path.isdir(os.path.join(REPO, "scripts")):
            shutil.copytree(os.path.join(REPO, "scripts"), os.path.join(d, "scripts"))
        p = os.path.join(d, rel)
        s = open(p).read()
        n = s.count(old)
        if nth == "all" and n > 0:
            s = s.replace(old, new)
        elif n == 0 or (nth is None and n != 1):
            return idx, pid, "STALE", "old text occurs %d times in %s (corpus out of date with the tree)" % (n, rel)
        elif nth is None:
            s = s.replace(old, new)
        else:
            i = -1
            for _ in range(nth):
                i = s.index(old, i + 1)
            s = s[:i] + new + s[i + len(old):]
        open(p, "w").write(s)
        env = dict(os.environ, XFAB_REPO=d, XFAB_SELFTEST_CHILD="1", XFAB_EVIDENCE_DIR=os.path.join(d, "evidence"))
        r = subprocess.run([os.path.join(VERIF, "check"), pid, "--tier", "quick"], env=env, capture_output=True, text=True)
        out = r.stdout + r.stderr
        fails = [l for l in out.splitlines() if l.lstrip().startswith("FAIL")]
        if expect == "violation":
            if r.returncode == 1 and any(frag in l for l in fails):
                return idx, pid, "ok", ""
            return idx, pid, "MISSED", "exit %d, FAIL lines: %s" % (r.returncode, [l.strip()[:90] for l in fails][:3] or out.strip()[-200:])
        if expect == "silent":
            if r.returncode == 0:
                return idx, pid, "ok", ""
            return idx, pid, "FALSE-ALARM", "exit %d: %s" % (r.returncode, [l.strip()[:120] for l in fails][:2] or out.strip()[-200:])
        return idx, pid, "BAD-ENTRY", expect
    finally:
        shutil.rmtree(d, ignore_errors=True)


def main(argv):
    jobs = 16
    pids = []
    i = 0
    while i < len(argv):
        if argv[i] == "--jobs":
            jobs = int(argv[i + 1]); i += 2
        else:
            pids.append(argv[i].upper()); i += 1
    todo = [(k, e) for k, e in enumerate(M) if not pids or e[0] in pids]
    bad = 0
    with ThreadPoolExecutor(max_workers=jobs) as ex:
        for idx, pid, verdict, msg in ex.map(one, todo):
            if verdict != "ok":
                bad += 1
                e = M[idx]
                print("SELFTEST %s #%d %s %s -> %s  %s" % (verdict, idx, pid, e[1], e[5], msg))
    nv = sum(1 for _k, e in todo if e[5] == "violation")
    ns = len(todo) - nv
    print("selftest: %d variants (%d breaking, %d behaviour-preserving), %d not as expected" % (len(todo), nv, ns, bad))
    return 1 if bad else 0


if __name__ == "__main__":
    sys.exit(main(sys.argv[1:]))
