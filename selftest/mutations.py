"""
Self-test corpus: source edits applied to a scratch copy of /repo's working
tree (never to /repo), one at a time.  Each entry:

    (property, file, old text, new text, nth occurrence or None, expectation, key fragment)

expectation  "violation": the check must exit 1 and a FAIL line must contain the key fragment
             "silent":    behaviour-preserving edit, the check must exit 0
Every "violation" variant still imports and keeps the existing tests green
(they touch what the tests do not reach); they were each confirmed once by hand.
`selftest/run.py` applies them in parallel; the thorough tier of every check
runs the entries of its property and fails closed (exit 2) if one is missed.
"""

T, L, S, D, Y, G, A, P, C, SG = ("xfab/tools.py", "xfab/laue.py", "xfab/structure.py", "xfab/detector.py",
                               "xfab/symmetry.py", "xfab/sglib.py", "xfab/atomlib.py", "xfab/parameters.py",
                               "xfab/checks.py", "xfab/sg.py")

M = [
    # ---------------------------------------------------------------- C01
    ("C01", T, "[0, b*sgam, -c*sbet*calpstar ]", "[0, b*sgam, c*sbet*calpstar ]", None, "violation", "C01:ref:tools.form_a_mat[1,2]"),
    ("C01", L, "alpha = degrees(np.arccos(g[1, 2]/b/c))", "alpha = degrees(np.arccos(g[0, 2]/b/c))", None, "violation", "C01:inverse:laue.a_to_cell[3]"),
    ("C01", T, "2*h*k*(calp*cbet-cgam)/(a*b)", "2*h*k*(calp*cbet-cgam)/(a*c)", None, "violation", "C01:ref:tools.sintl^2"),
    ("C01", T, "    B = B/(2*n.pi)", "    B = B/(n.pi)", None, "violation", "C01:inverse:tools.b_to_cell"),
    ("C01", T, "    V = a*b*c*angular   ", "    V = angular*(c*b)*a   ", None, "silent", ""),
    ("C01", L, "    cstar = a*b*sgam/V                        \n    #salpstar", "    cstar = (b*a)*sgam/V                        \n    #salpstar", None, "silent", ""),
    ("C01", T, "    calp = n.cos(unit_cell[3]*n.pi/180.)\n    cbet = n.cos(unit_cell[4]*n.pi/180.)\n    cgam = n.cos(unit_cell[5]*n.pi/180.)\n    #salp",
     "    calp = n.cos(unit_cell[4]*n.pi/180.)\n    cbet = n.cos(unit_cell[4]*n.pi/180.)\n    cgam = n.cos(unit_cell[5]*n.pi/180.)\n    #salp", None, "violation", "C01:ref:tools.form_a_mat"),
    # ---------------------------------------------------------------- C02
    ("C02", T, "        U[1, 0] = -U[1, 0]\n", "", None, "violation", "C02:qr:tools"),
    ("C02", L, "        B[1, 2] = -B[1, 2]\n", "", None, "violation", "C02:qr:laue"),
    ("C02", T, "    return n.array(a_to_cell(n.transpose(ubi)))", "    return n.array(a_to_cell(ubi))", None, "violation", "C02:shape:tools.ubi_to_cell"),
    ("C02", L, "    return ub_to_u_b(np.linalg.inv(ubi))", "    return ub_to_u_b(ubi)", None, "violation", "C02:shape:laue.ubi_to_u_b"),
    ("C02", T, "    if B[2, 2] < 0:", "    if B[2, 2] > 0:", None, "violation", "C02:qr:tools"),
    # ---------------------------------------------------------------- C03
    ("C03", T, "    U[1, 2] =  -n.cos(phi1)*n.sin(PHI)", "    U[1, 2] =  n.cos(phi1)*n.sin(PHI)", None, "violation", "C03:ctor:tools.euler_to_u"),
    ("C03", L, "        phi1 = _arctan2(U[0, 2], -U[1, 2])", "        phi1 = _arctan2(U[0, 2], U[1, 2])", None, "violation", "C03:euler-inv:laue.phi1"),
    ("C03", L, "        phi1 = _arctan2(-U[0, 1], U[0, 0])", "        phi1 = _arctan2(U[0, 1], U[0, 0])", None, "violation", "C03:euler-inv:laue.gimbal-zero"),
    ("C03", T, "[i, j, k] == [2, 0, 1]:", "[i, j, k] == [2, 1, 0]:", None, "violation", "C03:ctor:tools.rod_to_u"),
    ("C03", T, "2*q[2]*q[3]-2*q[1]*q[0]],", "2*q[2]*q[3]+2*q[1]*q[0]],", None, "violation", "C03:ctor:tools.quart_to_omega"),
    ("C03", T, "    whalf = w*n.pi/360. ", "    whalf = w*n.pi/180. ", None, "violation", "C03:ctor:tools.quart_to_omega"),
    ("C03", T, "    elif x<0 and y>=0:", "    elif x<0 and y>0:", None, "violation", "C03:arctan2:tools.x<0,y=0"),
    ("C03", T, "    r2 = (U[2, 0]-U[0, 2])*a", "    r2 = (U[0, 2]-U[2, 0])*a", None, "violation", "C03:rod:tools.u_to_rod"),
    ("C03", T, "    Om = n.dot(phi_x,n.dot(phi_y,Om))", "    Om = n.dot(phi_y,n.dot(phi_x,Om))", None, "violation", "C03:ctor:tools.form_omega_mat_general"),
    ("C03", T, "    tol = 1e-14", "    tol = 1e-8", None, "violation", "C03:snap:tools.u_to_euler"),
    # ---------------------------------------------------------------- C04
    ("C04", SG, '"p-62c" : "Sg190"', '"p-62c" : "Sg189"', None, "violation", "C04:name:p-62c"),
    ("C04", G, '        self.Laue = "4/m"', '        self.Laue = "4/mmm"', 3, "violation", "C04:laue:"),
    ("C04", G, "[0.500000,0.500000,0.000000], \n                [0.500000,0.500000,0.000000], \n                ]\n\nclass Sg6:",
     "[0.500000,0.500000,0.000000], \n                [0.500000,0.000000,0.000000], \n                ]\n\nclass Sg6:", None, "violation", "C04:closure:Sg5"),
    # ---------------------------------------------------------------- C05 / C06
    ("C05", L, "        if (abs(h+h+l))%condition != 0:", "        if (abs(h+l+l))%condition != 0:", None, "violation", "C05:syscond:"),
    ("C05", T, "            hkls.append(n.dot(refl[:3],R))", "            hkls.append(n.dot(R,refl[:3]))", None, "violation", "C05:expand:tools.right-action"),
    ("C05", G, "        self.syscond = [0, 0, 0, 0, 0, 0, 0, 0, 0, 0, 0, 0,\n                        0, 0, 0, 0, 0, 0, 0, 0, 0, 2, 0,",
     "        self.syscond = [0, 0, 0, 0, 0, 0, 0, 0, 0, 0, 0, 0,\n                        0, 0, 0, 0, 0, 0, 0, 0, 2, 0, 0,", 1, "violation", "C05:syscond:Sg4:standard"),
    ("C05", T, "    if cell_choice == 'rhombohedral' or crystal_system == 'cubic':", "    if cell_choice == 'rhombohedral':", None, "violation", "C05:syscond:Sg223"),
    ("C06", L, "                HSAVE = HSAVE + segm[segn, 2, :]\n                HLAST = HSAVE\n                HNEW  = HLAST\n                sintlH   = sintl(unit_cell, HNEW)",
     "                HSAVE = HSAVE + segm[segn, 2, :]\n                HLAST = HSAVE\n                HNEW  = HLAST", None, "violation", "C06:walk:laue:-1:standard"),
    ("C06", T, "                            if  sintlH > sintlmin and sintlH <= sintlmax:\n                                H = n.concatenate((H, [HLAST]))\n                                stl",
     "                            if  sintlH >= sintlmin and sintlH <= sintlmax:\n                                H = n.concatenate((H, [HLAST]))\n                                stl", None, "violation", "C06:walk:tools:-1:standard"),
    ("C06", G, '        self.Laue = "4/m"', '        self.Laue = "4/mmm"', 3, "violation", "C06:domain:Sg77"),
    ("C06", T, "        segm = n.array([[[ 0, 0,  0], [ 1, 0, 0], [ 1, 1, 0], [ 1, 1,  1]],\n                        [[ 1, 2,  0], [ 0, 1, 0], [ 1, 1, 0], [ 1, 1,  1]]])",
     "        segm = n.array([[[ 0, 0,  0], [ 1, 0, 0], [ 1, 1, 0], [ 1, 1,  1]],\n                        [[ 1, 2,  0], [ 0, 1, 0], [ 1, 1, 0], [ 1, 1,  0]]])", None, "violation", "C06:dispatch:m-3"),
    # ---------------------------------------------------------------- C07 / C08
    ("C07", S, "r = n.dot(mysg.rot[j], atoms[i].pos) + mysg.trans[j]", "r = n.dot(atoms[i].pos, mysg.rot[j]) + mysg.trans[j]", None, "violation", "C07:law:isotropic"),
    ("C07", S, "n.dot(betaij, n.transpose(mysg.rot[j]))", "n.dot(betaij, mysg.rot[j])", None, "violation", "C07:law:anisotropic"),
    ("C07", S, "for j in range(mysg.nsymop):", "for j in range(mysg.nuniq):", None, "violation", "C07:law:anisotropic"),
    ("C08", S, "Fimg = Fimg + expij*(s*(f+fp)+c*fpp)*site_pop", "Fimg = Fimg + expij*(s*(f+fp)-c*fpp)*site_pop", None, "violation", "C08:sum:"),
    ("C08", S, "    U  = n.array([[adp[0], adp[5], adp[4]],", "    U  = n.array([[adp[0], adp[3], adp[4]],", None, "violation", "C08:beta:Uij2betaij"),
    ("C08", S, "expij = n.exp(-8*n.pi**2*U*stl**2)", "expij = n.exp(-8*n.pi**2*U*stl)", None, "violation", "C08:sum:"),
    ("C08", S, "fpp = disper[atoms[i].atomtype][1]", "fpp = disper[atoms[i].atomtype][0]", None, "violation", "C08:sum:"),
    # ---------------------------------------------------------------- C09
    ("C09", T, "            sinomega = (b*c + a*sq_d*(-1)**(i+1))/(a*a+b*b)", "            sinomega = (b*c + a*sq_d*(-1)**(i))/(a*a+b*b)", 2, "violation", "C09:root:tools.find_omega_quart"),
    ("C09", L, "            omega_mat = quart_to_omega(omega[i]*180./np.pi, w_x, w_y)", "            omega_mat = quart_to_omega(omega[i], w_x, w_y)", None, "violation", "C09:eta:laue.find_omega_quart"),
    ("C09", T, "    b = g_w[0]*r_mat[0][1] - g_w[1]*r_mat[0][0] ", "    b = g_w[0]*r_mat[1][0] - g_w[1]*r_mat[0][0] ", None, "violation", "C09:root:tools.find_omega_general"),
    ("C09", T, "    coseta = ( g_w[2]*length + sinwedge * cosfactor ) / coswedge / sintth", "    coseta = ( g_w[2]*length - sinwedge * cosfactor ) / coswedge / sintth", None, "violation", "C09:root:tools.find_omega_wedge"),
    ("C09", T, "        somega = (b*c - a*sq_d)/d", "        somega = (b*c + a*sq_d)/d", None, "violation", "C09:root:tools.find_omega"),
    ("C09", T, "    if d < 0:\n        pass", "    if d <= 0:\n        pass", 1, "silent", ""),
    ("C09", T, "    twotheta = 2.0*n.arcsin(length*wavelength/(4*n.pi))", "    twotheta = 2.0*n.arcsin(length*wavelength/(2*n.pi))", None, "violation", "C09:tth:tools.tth2"),
    # ---------------------------------------------------------------- C10
    ("C10", D, "                 -sintth*n.sin(eta),", "                 sintth*n.sin(eta),", None, "violation", "C10:on-ray:det_coor2"),
    ("C10", D, "[pz*(detz-z0)]]))", "[pz*(detz+z0)]]))", None, "violation", "C10:on-ray"),
    ("C10", D, "    Ltv = n.array([tx-distance, ty, tz])+ t*v", "    Ltv = n.array([tx+distance, ty, tz])+ t*v", 1, "violation", "C10:on-ray:det_coor"),
    # ---------------------------------------------------------------- C11
    ("C11", D, "        if o21 == -1:\n            img = n.flipud(img)\n        return img\n    raise ValueError('detector orientation makes no sense 3')\n\n\ndef image_flipping",
     "        if o21 == -1:\n            img = n.fliplr(img)\n        return img\n    raise ValueError('detector orientation makes no sense 3')\n\n\ndef image_flipping", None, "violation", "C11:pixel-map"),
    ("C11", D, "    radcoor = radpix*n.array([-n.sin(etarad),n.cos(etarad)])", "    radcoor = radpix*n.array([n.sin(etarad),n.cos(etarad)])", None, "violation", "C11:eta:writer"),
    ("C11", D, "        eta = 360-180/n.pi*n.arccos(cos_eta)", "        eta = 180/n.pi*n.arccos(cos_eta)", None, "violation", "C11:eta:reader-lower"),
    ("C11", D, "    coor = n.dot(n.linalg.inv(omat), coor + n.clip(n.dot(omat, det_size), \n                                                   -n.max(det_size), 0))",
     "    coor = n.dot(n.linalg.inv(omat), coor) - n.clip(n.dot(n.linalg.inv(omat), det_size), \n                                                   -n.max(det_size), 0)", None, "violation", "C11:coord-inverse"),
    # ---------------------------------------------------------------- C12
    ("C12", Y, "perm[9]  = [[ 0,  1,  0], [ 0,  0, -1], [-1,  0,  0]]", "perm[9]  = [[ 0,  1,  0], [ 0,  0, 1], [-1,  0,  0]]", None, "violation", "C12:perm:7:closed"),
    ("C12", Y, "lengths = 0.5 * (rot * np.dot(umat_1.T, umat_2)).sum(axis=(1, 2)) - 0.5", "lengths = 0.5 * (rot * np.dot(umat_1, umat_2)).sum(axis=(1, 2)) - 0.5", None, "violation", "C12:umis:trace-formula"),
    ("C12", Y, "            rot[i] = np.dot(B,np.dot(np.linalg.inv(perm[i]),Binv))", "            rot[i] = np.dot(B,np.dot(perm[i],Binv))", 1, "violation", "C12:pair:5"),
    ("C12", Y, "for i in range(1,8)]", "for i in range(1,7)]+[np.eye(3)[None]]", None, "violation", "C12:cache:ROTATIONS"),
    # ---------------------------------------------------------------- C13 / C14
    ("C13", T, "    Binv[0, 2] = (2*epsilon[2]-B0[0, 1]*Binv[1, 2]-B0[0, 2]*Binv[2, 2])/B0[0, 0]", "    Binv[0, 2] = (2*epsilon[2]-B0[0, 1]*Binv[1, 2]+B0[0, 2]*Binv[2, 2])/B0[0, 0]", None, "violation", "C13:e2b:tools.epsilon_to_b:eq13"),
    ("C13", L, "    A[1, 1] = (epsilon[3]+1)/A0inv[1, 1]", "    A[1, 1] = (epsilon[4]+1)/A0inv[1, 1]", None, "violation", "C13:e2b:laue.epsilon_to_b_old:eq22"),
    ("C13", L, "    B = np.linalg.inv(ubi_matrix.dot(U))", "    B = np.linalg.inv(U.dot(ubi_matrix))", None, "violation", "C13:tau:laue.ubi_to_u_and_eps"),
    ("C13", T, "    T = n.dot(B0,n.linalg.inv(B))", "    T = n.dot(n.linalg.inv(B),B0)", None, "violation", "C13:b2e:tools.b_to_epsilon"),
    ("C14", L, "                            if  sintlH > sintlmin and sintlH <= sintlmax:", "                            if  sintlH > sintlmin and sintlH < sintlmax:", 1, "violation", "C14:semantic:genhkl_base"),
    ("C14", L, "    return np.linalg.inv(np.dot(U,b_mat))", "    return np.linalg.inv(np.dot(U,b_mat))*(2*np.pi)", None, "violation", "C14:semantic:u_to_ubi"),
    ("C14", T, "    astar = 2*n.pi*b*c*salp/V ", "    astar = n.pi*b*c*salp/V ", None, "violation", "C14:semantic:form_b_mat"),
    ("C14", L, "    r1 = (U[1, 2]-U[2, 1])*a", "    r1 = a*(U[1, 2]-U[2, 1])", None, "silent", ""),
    ("C14", L, "    twotheta = 2.0 * np.arcsin( wavelength / ( 2 * interplanar_lattice_spacing ) )", "    twotheta = 2.0 * np.arcsin( wavelength / interplanar_lattice_spacing / 2)", None, "silent", ""),
    # ---------------------------------------------------------------- C15
    ("C15", S, "lp[i, :] = n.dot(mysg.rot[i], position) + mysg.trans[i]", "lp[i, :] = n.dot(position, mysg.rot[i]) + mysg.trans[i]", None, "violation", "C15:image:multiplicity"),
    ("C15", S, "if n.sum(n.abs(t - n.round(t))) < 0.0001:", "if n.sum(n.mod(t, 1)) < 0.0001:", None, "violation", "C15:lattice:multiplicity"),
    ("C15", S, "if n.sum(n.abs(t - n.round(t))) < 0.0001:", "if n.sum(n.abs(t - n.round(t))) < 0.1:", None, "violation", "C15:tolerance:multiplicity"),
    ("C15", S, "                if j == multi-1:", "                if j == 0:", None, "violation", "C15:loop:multiplicity"),
    ("C15", S, "        mysg = sg.sg(sgno=sgno, cell_choice=cell_choice)", "        mysg = sg.sg(sgno=sgno)", None, "violation", "C15:dispatch:multiplicity"),
    # ---------------------------------------------------------------- C16
    ("C16", A, "    'O'  : [ 3.048500,", "    'O'  : [ 3.348500,", None, "violation", "C16:f0:O:"),
    ("C16", A, " 9.893310, 28.997540, 0.582600, -11.52901],", " 9.893310, 28.997540, 0.582600, 11.52901],", None, "violation", "C16:f0:N:-23.05"),
    ("C16", S, "        formfac = formfac + data[i]*n.exp(-data[i+4]*stl*stl) ", "        formfac = formfac + data[i]*n.exp(-data[i+3]*stl*stl) ", None, "violation", "C16:reader:FormFactor"),
    # ---------------------------------------------------------------- C17
    ("C17", S, "y = self.remove_esd(cifblk['_atom_site_fract_y'][i])", "y = self.remove_esd(cifblk['_atom_site_fract_x'][i])", None, "violation", "C17:cif:"),
    ("C17", S, "self.remove_esd(cifblk['_atom_site_aniso_B_23'][anisonumber])/(8*n.pi**2),", "self.remove_esd(cifblk['_atom_site_aniso_B_23'][anisonumber]),", None, "violation", "C17:cif:Bani"),
    ("C17", S, "                occ = float(text[i][54:60])", "                occ = float(text[i][55:60])", None, "violation", "C17:pdb:ATOM:occ"),
    ("C17", S, "                scaleline = int(scale[0][-1])-1", "                scaleline = int(scale[0][-1])", None, "violation", "C17:pdb:reads"),
    ("C17", S, "            value = float(a[:a.find('(')])", "            value = float(a[:a.find('(')+1])", None, "violation", "C17:esd:remove_esd"),
    # ---------------------------------------------------------------- C18
    ("C18", L, "        if dist >  0.00001:", "        if dist >  -0.00001:", None, "violation", "C18:guards:laue"),
    ("C18", L, "    red_a_mat[0] = np.dot(a_mat, res[1, :3])", "    red_a_mat[0] = np.dot(a_mat, res[0, :3])", None, "violation", "C18:vectors:laue.first"),
    ("C18", L, "                tmp = np.dot(a_mat, np.array([i, j, k]))", "                tmp = np.dot(np.array([i, j, k]), a_mat)", None, "violation", "C18:vectors:laue.combination"),
    # ---------------------------------------------------------------- C19
    ("C19", P, "        return [self.parameters[name] for name in self.varylist]", "        return [self.par_objs[name].value for name in self.varylist]", None, "violation", "C19:store:getter:get_variable_values"),
    ("C19", P, '            f.write("%s %s\\n"%(key,str(self.parameters[key])))', '            f.write("%s  %s\\n"%(key,str(self.parameters[key])))', None, "violation", "C19:file:writer"),
    ("C19", P, "        for name, value in zip(self.varylist,values):", "        for name, value in zip(sorted(self.varylist),values):", None, "violation", "C19:vary:set_variable_values"),
    ("C19", P, '                name=name.replace("-","_")', '                name=name.replace("_","-")', None, "violation", "C19:file:reader"),
    ("C19", P, "        self.parameters.update(d)\n        self.dumbtypecheck()", "        self.parameters = dict(d)\n        self.dumbtypecheck()", None, "violation", "C19:store:single-binding"),
    # ---------------------------------------------------------------- C20
    ("C20", T, "    if CHECKS.activated: checks._check_rotation_matrix(U)\n\n    tol = 1e-8", "    tol = 1e-8", None, "violation", "C20:site:xfab/tools.py:u_to_euler"),
    ("C20", L, "    if CHECKS.activated: checks._check_rotation_matrix(U)\n\n    return (U, B)", "    if not CHECKS.activated: checks._check_rotation_matrix(U)\n\n    return (U, B)", None, "violation", "C20:guard:xfab/laue.py:ub_to_u_b"),
    ("C20", C, "if value is not True and value is not False:", "if value not in (True, False):", None, "violation", "C20:setter:automaton"),
    ("C20", C, 'raise ValueError("ubi matrix must', 'raise TypeError("ubi matrix must', None, "violation", "C20:raise:_check_ubi_matrix"),
    ("C20", C, "np.cross(ubi[0,:],ubi[1,:]))<0", "np.cross(ubi[1,:],ubi[0,:]))<0", None, "violation", "C20:predicate:ubi:handedness"),
    ("C20", Y, "        checks._check_rotation_matrix(umat_2)\n", "        checks._check_rotation_matrix(umat_1)\n", None, "violation", "C20:site:xfab/symmetry.py:Umis:param1"),
    ("C20", C, "np.eye(3,3), atol=1e-6):", "np.eye(3,3)):", None, "violation", "C20:predicate:rotation:orthonormal-tolerance"),
    ("C20", T, "    ubi = n.asarray(ubi_matrix, float)\n    if CHECKS.activated: checks._check_ubi_matrix(ubi)\n    unit_cell = ubi_to_cell(ubi)",
     "    ubi = n.asarray(ubi_matrix, float)\n    unit_cell = ubi_to_cell(ubi)\n    if CHECKS.activated: checks._check_ubi_matrix(ubi)", None, "violation", "C20:site:xfab/tools.py:ubi_to_u:param0"),
]

# ---------------------------------------------------------------- regression entries from the seeded changes (round 2)
M += [
    ("C04", SG, '            klass_name = sgdic[sub("\\s+", "", sgname).lower()] \n            if sub("\\s+", "", sgname).lower()[0]=="r" and sub("\\s+", "", sgname).lower()[-1]=="r":',
     '            sgname = sub("\\s+", "", sgname).lower()\n            klass_name = sgdic[sgname] \n            if sgname[0]=="r" and sgname[-1]=="r":', None, "silent", ""),
    ("C04", SG, '            klass_name = sgdic[sub("\\s+", "", sgname).lower()] \n            if sub("\\s+", "", sgname).lower()[0]=="r" and sub("\\s+", "", sgname).lower()[-1]=="r":',
     '            sgname = sub("\\s+", "", sgname)\n            klass_name = sgdic[sgname.lower()] \n            if sgname.startswith("R") and sgname.endswith("r"):', None, "violation", "C04:lookup:r-suffix"),
    ("C12", Y, "            rot[i] = np.dot(B,np.dot(np.linalg.inv(perm[i]),Binv))", "            rot[i] = np.dot(B,np.dot(perm[i].T,Binv))", 2, "violation", "C12:pair:6"),
    ("C13", L, "    T = np.dot(B0,np.linalg.inv(B))", "    T = np.linalg.solve(B, B0)", None, "violation", "C13:b2e:laue.b_to_epsilon"),
    ("C13", L, "    T = np.dot(B0,np.linalg.inv(B))", "    T = np.linalg.solve(B.T, B0.T).T", None, "silent", ""),
    ("C15", S, "    for i in range(mysg.nsymop):\n        lp[i, :] = n.dot(mysg.rot[i], position) + mysg.trans[i]\n",
     "    lp = n.dot(position, mysg.rot[:mysg.nsymop]) + mysg.trans[:mysg.nsymop]\n", None, "violation", "C15:image:multiplicity"),
    ("C15", S, "    for i in range(mysg.nsymop):\n        lp[i, :] = n.dot(mysg.rot[i], position) + mysg.trans[i]\n",
     "    lp = n.dot(mysg.rot[:mysg.nsymop], position) + mysg.trans[:mysg.nsymop]\n", None, "silent", ""),
    ("C18", T, "                tmp = n.dot(a_mat, n.array([i, j, k]))\n", "                if i*i + j*j + k*k >= uvw*uvw:\n                    continue\n                tmp = n.dot(a_mat, n.array([i, j, k]))\n", None, "violation", "C18:vectors:tools.coverage"),
    ("C18", T, "                tmp = n.dot(a_mat, n.array([i, j, k]))\n", "                if i*i + j*j + k*k > 3*uvw*uvw:\n                    continue\n                tmp = n.dot(a_mat, n.array([i, j, k]))\n", None, "silent", ""),
    ("C02", T, "    (U, B) = n.linalg.qr(UB)\n", "    B = n.linalg.cholesky(n.dot(UB.T, UB)).T\n    U = n.dot(UB, n.linalg.inv(B))\n", None, "violation", "C02:qr:tools.conditioning"),
    ("C14", L, "    normal = np.dot(w_mat_x, np.dot(w_mat_y, np.array([0, 0, 1])))", "    normal = np.dot(w_mat_y, np.dot(w_mat_x, np.array([0, 0, 1])))", None, "violation", "C14:semantic:find_omega_quart"),
    ("C11", D, "    det_size = n.array([detz_size-1,\n                        dety_size-1])\n    coor = n.dot(omat, coor)- n.clip", "    det_size = n.array([dety_size-1,\n                        detz_size-1])\n    coor = n.dot(omat, coor)- n.clip", None, "violation", "C11:pixel-map"),
    ("C17", S, "                adp = [ self.remove_esd(cifblk['_atom_site_aniso_U_11'][anisonumber]),\n                        self.remove_esd(cifblk['_atom_site_aniso_U_22'][anisonumber]),\n                        self.remove_esd(cifblk['_atom_site_aniso_U_33'][anisonumber]),\n                        self.remove_esd(cifblk['_atom_site_aniso_U_23'][anisonumber]),\n                        self.remove_esd(cifblk['_atom_site_aniso_U_13'][anisonumber]),\n                        self.remove_esd(cifblk['_atom_site_aniso_U_12'][anisonumber])]",
     "                adp = [self.remove_esd(cifblk['_atom_site_aniso_U_' + ij][anisonumber]) for ij in ('11', '22', '33', '23', '13', '12')]", None, "silent", ""),
    ("C17", S, "                adp = [ self.remove_esd(cifblk['_atom_site_aniso_U_11'][anisonumber]),\n                        self.remove_esd(cifblk['_atom_site_aniso_U_22'][anisonumber]),\n                        self.remove_esd(cifblk['_atom_site_aniso_U_33'][anisonumber]),\n                        self.remove_esd(cifblk['_atom_site_aniso_U_23'][anisonumber]),\n                        self.remove_esd(cifblk['_atom_site_aniso_U_13'][anisonumber]),\n                        self.remove_esd(cifblk['_atom_site_aniso_U_12'][anisonumber])]",
     "                adp = [self.remove_esd(cifblk['_atom_site_aniso_U_' + ij][anisonumber]) for ij in ('11', '22', '33', '12', '13', '23')]", None, "violation", "C17:cif:Uani"),
    ("C19", P, "        self.varylist = vl", "        self.varylist = [v for v in self.variable_list if v in vl]", None, "violation", "C19:vary:set_varylist"),
]

# ---------------------------------------------------------------- renaming of locals must stay silent (structural patterns bind names)
M += [
    ("C06", T, "HLAST", "hlast", "all", "silent", ""),
    ("C06", L, "sintlH", "s_cur", "all", "silent", ""),
    ("C05", T, "Rots", "ops", "all", "silent", ""),
    ("C05", L, "refl", "row", "all", "silent", ""),
    ("C05", T, "spg", "grp", "all", "silent", ""),
]

# ---------------------------------------------------------------- regression entries from the seeded changes (round 3) with neutral twins
M += [
    # dtype inherited from caller data (C01b) / the same unpacking with dtype=float is fine
    ("C01", T, "    a = unit_cell[0]\n    b = unit_cell[1]\n    c = unit_cell[2]\n    calp = n.cos(unit_cell[3]*n.pi/180.)\n    cbet = n.cos(unit_cell[4]*n.pi/180.)\n    cgam = n.cos(unit_cell[5]*n.pi/180.)\n    #salp",
     "    cell = n.array(unit_cell)\n    cell[3:] = n.radians(cell[3:])\n    a = cell[0]\n    b = cell[1]\n    c = cell[2]\n    calp = n.cos(cell[3])\n    cbet = n.cos(cell[4])\n    cgam = n.cos(cell[5])\n    #salp", None, "violation", "C01:dtype:form_a_mat"),
    ("C01", T, "    a = unit_cell[0]\n    b = unit_cell[1]\n    c = unit_cell[2]\n    calp = n.cos(unit_cell[3]*n.pi/180.)\n    cbet = n.cos(unit_cell[4]*n.pi/180.)\n    cgam = n.cos(unit_cell[5]*n.pi/180.)\n    #salp",
     "    cell = n.array(unit_cell, float)\n    cell[3:] = n.radians(cell[3:])\n    a = cell[0]\n    b = cell[1]\n    c = cell[2]\n    calp = n.cos(cell[3])\n    cbet = n.cos(cell[4])\n    cgam = n.cos(cell[5])\n    #salp", None, "silent", ""),
    # fast path in ub_to_u_b (C02b)
    ("C02", T, "    (U, B) = n.linalg.qr(UB)\n", "    if n.allclose(n.tril(UB, -1), 0):\n        return (n.eye(3), n.triu(UB))\n    (U, B) = n.linalg.qr(UB)\n", None, "violation", "C02:qr:tools.fast-path"),
    # gimbal test on the cosine (C03b)
    ("C03", L, "    PHI = np.arccos(U[2, 2])\n    if np.abs(PHI)<tol:", "    PHI = np.arccos(U[2, 2])\n    if 1 - U[2, 2] < tol:", None, "violation", "C03:snap:laue.gimbal-band"),
    # counter reset per cone (C05b); removing the duplicated sysabs call is neutral
    ("C05", T, "        htest = 0\n        ktest = 0\n        ltest = 0\n        HLAST = segm[segn, 0, :]\n        HSAVE = segm[segn, 0, :]", "        nref = 0\n        htest = 0\n        ktest = 0\n        ltest = 0\n        HLAST = segm[segn, 0, :]\n        HSAVE = segm[segn, 0, :]", None, "violation", "C05:walk:tools:-1:standard"),
    ("C05", L, "                        ressss = sysabs(HLAST, sysconditions, crystal_system, cell_choice)\n", "", 1, "silent", ""),
    ("C05", L, "                        if sysabs(HLAST, sysconditions, crystal_system, cell_choice) == 0:", "                        if sysabs(HLAST, sysconditions, crystal_system) == 0:", None, "violation", "C05:syscond:Sg161:rhombohedral:laue"),
    # inversion added conditionally (C06b)
    ("C06", T, "    Rots = n.concatenate((spg.rot[:spg.nuniq],-spg.rot[:spg.nuniq]))", "    Rots = spg.rot[:spg.nuniq]\n    if (n.linalg.det(Rots) > 0).all():\n        Rots = n.concatenate((Rots, -Rots))", None, "violation", "C06:expand:tools.rotations"),
    # dispersion carried over between atoms (C08b)
    ("C08", S, "        if disper == None or disper[atoms[i].atomtype] == None :\n            fp = 0.0\n            fpp = 0.0\n        else:\n            fp = disper[atoms[i].atomtype][0]\n            fpp = disper[atoms[i].atomtype][1]",
     "        if i == 0:\n            fp = 0.0\n            fpp = 0.0\n        if disper is not None and disper.get(atoms[i].atomtype) is not None:\n            fp = disper[atoms[i].atomtype][0]\n            fpp = disper[atoms[i].atomtype][1]", None, "violation", "C08:sum:"),
    ("C08", S, "        if disper == None or disper[atoms[i].atomtype] == None :\n            fp = 0.0\n            fpp = 0.0\n        else:\n            fp = disper[atoms[i].atomtype][0]\n            fpp = disper[atoms[i].atomtype][1]",
     "        fp = 0.0\n        fpp = 0.0\n        if disper is not None and disper.get(atoms[i].atomtype) is not None:\n            fp = disper[atoms[i].atomtype][0]\n            fpp = disper[atoms[i].atomtype][1]", None, "silent", ""),
    # memoised table mutated by its caller (C12b)
    ("C12", Y, "def permutations(crystal_system):", "import functools\n\n\n@functools.lru_cache(maxsize=None)\ndef permutations(crystal_system):", None, "violation", "C12:alias:xfab/symmetry.py:rotations"),
    # fast path on a run-time value (C10b-like)
    ("C10", D, "    dety = n.sum(R_tilt[:, 1]*Ltv)/y_size + dety_center\n    detz = n.sum(R_tilt[:, 2]*Ltv)/z_size + detz_center\n    return [dety, detz]\n\ndef det_coor2",
     "    if R_tilt[0, 0] == 1:\n        return [Ltv[1]/y_size + dety_center, Ltv[2]/z_size + detz_center]\n    dety = n.sum(R_tilt[:, 1]*Ltv)/y_size + dety_center\n    detz = n.sum(R_tilt[:, 2]*Ltv)/z_size + detz_center\n    return [dety, detz]\n\ndef det_coor2", None, "violation", "C10:on-ray:det_coor:zero-tilt-yz"),
    # pruning by a bound that is attained (C18b)
    ("C18", L, "                res = np.concatenate((res, [[i, j, k, np.linalg.norm(tmp)]]))", "                length = np.linalg.norm(tmp)\n                if length <= np.max(unit_cell[:3]):\n                    res = np.concatenate((res, [[i, j, k, length]]))", None, "violation", "C18:vectors:laue.coverage"),
    ("C18", L, "                res = np.concatenate((res, [[i, j, k, np.linalg.norm(tmp)]]))", "                length = np.linalg.norm(tmp)\n                res = np.concatenate((res, [[i, j, k, length]]))", None, "silent", ""),
    # reader splitting on any white space (C19b)
    ("C19", P, '                [name, value] = line.split(" ") ', '                [name, value] = line.split() ', None, "violation", "C19:file:roundtrip:empty-string"),
    # default argument evaluated at import (C20b)
    ("C20", L, "    U = np.asarray(U_matrix, float)\n    if CHECKS.activated: checks._check_rotation_matrix(U)\n\n    ttt", "    U = np.asarray(U_matrix, float)\n\n    ttt", None, "violation", "C20:site:xfab/laue.py:u_to_rod"),
    # cached group object keyed without the setting (C04b-like): instantiation outside __init__
    ("C04", SG, "        obj = klass(cell_choice=cell_choice)", "        obj = klass()", None, "violation", "C04:lookup:by-number"),
    # QR route with columns flipped (C13b) and the correct QR route
    ("C13", L, "    deformed_unit_cell = ubi_to_cell(ubi)\n    B_deformed = form_b_mat(deformed_unit_cell)\n    U = np.transpose(np.dot(B_deformed, ubi))\n\n    if CHECKS.activated: checks._check_rotation_matrix(U)\n\n    B = np.linalg.inv(ubi_matrix.dot(U))",
     "    U, B = np.linalg.qr(np.linalg.inv(ubi))\n    signs = np.sign(np.diag(B))\n    U = U * signs\n    B = B * signs\n\n    if CHECKS.activated: checks._check_rotation_matrix(U)\n", None, "violation", "C13:tau:laue.ubi_to_u_and_eps:qr-route"),
    ("C13", L, "    deformed_unit_cell = ubi_to_cell(ubi)\n    B_deformed = form_b_mat(deformed_unit_cell)\n    U = np.transpose(np.dot(B_deformed, ubi))\n\n    if CHECKS.activated: checks._check_rotation_matrix(U)\n\n    B = np.linalg.inv(ubi_matrix.dot(U))",
     "    U, B = np.linalg.qr(np.linalg.inv(ubi))\n    signs = np.sign(np.diag(B))\n    U = U * signs\n    B = (B.T * signs).T\n\n    if CHECKS.activated: checks._check_rotation_matrix(U)\n", None, "silent", ""),
]
