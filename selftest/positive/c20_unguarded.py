# Positive example for C20's zero-count rule "no call of checks._check_* outside
# `if CHECKS.activated:`": both planted sites below must be reported on every run.
from xfab import checks
from xfab import CHECKS
import numpy as n


def unguarded(U_matrix):
    U = n.asarray(U_matrix, float)
    checks._check_rotation_matrix(U)          # planted site 1: no guard at all
    return U


def wrong_guard(U_matrix, verbose):
    U = n.asarray(U_matrix, float)
    if verbose:
        checks._check_rotation_matrix(U)      # planted site 2: guarded by something else
    return U
