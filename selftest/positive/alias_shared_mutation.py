# Positive example for the zero-count rule "no in-place mutation of a shared value":
# the three planted sites below must be reported on every run.
import functools
import numpy as n

_CACHE = {}


def _tilt(w):
    if w not in _CACHE:
        _CACHE[w] = n.eye(3)
    return _CACHE[w]


@functools.lru_cache(maxsize=None)
def table(k):
    return n.zeros((k, 3, 3))


def user1(w):
    q = _tilt(w)[:, 2]
    q *= 2.0                      # planted site 1: augmented assignment on a view of a cached matrix
    return q


def user2(k):
    t = table(k)
    for i in range(len(t)):
        t[i] = t[i].T             # planted site 2: element store into a memoised array
    return t


def user3(w):
    m = _tilt(w)
    m.fill(0.0)                   # planted site 3: in-place method on a cached matrix
    return m
