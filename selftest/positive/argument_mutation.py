"""positive example of the zero-count rule `argmut`: four planted sites must match, the four look-alikes must not"""
import numpy as n


def planted1(Gt, wavelength):
    v = n.asarray(Gt, dtype=float)
    v *= wavelength / 2                    # site 1: asarray does not copy a float array
    return v


def planted2(B_matrix):
    B = n.asarray(B_matrix, float)
    B /= 2 * n.pi                          # site 2
    return B


def planted3(hkl):
    hkl[0] = -hkl[0]                       # site 3: store into the parameter itself
    return hkl


def planted4(rows):
    top = rows[:2]
    top.sort()                             # site 4: in-place method on a view
    return top


def fine1(Gt, wavelength):
    v = n.array(Gt, dtype=float)           # array() copies
    v *= wavelength / 2
    return v


def fine2(omega):
    omega *= n.pi / 180                    # a number: rebinding of the local name
    return omega


def fine3(B_matrix):
    B = n.asarray(B_matrix, float)
    B = B / (2 * n.pi)                     # a new array
    B[0, 0] = 1.0
    return B


def fine4(hkl):
    h = hkl.copy()
    h[0] = 0
    return h


def fine5(a):
    head, _sep, _tail = a.partition('(')   # str.partition returns a tuple (ndarray.partition(kth) would sort in place)
    return head
