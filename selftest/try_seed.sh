#!/bin/sh
# try_seed.sh <Cnn> [suffix]: confirm a sub-agent's seeded change in its worktree /tmp/wt_<Cnn><suffix>, then run every check against it
# (patch applied to /repo, reverted straight afterwards).  Prints a summary; writes /verif/seeded/<Cnn><suffix>/.
ID="$1"; SFX="$2"; WT="/tmp/wt_${ID}${SFX}"; OUT="/verif/seeded/${ID}${SFX}"
PY=/venv/bin/python
[ -f "$WT/patch.diff" ] || { echo "no patch.diff in $WT"; exit 2; }
mkdir -p "$OUT"
cd "$WT" || exit 2
# make sure the change is applied
git diff --quiet -- xfab && git apply patch.diff
T_WITH=$(PYTHONPATH="$WT" $PY -m pytest -q -p no:cacheprovider test 2>&1 | tail -1)
PYTHONPATH="$WT" $PY "demo_${ID}.py" >/tmp/demo_with_$ID.log 2>&1; D_WITH=$?
git diff -- xfab > /tmp/seed_$ID.diff
git checkout -q -- xfab
PYTHONPATH="$WT" $PY "demo_${ID}.py" >/tmp/demo_without_$ID.log 2>&1; D_WITHOUT=$?
git apply /tmp/seed_$ID.diff
echo "[$ID$SFX] tests with change: $T_WITH | demo with change exit $D_WITH | demo without exit $D_WITHOUT"
cp /tmp/seed_$ID.diff "$OUT/patch.diff"; cp "demo_${ID}.py" "$OUT/"; cp NOTES.md "$OUT/NOTES.md" 2>/dev/null
# run the checks against it
cd /repo && git diff --quiet || { echo "/repo not clean"; exit 2; }
git -C /repo apply "$OUT/patch.diff" || { echo "patch does not apply to /repo"; exit 2; }
CAUGHT=""
for i in 01 02 03 04 05 06 07 08 09 10 11 12 13 14 15 16 17 18 19 20; do
  R=$(cd /verif && XFAB_EVIDENCE_DIR=/tmp/seed_ev ./check C$i --tier quick 2>&1); RC=$?
  if [ $RC -ne 0 ]; then
     CAUGHT="$CAUGHT C$i(exit$RC)"
     echo "$R" | grep -E "^ *FAIL|ANALYSIS-ERROR" | head -4 | cut -c1-260
  fi
done
git -C /repo checkout -- .
echo "[$ID$SFX] checks raising:${CAUGHT:- none}"
echo "$CAUGHT" > "$OUT/caught_by.txt"
echo "tests_with_change: $T_WITH" > "$OUT/confirm.txt"; echo "demo_with_change_exit: $D_WITH" >> "$OUT/confirm.txt"; echo "demo_without_change_exit: $D_WITHOUT" >> "$OUT/confirm.txt"
