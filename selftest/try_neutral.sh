#!/bin/sh
# try_neutral.sh <Cnn> [suffix]: (suffix n = first round -> seeded/neutral, m = second round -> seeded/neutral2, p = third round -> seeded/neutral4, r = fourth round (numerics / array idioms) -> seeded/neutral5;
# seeded/neutral3 holds the repaired twins of the round-4 seeds, built by mktwin.py)
# try_neutral.sh <Cnn>: confirm a sub-agent's behaviour-preserving refactoring in /tmp/wt_<Cnn>n (tests pass, equivalence
# script says EQUIVALENT), then run every check against it: any exit != 0 is a false alarm (1) or an unreadable idiom (2).
ID="$1"; SFX="${2:-n}"; WT="/tmp/wt_${ID}${SFX}"; if [ "$SFX" = "n" ]; then OUT="/verif/seeded/neutral/${ID}"; elif [ "$SFX" = "p" ]; then OUT="/verif/seeded/neutral4/${ID}"; elif [ "$SFX" = "r" ]; then OUT="/verif/seeded/neutral5/${ID}"; else OUT="/verif/seeded/neutral2/${ID}"; fi
PY=/venv/bin/python
[ -f "$WT/patch.diff" ] || { echo "no patch.diff in $WT"; exit 2; }
mkdir -p "$OUT"
cd "$WT" || exit 2
git diff --quiet -- xfab && git apply patch.diff
T_WITH=$(PYTHONPATH="$WT" $PY -m pytest -q -p no:cacheprovider test 2>&1 | tail -1)
PYTHONPATH="$WT" $PY "equiv_${ID}.py" >/tmp/equiv_$ID.log 2>&1; EQ=$?
git diff -- xfab > "$OUT/patch.diff"; cp "equiv_${ID}.py" "$OUT/" 2>/dev/null; cp NOTES.md "$OUT/NOTES.md" 2>/dev/null
echo "[$ID neutral] tests: $T_WITH | equivalence exit $EQ ($(tail -1 /tmp/equiv_$ID.log | cut -c1-60))"
cd /repo && git diff --quiet || { echo "/repo not clean"; exit 2; }
git -C /repo apply "$OUT/patch.diff" || { echo "patch does not apply to /repo"; exit 2; }
RAISED=""
for i in 01 02 03 04 05 06 07 08 09 10 11 12 13 14 15 16 17 18 19 20; do
  R=$(cd /verif && XFAB_EVIDENCE_DIR=/tmp/seed_ev ./check C$i --tier quick 2>&1); RC=$?
  if [ $RC -ne 0 ]; then
     RAISED="$RAISED C$i(exit$RC)"
     echo "$R" | grep -E "^ *FAIL|ANALYSIS-ERROR|ANALYSIS-INCOMPLETE" | head -3 | cut -c1-250
  fi
done
git -C /repo checkout -- .
echo "[$ID neutral] checks raising:${RAISED:- none}"
echo "tests: $T_WITH" > "$OUT/confirm.txt"; echo "equivalence_exit: $EQ" >> "$OUT/confirm.txt"; echo "raised:$RAISED" >> "$OUT/confirm.txt"
