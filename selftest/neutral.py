#!/usr/bin/env python3
"""Behaviour-preserving refactorings must leave every check silent:  python3 selftest/neutral.py [id ...] [--checks C01,C02] [-v]
For every seeded/neutral/<id>/patch.diff (confirmed equivalent by its own equiv script and by the test-suite when it was
recorded) the patch is applied to a scratch copy of /repo's package under $TMPDIR (removed afterwards) and all 20 quick checks
(or the listed ones) run against the copy.  Exit 0 iff every check exits 0 on every refactoring."""
import os
import shutil
import subprocess
import sys
import tempfile
from concurrent.futures import ThreadPoolExecutor

HERE = os.path.dirname(os.path.abspath(__file__))
VERIF = os.path.dirname(HERE)
REPO = os.environ.get("XFAB_REPO", "/repo")
ALL = ["C%02d" % i for i in range(1, 21)]


def run_one(job):
    nid, pid, d = job
    env = dict(os.environ, XFAB_REPO=d, XFAB_SELFTEST_CHILD="1", XFAB_EVIDENCE_DIR=os.path.join(d, "evidence_" + pid))
    r = subprocess.run([os.path.join(VERIF, "check"), pid, "--tier", "quick"], env=env, capture_output=True, text=True)
    out = r.stdout + r.stderr
    lines = [l.strip() for l in out.splitlines() if l.lstrip().startswith(("FAIL", "ANALYSIS-ERROR", "ANALYSIS-INCOMPLETE"))]
    return nid, pid, r.returncode, lines


def main(argv):
    ids, checks, verbose, seeds = [], ALL, False, False
    i = 0
    while i < len(argv):
        if argv[i] == "--checks":
            checks = argv[i + 1].split(","); i += 2
        elif argv[i] == "--seeds":
            seeds = True; i += 1
        elif argv[i] == "-v":
            verbose = True; i += 1
        else:
            ids.append(argv[i]); i += 1
    if seeds:
        return seeded(ids, verbose)
    # every round of behaviour-preserving refactorings: seeded/neutral, seeded/neutral2, ...  (ids are "<round>/<Cnn>")
    sroot = os.path.join(VERIF, "seeded")
    every = sorted("%s/%s" % (r, x) for r in sorted(os.listdir(sroot)) if r.startswith("neutral")
                   for x in os.listdir(os.path.join(sroot, r)) if os.path.exists(os.path.join(sroot, r, x, "patch.diff")))
    if ids:
        every = [e for e in every if e in ids or e.split("/")[1] in ids or e.split("/")[0] in ids]
    ids = every
    root = sroot
    dirs = {}
    try:
        for nid in ids:
            d = tempfile.mkdtemp(prefix="xfab_neutral_")
            dirs[nid] = d
            shutil.copytree(os.path.join(REPO, "xfab"), os.path.join(d, "xfab"), ignore=shutil.ignore_patterns("__pycache__", "*.pyc"))
            if os.path.isdir(os.path.join(REPO, "scripts")):
                shutil.copytree(os.path.join(REPO, "scripts"), os.path.join(d, "scripts"))
            r = subprocess.run(["patch", "-p1", "-s", "-d", d, "-i", os.path.join(root, nid, "patch.diff")], capture_output=True, text=True)
            if r.returncode:
                print("NEUTRAL %s: patch does not apply: %s" % (nid, (r.stdout + r.stderr).strip()[:200]))
                return 2
        # a refactoring may list checks it is not neutral for (skip_checks.txt: "<Cnn> <reason>" per line) -- used only where the
        # tree keeps a KNOWN finding of that property which the refactoring makes show under another key
        skip = set()
        for nid in ids:
            f_ = os.path.join(root, nid, "skip_checks.txt")
            if os.path.exists(f_):
                for ln in open(f_):
                    if ln.strip():
                        skip.add((nid, ln.split()[0]))
        jobs = [(nid, pid, dirs[nid]) for nid in ids for pid in checks if (nid, pid) not in skip]
        bad = 0
        with ThreadPoolExecutor(max_workers=16) as ex:
            for nid, pid, rc, lines in ex.map(run_one, jobs):
                if rc != 0:
                    bad += 1
                    print("NEUTRAL %s: %s exit %d  %s" % (nid, pid, rc, (lines[0][:200] if lines else "")))
                    if verbose:
                        for l in lines[1:6]:
                            print("      " + l[:220])
        print("neutral: %d refactorings x %d checks, %d not silent" % (len(ids), len(checks), bad))
        return 1 if bad else 0
    finally:
        for d in dirs.values():
            shutil.rmtree(d, ignore_errors=True)


def seeded(ids, verbose):
    """--seeds: every confirmed property-breaking change under seeded/<Cnn>[b]/ must make its own property's check exit 1"""
    root = os.path.join(VERIF, "seeded")
    ids = ids or sorted(x for x in os.listdir(root) if x != "neutral" and os.path.exists(os.path.join(root, x, "patch.diff")))
    dirs = {}
    try:
        for nid in ids:
            d = tempfile.mkdtemp(prefix="xfab_seed_")
            dirs[nid] = d
            shutil.copytree(os.path.join(REPO, "xfab"), os.path.join(d, "xfab"), ignore=shutil.ignore_patterns("__pycache__", "*.pyc"))
            if os.path.isdir(os.path.join(REPO, "scripts")):
                shutil.copytree(os.path.join(REPO, "scripts"), os.path.join(d, "scripts"))
            r = subprocess.run(["patch", "-p1", "-s", "-d", d, "-i", os.path.join(root, nid, "patch.diff")], capture_output=True, text=True)
            if r.returncode:
                print("SEED %s: patch does not apply: %s" % (nid, (r.stdout + r.stderr).strip()[:200]))
                return 2
        bad = 0
        with ThreadPoolExecutor(max_workers=16) as ex:
            und = 0
            for nid, pid, rc, lines in ex.map(run_one, [(nid, nid[:3], dirs[nid]) for nid in ids]):
                # seeded/<id>/undecided.txt: a confirmed breaking change the check cannot analyse yet (exit 2, no verdict) -- listed,
                # never silent: exit 0 on it is a failure of this run, exit 1 means the note is out of date
                listed = os.path.exists(os.path.join(root, nid, "undecided.txt"))
                if listed and rc == 2:
                    und += 1
                    if verbose:
                        print("SEED %s: undecided (listed)  %s" % (nid, lines[0][:160] if lines else ""))
                elif rc != 1:
                    bad += 1
                    print("SEED %s: %s exit %d  %s" % (nid, pid, rc, (lines[0][:200] if lines else "")))
                elif listed:
                    print("SEED %s: caught although listed as undecided (remove undecided.txt)" % nid)
                elif verbose:
                    print("SEED %s: caught  %s" % (nid, lines[0][:160] if lines else ""))
        print("seeded: %d property-breaking changes, %d reported as VIOLATION by their own property's check, %d listed as undecided (exit 2), "
              "%d neither" % (len(ids), len(ids) - bad - und, und, bad))
        return 1 if bad else 0
    finally:
        for d in dirs.values():
            shutil.rmtree(d, ignore_errors=True)


if __name__ == "__main__":
    sys.exit(main(sys.argv[1:]))
