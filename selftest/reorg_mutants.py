#!/usr/bin/env python3
"""Do the checks still bite when the code lives in private modules?   python3 selftest/reorg_mutants.py [-v]
Each entry takes one refactoring of the sixth neutral round (seeded/neutral7/<Cnn>: the anchored functions moved into a new
private module, public names imported back or kept as thin wrappers), applies it to a scratch copy of /repo's package under
$TMPDIR (removed afterwards), breaks ONE thing inside the private module, and runs the named check: it must exit 1.
(The refactorings themselves must leave every check silent: selftest/neutral.py neutral7.)"""
import os
import shutil
import subprocess
import sys
import tempfile
from concurrent.futures import ThreadPoolExecutor

HERE = os.path.dirname(os.path.abspath(__file__))
VERIF = os.path.dirname(HERE)
REPO = os.environ.get("XFAB_REPO", "/repo")

# (refactoring, check, file, old text, new text, what breaks)
MUTANTS = [
    ("C01", "C01", "_cellmath.py", "cgamstar = (calp*cbet-cgam)", "cgamstar = (calp*cbet+cgam)", "sign in cos(gamma*)"),
    ("C02", "C02", "_ubi.py", "factor=self.scale, invert=True)", "factor=self.scale)", "ubi_to_u multiplies by 2 pi instead of dividing"),
    ("C03", "C03", "_rotations.py", "(2, 1, 0): -1,", "(2, 1, 0):  1,", "one Levi-Civita entry"),
    ("C05", "C05", "_hkl.py", "'hexagonal': (lambda hkl: [-(hkl[0]+hkl[1]), hkl[0], hkl[2]],", "'hexagonal': (lambda hkl: [-(hkl[0]+hkl[1]), hkl[1], hkl[2]],", "hexagonal equivalent ihl"),
    ("C06", "C06", "_hkl.py", "((-1, 0,  1), (-1, 0, 0), ( 0, 1, 0), ( 0, 0,  1)),", "((-1, 0,  1), ( 1, 0, 0), ( 0, 1, 0), ( 0, 0,  1)),", "one cone generator of Laue -1"),
    ("C14", "C06", "_hkl.py", "sintlmin < stl <= sintlmax", "sintlmin < stl < sintlmax", "upper shell bound exclusive"),
    ("C07", "C07", "_scattering.py", "_MINUS_EIGHT_PI_SQ = -8*n.pi**2", "_MINUS_EIGHT_PI_SQ = -8*n.pi", "Debye-Waller constant"),
    ("C08", "C08", "_scattering.py", "TWO_PI_SQUARED = 2*n.pi**2", "TWO_PI_SQUARED = n.pi**2", "Uij -> beta constant"),
    ("C09", "C09", "_omega.py", "_ROOT_SIGNS = (1, -1)", "_ROOT_SIGNS = (1, 1)", "the same root twice"),
    ("C09", "C14", "_omega.py", "g_w = np.sin(twoth/2) * g_w / np.linalg.norm(g_w, axis=0)", "g_w = np.sin(twoth) * g_w / np.linalg.norm(g_w, axis=0)", "laue rescales to sin(2 theta)"),
    ("C11", "C11", "_orientation.py", "'antidiagonal': (False, (_Flip(n.fliplr),", "'antidiagonal': (False, (_Flip(n.flipud),", "one flip of the dispatch table"),
    ("C12", "C12", "_symops.py", "((-1, 0, 0), ( 0, -1, 0), ( 0, 0,  1)),", "((-1, 0, 0), ( 0, 1, 0), ( 0, 0,  1)),", "one permutation matrix"),
    ("C13", "C13", "_strain.py", "Binv[0, 1] = (2*epsilon[1]", "Binv[0, 1] = (epsilon[1]", "factor 2 of a shear component"),
    ("C15", "C15", "_sitesym.py", "SITE_TOLERANCE = 0.0001", "SITE_TOLERANCE = 0.1", "site tolerance"),
    ("C16", "C16", "_scattering.py", "stl*stl", "stl", "exponent in s instead of s^2"),
    ("C17", "C17", "_structio.py", "'y':       slice(38, 46)", "'y':       slice(38, 45)", "PDB column of y"),
    ("C18", "C18", "_cellreduce.py", "for row in range(start, len(res)))", "for row in range(start + 2, len(res)))", "third search starts two rows late"),
    ("C18", "C18", "_cellreduce.py", "normal_length > COPLANAR_TOL", "normal_length > -1", "plane-distance guard"),
    ("C19", "C19", "_parfile.py", 'return name.replace("-", "_"), value', "return name, value", "hyphens kept in names"),
    ("C20", "C20", "_validators.py", "_ORTHONORMALITY_ATOL = 1e-6", "_ORTHONORMALITY_ATOL = 1e-1", "orthonormality tolerance"),
]


def run_one(m):
    nid, pid, fname, old, new, what = m
    d = tempfile.mkdtemp(prefix="xfab_reorg_")
    try:
        shutil.copytree(os.path.join(REPO, "xfab"), os.path.join(d, "xfab"), ignore=shutil.ignore_patterns("__pycache__", "*.pyc"))
        if os.path.isdir(os.path.join(REPO, "scripts")):
            shutil.copytree(os.path.join(REPO, "scripts"), os.path.join(d, "scripts"))
        r = subprocess.run(["patch", "-p1", "-s", "-d", d, "-i", os.path.join(VERIF, "seeded", "neutral7", nid, "patch.diff")],
                           capture_output=True, text=True)
        if r.returncode:
            return m, 2, "patch does not apply"
        p = os.path.join(d, "xfab", fname)
        src = open(p).read()
        if src.count(old) < 1:
            return m, 2, "site not found"
        open(p, "w").write(src.replace(old, new, 1))
        env = dict(os.environ, XFAB_REPO=d, XFAB_SELFTEST_CHILD="1", XFAB_EVIDENCE_DIR=os.path.join(d, "evidence"))
        r = subprocess.run([os.path.join(VERIF, "check"), pid, "--tier", "quick"], env=env, capture_output=True, text=True)
        lines = [l.strip() for l in (r.stdout + r.stderr).splitlines() if l.lstrip().startswith(("FAIL", "ANALYSIS"))]
        return m, r.returncode, lines[0][:160] if lines else ""
    finally:
        shutil.rmtree(d, ignore_errors=True)


def main(argv):
    verbose = "-v" in argv
    bad = 0
    with ThreadPoolExecutor(max_workers=16) as ex:
        for m, rc, line in ex.map(run_one, MUTANTS):
            if rc != 1:
                bad += 1
                print("REORG %s/%s (%s): %s exit %d  %s" % (m[0], m[2], m[5], m[1], rc, line))
            elif verbose:
                print("REORG %s/%s (%s): caught by %s  %s" % (m[0], m[2], m[5], m[1], line))
    print("reorganised trees: %d mutants inside private modules, %d not reported as VIOLATION" % (len(MUTANTS), bad))
    return 1 if bad else 0


if __name__ == "__main__":
    sys.exit(main(sys.argv[1:]))
