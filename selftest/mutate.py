#!/usr/bin/env python3
"""One-off mutation helper:
  mutate.py -p C01 [-p C14] -f xfab/tools.py --old 'text' --new 'text' [--nth k]
Copies /repo's xfab package (working tree) to a scratch dir, applies the edit
(the old text must occur; --nth selects the occurrence, default: must be unique),
runs ./check for the listed properties with XFAB_REPO pointing there and prints
exit codes and FAIL lines.  The scratch copy is removed."""
import argparse, os, shutil, subprocess, sys, tempfile

VERIF = os.path.dirname(os.path.dirname(os.path.abspath(__file__)))


def scratch_copy():
    d = tempfile.mkdtemp(prefix="xfab_mut_")
    for sub in ("xfab", "scripts"):
        if os.path.isdir(os.path.join("/repo", sub)):
            shutil.copytree(os.path.join("/repo", sub), os.path.join(d, sub),
                            ignore=shutil.ignore_patterns("__pycache__", "*.pyc"))
    return d


def apply_edit(root, rel, old, new, nth=None):
    p = os.path.join(root, rel)
    s = open(p).read()
    n = s.count(old)
    if n == 0:
        raise SystemExit("old text not found in %s" % rel)
    if nth is None:
        if n != 1:
            raise SystemExit("old text occurs %d times in %s; use --nth" % (n, rel))
        s = s.replace(old, new)
    else:
        i = -1
        for _ in range(nth):
            i = s.index(old, i + 1)
        s = s[:i] + new + s[i + len(old):]
    open(p, "w").write(s)


def run_check(root, pid, tier="quick"):
    env = dict(os.environ, XFAB_REPO=root)
    r = subprocess.run([os.path.join(VERIF, "check"), pid, "--tier", tier], env=env, capture_output=True, text=True)
    return r.returncode, r.stdout + r.stderr


if __name__ == "__main__":
    ap = argparse.ArgumentParser()
    ap.add_argument("-p", action="append", required=True)
    ap.add_argument("-f", required=True)
    ap.add_argument("--old", required=True)
    ap.add_argument("--new", required=True)
    ap.add_argument("--nth", type=int)
    a = ap.parse_args()
    d = scratch_copy()
    try:
        apply_edit(d, a.f, a.old, a.new, a.nth)
        for pid in a.p:
            rc, out = run_check(d, pid)
            print("== %s exit %d" % (pid, rc))
            for line in out.splitlines():
                if line.lstrip().startswith(("FAIL", "VIOLATION", "ANALYSIS-ERROR", "KNOWN-FINDING", "Traceback", "  File")) or "Error" in line:
                    print("   ", line.strip()[:300])
    finally:
        shutil.rmtree(d, ignore_errors=True)
