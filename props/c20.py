"""
C20 -- input checks reject exactly the invalid inputs, and only while switched on.

E3 effect traces + abstract domains (no shape templates):

 site      every API the property names is evaluated by E3 twice -- with xfab.CHECKS.activated
           True and False (default arguments are evaluated with the import-time value) -- and on two
           sign patterns of its data-dependent tests.  Calls of checks._check_* are recorded with a
           snapshot of their argument.  ON: the check of the right kind is called on the right value
           (input: the array made from the parameter, before any call / linalg operation that consumes
           it; output: the value that is returned; angles: the three parameters).  OFF: no check is
           called and the returned normal form equals the ON one.
 guard     (cross-reference, whole repository) a check call that E3 does not reach from an API site
           must sit under an `if` whose test is the switch
 predicate checks._check_* evaluated by E3: allclose sites answered by scenario (which quantity, which
           tolerance window); Euler ranges on the five-region domain {<0, 0, inside, 2pi, >2pi};
           handedness on the sign of the compared quantity; every raise is ValueError
 setter    the setter / getter / __init__ evaluated on {True, False, 1, 0, 'True', None} x both states
 writer    no other store to _run_checks, no rebinding of CHECKS
"""
import ast
from fractions import Fraction

from xfabsa import core, numeric as N
from xfabsa.core import AnalysisError
from xfabsa.api import is_helper
from xfabsa.poly import Rat, func_atom
from xfabsa.signatures import SIG
from xfabsa.symeval import Evaluator, sym_array, Arr, Opaque, Obj, scalar, materialise, RaiseReached, pi_sign, vkey

EXHAUSTIVE = True

# obligations, by API name (the property's list)
INPUT = "input"      # check(asarray(param k)) before any use
OUTPUT = "output"    # check(U) on the orientation that is returned
PARAMS = "params"    # check(p0, p1, p2) on the parameters themselves
SITES = {
    "xfab/tools.py": {
        "ubi_to_u": (INPUT, [0], "_check_ubi_matrix"),
        "ubi_to_u_and_eps": (OUTPUT, 0, "_check_rotation_matrix"),
        "euler_to_u": (PARAMS, [0, 1, 2], "_check_euler_angles"),
        "u_to_euler": (INPUT, [0], "_check_rotation_matrix"),
        "u_to_rod": (INPUT, [0], "_check_rotation_matrix"),
        "u_to_ubi": (INPUT, [0], "_check_rotation_matrix"),
        "ub_to_u_b": (OUTPUT, 0, "_check_rotation_matrix"),
    },
    "xfab/symmetry.py": {
        "Umis": (INPUT, [0, 1], "_check_rotation_matrix"),
    },
}
SITES["xfab/laue.py"] = SITES["xfab/tools.py"]
ARGS = {
    "ubi_to_u": [("ubi_matrix", (3, 3))], "ubi_to_u_and_eps": [("ubi_matrix", (3, 3)), ("unit_cell", (6,))],
    "euler_to_u": [("phi1", None), ("PHI", None), ("phi2", None)], "u_to_euler": [("U_matrix", (3, 3))],
    "u_to_rod": [("U_matrix", (3, 3))], "u_to_ubi": [("U_matrix", (3, 3)), ("unit_cell", (6,))],
    "ub_to_u_b": [("UB_matrix", (3, 3))], "Umis": [("umat_1", (3, 3)), ("umat_2", (3, 3)), 1],
}
SWITCH = "xfab.CHECKS.activated"

# tolerance window (absolute deviation of an entry of U'U from the identity, resp. of det from 1):
# a rotation rounded to float32 / perturbed by < 1e-7 per entry deviates by <= sqrt(3)*2e-7+... < 1e-6;
# one entry perturbed by 1e-3 moves some entry of U'U by >= 1e-3/sqrt(3) = 5.8e-4.
TOL_MIN, TOL_MAX = 1e-6, 1e-4
NP_ALLCLOSE_DEFAULT = {"rtol": 1e-5, "atol": 1e-8}


def exc_name(r):
    from xfabsa.symeval import raised_name
    return raised_name(r)


def flat(v):
    if isinstance(v, (Rat, int, float)):
        return [scalar(v)]
    A = v if isinstance(v, Arr) else materialise(v)
    if A is None:
        return [Rat.atom(v.key())] if isinstance(v, Opaque) else None
    return [scalar(x) for x in A.flat()]


def same(a, b):
    fa, fb = flat(a), flat(b)
    return fa is not None and fb is not None and len(fa) == len(fb) and all(x.equals(y) for x, y in zip(fa, fb))


def atoms_of(v):
    f = flat(v) if not isinstance(v, (str, bool, type(None), dict)) else None
    out = set()
    for x in f or []:
        out |= set(x.atoms())
    return out


# ---------------------------------------------------------------------------
# API sites: effect traces
# ---------------------------------------------------------------------------

CLOSE_ANSWER = [False]
GUARDS_SEEN = []


def trace(mod, fname, mode, sign):
    """E3 run of one API -> (returned value, [(check name, [argument snapshots], event index)], evaluator, parameters)"""
    params = []
    for spec in ARGS[fname]:
        if isinstance(spec, int):
            params.append(Rat.const(spec))
        elif spec[1] is None:
            params.append(Rat.atom(spec[0]))
        else:
            params.append(sym_array(spec[0], spec[1]))
    log = []

    def ipol(name, a, kw, node):
        if name.startswith("xfab.checks."):
            log.append((name.rsplit(".", 1)[1], [x.copy() if isinstance(x, Arr) else x for x in a], len(ev.events) - 1))
            return None
        return NotImplemented

    def cpol(name, a, kw, node):
        from props.c14 import make_ret
        if name in SIG and SIG[name][1] is not None:
            return make_ret(SIG[name][1], "%s(%s)" % (name, ",".join(vkey(x) for x in a)), Rat.const(1))
        return NotImplemented
    ev = Evaluator(mod, inline=set(), import_policy=ipol, call_policy=cpol, sign_policy=lambda d, node=None: sign)
    ev.threshold_policy = lambda q, t, node: False
    # tolerance guards (allclose): the general path first; analyse_site repeats the traces with the guards true when one was met
    ev.close_policy = lambda g: (GUARDS_SEEN.append(g["text"]) or CLOSE_ANSWER[0])
    ev.import_values = {SWITCH: mode}
    ev.import_values_at_definition = {SWITCH: True}          # the package starts with checks on
    if "ROTATIONS" in getattr(mod, "assigns", {}):
        ev._modconst = {"ROTATIONS": [None] + [sym_array("rot%d" % k, (2, 3, 3)) for k in range(1, 8)]}
    out = ev.call_function(fname, params)
    return out, log, ev, params


def analyse_site(ctx, mod, fname, oblig):
    kind, what, cname = oblig
    fn = mod.func(fname)
    ctx.saw(mod, fn)
    where = core.loc(mod, fn)
    key = "C20:site:%s:%s" % (mod.rel, fname)
    gkey = "C20:guard:%s:%s:%s" % (mod.rel, fname, cname)
    reached = set()
    del GUARDS_SEEN[:]
    cases = [(1, False), (-1, False)]
    for sign, close in cases:
        CLOSE_ANSWER[0] = close
        try:
            on_out, on_log, on_ev, params = trace(mod, fname, True, sign)
            off_out, off_log, _e, _p = trace(mod, fname, False, sign)
        finally:
            CLOSE_ANSWER[0] = False
        if GUARDS_SEEN and not close and (sign, True) not in cases:
            cases.append((sign, True))          # a fast path behind a tolerance guard: traced as well
        reached |= {n for n, _a, _i in on_log} | {n for n, _a, _i in off_log}
        tag = ("" if sign == 1 else ":alt") + (":fast-path" if close else "")
        # OFF: nothing is checked, same value
        ctx.check(not off_log, gkey + tag,
                  "with CHECKS.activated False, %s still calls checks.%s (the check does not follow the switch: inverted or "
                  "import-time guard)" % (fname, ", ".join(sorted({n for n, _a, _i in off_log}))), where,
                  sample={"site": "%s:%s" % (mod.rel, fname), "check": cname, "off_calls": len(off_log), "on_calls": len(on_log)}
                  if sign == 1 else None)
        ctx.check(vkey(on_out) == vkey(off_out), "C20:guard:%s:%s:same-value%s" % (mod.rel, fname, tag),
                  "%s returns a different value with the checks switched off" % fname, where)
        mine = [(a, i) for n, a, i in on_log if n == cname]
        if not mine:
            ctx.fail(key + tag, "with CHECKS.activated True, %s does not call checks.%s" % (fname, cname), where)
            continue
        if kind == PARAMS:
            want = [params[i] for i in what]
            ok = any(len(a) == len(want) and all(same(x, y) for x, y in zip(a, want)) for a, _i in mine)
            ctx.check(ok, key + tag, "checks.%s is not called with the parameters (%s)" % (cname, ", ".join(ARGS[fname][i][0] for i in what)),
                      where)
        elif kind == INPUT:
            for k in what:
                pk = params[k]
                patoms = atoms_of(pk)
                hit = [(a, i) for a, i in mine if a and same(a[0], pk)]
                sub = "%s:param%d%s" % (key, k, tag)
                if not hit:
                    ctx.fail(sub, "no checks.%s on the value of parameter `%s`" % (cname, ARGS[fname][k][0]), where)
                    continue
                first = min(i for _a, i in hit)
                early = [(kd, nm) for kd, nm, a in on_ev.events[:first]
                         if not nm.startswith("xfab.checks.") and any(atoms_of(x) & patoms for x in a)]
                ctx.check(not early, sub,
                          "`%s` is used by %s before it is checked: an invalid input reaches that operation first"
                          % (ARGS[fname][k][0], ", ".join("%s %s" % e for e in early[:3])), where)
        elif kind == OUTPUT:
            ret = on_out[what] if isinstance(on_out, (tuple, list)) else on_out
            a, i = mine[-1]
            ctx.check(bool(a) and same(a[0], ret), key + tag,
                      "the orientation that is returned is not the value handed to checks.%s (checked before a later "
                      "modification, or another array)" % cname, where)
    return reached


# ---------------------------------------------------------------------------
# cross-reference: check calls E3 does not reach from an API site
# ---------------------------------------------------------------------------

def is_activated_test(mod, test):
    """the test is the switch itself"""
    if isinstance(test, ast.Attribute) and test.attr == "activated":
        v = test.value
        if isinstance(v, ast.Name) and mod.imports.get(v.id) == "xfab.CHECKS":
            return True
        if isinstance(v, ast.Attribute) and v.attr == "CHECKS" and isinstance(v.value, ast.Name) \
                and mod.imports.get(v.value.id) == "xfab":
            return True
    return False


def check_call_name(mod, call):
    """name of the checks._check_* function a Call node invokes, else None"""
    f = call.func
    if isinstance(f, ast.Attribute) and f.attr.startswith("_check_"):
        return f.attr
    if isinstance(f, ast.Name) and f.id.startswith("_check_") and \
            mod.imports.get(f.id, "").startswith("xfab.checks."):
        return f.id
    return None


def analyse_guards(ctx, mod, covered):
    """every check call outside the functions whose traces were analysed sits in the body of an `if <switch>:`"""
    parents = {}
    for node in ast.walk(mod.tree):
        for ch in ast.iter_child_nodes(node):
            parents[ch] = node
    n = 0
    for node in ast.walk(mod.tree):
        if not isinstance(node, ast.Call):
            continue
        cname = check_call_name(mod, node)
        if cname is None:
            continue
        p, fn, chain = node, None, [node]
        while p in parents:
            p = parents[p]
            chain.append(p)
            if isinstance(p, ast.FunctionDef):
                fn = p
                break
        fname = fn.name if fn is not None else "<module>"
        if fname in covered or mod.rel == "xfab/checks.py":
            continue
        n += 1
        key = "C20:guard:%s:%s:%s" % (mod.rel, fname, cname)
        where = core.loc(mod, node)
        guarded = False
        for child, par in zip(chain, chain[1:]):
            if isinstance(par, ast.If) and is_activated_test(mod, par.test) and child in par.body:
                guarded = True
        ctx.check(guarded, key, "call of checks.%s is not inside the body of an `if CHECKS.activated:`" % cname, where)
    return n


# ---------------------------------------------------------------------------
# checks.py
# ---------------------------------------------------------------------------

def closed_sign(x):
    if x.is_const():
        c = x.const_value()
        return (c > 0) - (c < 0)
    if x.atoms() <= {"pi"}:
        return pi_sign(x)
    return None


REGIONS = ("below", "zero", "inside", "twopi", "above")


def region_oracle(region):
    """sign of c*angle + r(pi) for an angle known only by its region relative to [0, 2 pi]"""
    two_pi = 2 * N.PI

    def signs(d, node=None):
        atoms = set(d.atoms()) - {"pi"}
        if len(atoms) != 1:
            return None
        a = next(iter(atoms))
        if a not in region:
            return None
        r0 = d.subs({a: Rat.const(0)})
        c1 = d.subs({a: Rat.const(1)}) - r0
        if not (c1 * Rat.atom(a) + r0).equals(d):
            return None
        sc = closed_sign(c1)
        if not sc:
            return None
        a0 = -r0 / c1                     # d = c1 * (angle - a0)
        reg = region[a]
        lo, hi = closed_sign(a0), closed_sign(a0 - two_pi)      # position of a0 relative to 0 and 2 pi
        if lo is None or hi is None:
            return None
        if reg == "zero":
            rel = -lo
        elif reg == "twopi":
            rel = -hi
        elif reg == "below":
            rel = -1 if lo >= 0 else None
        elif reg == "above":
            rel = 1 if hi <= 0 else None
        else:
            rel = 1 if lo <= 0 else -1 if hi >= 0 else None
        return None if rel is None else sc * rel
    return signs


def analyse_checks_module(ctx):
    mod = core.module("xfab/checks.py")
    ctx.saw(mod)
    raised = {}

    def note_raise(fname, name, node):
        raised.setdefault(fname, []).append((name, node))
    # ---- rotation matrix: the allclose sites, answered by scenario
    fn = mod.func("_check_rotation_matrix"); ctx.saw(mod, fn)
    where = core.loc(mod, fn)
    U = sym_array("U", (3, 3))

    def run_rot(fail):
        """one run of the check; the k-th comparison site answers "outside its tolerance" when k == fail.  A comparison site is a
        call of allclose / isclose, or one comparison `|quantity| <= small constant` (element-wise for arrays: all its elements
        belong to the site and are answered alike) -- the same predicate written out"""
        log = []
        ev = Evaluator(mod, inline=set())
        orig = ev._np_call

        def hook(name, args, kwargs, node):
            if name in ("allclose", "isclose"):
                # (isclose(x, y).all() on scalars or arrays is the same predicate)
                log.append((args, kwargs, node))
                return (len(log) - 1) != fail
            return orig(name, args, kwargs, node)
        ev._np_call = hook

        def band(q, t, node):
            key = ("band", getattr(node, "lineno", 0), getattr(node, "col_offset", 0))
            for k_, site in enumerate(log):
                if site[0] == key:
                    site[1].append((q, t))
                    return k_ != fail
            log.append((key, [(q, t)], node))
            return (len(log) - 1) != fail
        ev.threshold_policy = band
        ev.threshold_max = Fraction(1, 100)
        try:
            ev.call_function("_check_rotation_matrix", [U])
            return log, None, None
        except RaiseReached as r:
            return log, exc_name(r), r.node
    log, exc, _n = run_rot(None)
    ctx.check(exc is None and len(log) >= 1, "C20:predicate:rotation:accepts",
              "a matrix passing every comparison is still rejected (%s) or nothing is compared" % exc, where)
    utu = [[sum((Rat.atom("U[%d,%d]" % (k, i)) * Rat.atom("U[%d,%d]" % (k, j)) for k in range(3)), Rat.const(0))
            for j in range(3)] for i in range(3)]
    uut = [[sum((Rat.atom("U[%d,%d]" % (i, k)) * Rat.atom("U[%d,%d]" % (j, k)) for k in range(3)), Rat.const(0))
            for j in range(3)] for i in range(3)]
    seen = {"orth": 0, "det": 0}
    for k, (args, kwargs, node) in enumerate(log):
        _l, exck, rnode = run_rot(k)
        if exck is None:
            ctx.fail("C20:raise:_check_rotation_matrix:comparison%d" % k, "a failing comparison does not raise", core.loc(mod, node))
        else:
            note_raise("_check_rotation_matrix", exck, rnode)
        if isinstance(args, tuple) and args and args[0] == "band":
            # the predicate written out: |quantity| against a constant, element by element
            items = kwargs
            wh = core.loc(mod, node)
            verdict = None
            absdet = func_atom("abs", Rat.atom("det(U)") - 1)
            if len(items) == 1 and items[0][0].equals(absdet):
                verdict, tol = "det", float(items[0][1])
            elif len(items) == 9:
                for M_ in (utu, uut):
                    want_ = {(i, j): func_atom("abs", M_[i][j] - (1 if i == j else 0)) for i in range(3) for j in range(3)}
                    got_ = {}
                    for q_, t_ in items:
                        for ij_, w_ in want_.items():
                            if ij_ not in got_ and q_.equals(w_):
                                got_[ij_] = float(t_)
                                break
                    if len(got_) == 9:
                        verdict = "orth"
                        offs_ = [got_[ij_] for ij_ in got_ if ij_[0] != ij_[1]]
                        diags_ = [got_[ij_] for ij_ in got_ if ij_[0] == ij_[1]]
                        break
            if verdict == "orth":
                seen["orth"] += 1
                ctx.ok("C20:predicate:rotation:orthonormal", sample={"predicate": "|U'U - I| <= tolerance, element-wise",
                                                                     "off_diagonal": max(offs_), "diagonal": max(diags_)})
                ctx.check(all(TOL_MIN <= x_ <= TOL_MAX for x_ in offs_ + diags_), "C20:predicate:rotation:orthonormal-tolerance",
                          "tolerance on the entries of U'U is %.3g..%.3g off the diagonal / %.3g..%.3g on it; a valid "
                          "float32-precision rotation deviates by up to ~4e-7 and must be accepted, a 1e-3 perturbation "
                          "(>= 5.8e-4) must be rejected: window [%g, %g]" % (min(offs_), max(offs_), min(diags_), max(diags_), TOL_MIN, TOL_MAX), wh)
            elif verdict == "det":
                seen["det"] += 1
                ctx.ok("C20:predicate:rotation:det")
                ctx.check(TOL_MIN <= tol <= 1e-3, "C20:predicate:rotation:det-tolerance",
                          "tolerance on det U is %.3g; window [%g, 1e-3]" % (tol, TOL_MIN), wh)
            else:
                ctx.fail("C20:predicate:rotation:orthonormal" if k == 0 else "C20:predicate:rotation:det",
                         "comparison %d of the rotation check is neither |U'U - I| (or UU') nor |det(U) - 1| against a tolerance: %s"
                         % (k, core.unparse(node)[:80]), wh)
            continue
        if not (2 <= len(args) <= 4) or set(kwargs) - {"rtol", "atol"} or (len(args) > 2 and "rtol" in kwargs) or (len(args) > 3 and "atol" in kwargs):
            raise AnalysisError("_check_rotation_matrix: allclose call of unexpected form (line %d)" % node.lineno)
        # allclose(a, b, rtol=1e-05, atol=1e-08): the tolerances may be given by position
        rtol_v = args[2] if len(args) > 2 else kwargs.get("rtol")
        atol_v = args[3] if len(args) > 3 else kwargs.get("atol")
        args = args[:2]
        rtol = float(scalar(rtol_v).const_value()) if rtol_v is not None else NP_ALLCLOSE_DEFAULT["rtol"]
        atol = float(scalar(atol_v).const_value()) if atol_v is not None else NP_ALLCLOSE_DEFAULT["atol"]
        wh = core.loc(mod, node)
        verdict = None
        for a, b in (args, args[::-1]):
            A = a if isinstance(a, Arr) else (materialise(a) if not isinstance(a, (Rat, int, float)) else None)
            if A is not None and A.shape == (3, 3):
                B = b if isinstance(b, Arr) else (materialise(b) if not isinstance(b, (Rat, int, float)) else None)
                is_eye = B is not None and B.shape == (3, 3) and all(
                    scalar(B.data[i][j]).equals(1 if i == j else 0) for i in range(3) for j in range(3))
                m1 = all(scalar(A.data[i][j]).equals(utu[i][j]) for i in range(3) for j in range(3))
                m2 = all(scalar(A.data[i][j]).equals(uut[i][j]) for i in range(3) for j in range(3))
                if is_eye and (m1 or m2):
                    verdict = "orth"
                    break
            elif isinstance(a, (Rat, int, float)) or (isinstance(a, Opaque) and a.shape is None):
                try:
                    if scalar(a).key() == "det(U)" and scalar(b).equals(1):
                        verdict = "det"
                        break
                except AnalysisError:
                    pass
        if verdict == "orth":
            seen["orth"] += 1
            ctx.ok("C20:predicate:rotation:orthonormal", sample={"predicate": "allclose(U'U, I)", "atol": atol, "rtol": rtol})
            off, diag = atol, atol + rtol          # off-diagonal targets are 0 (only atol acts), diagonal targets are 1
            ctx.check(TOL_MIN <= off <= TOL_MAX and TOL_MIN <= diag <= TOL_MAX,
                      "C20:predicate:rotation:orthonormal-tolerance",
                      "allclose tolerance on the entries of U'U is %.3g off the diagonal / %.3g on it; a valid "
                      "float32-precision rotation deviates by up to ~4e-7 and must be accepted, a 1e-3 perturbation "
                      "(>= 5.8e-4) must be rejected: window [%g, %g]" % (off, diag, TOL_MIN, TOL_MAX), wh)
        elif verdict == "det":
            seen["det"] += 1
            ctx.ok("C20:predicate:rotation:det")
            tol = atol + rtol
            ctx.check(TOL_MIN <= tol <= 1e-3, "C20:predicate:rotation:det-tolerance",
                      "allclose tolerance on det U is %.3g; window [%g, 1e-3]" % (tol, TOL_MIN), wh)
        else:
            ctx.fail("C20:predicate:rotation:orthonormal" if k == 0 else "C20:predicate:rotation:det",
                     "comparison %d of the rotation check is neither allclose(U'U or UU', identity) nor allclose(det(U), 1): %s"
                     % (k, core.unparse(node)[:80]), wh)
    ctx.check(seen["orth"] >= 1 and seen["det"] >= 1, "C20:predicate:rotation:both",
              "rotation check does not test both orthonormality and the determinant (%s)" % seen, where)
    # ---- Euler angles on the five-region domain
    fn = mod.func("_check_euler_angles"); ctx.saw(mod, fn)
    where = core.loc(mod, fn)
    names = [a.arg for a in fn.args.args]
    if len(names) != 3:
        raise AnalysisError("_check_euler_angles does not take three angles")
    for k, nm in enumerate(names):
        for reg in REGIONS:
            region = {n_: "inside" for n_ in names}
            region[nm] = reg
            ev = Evaluator(mod, inline=set(), sign_policy=region_oracle(region))
            try:
                ev.call_function("_check_euler_angles", [Rat.atom(n_) for n_ in names])
                exc, rnode = None, None
            except RaiseReached as r:
                exc, rnode = exc_name(r), r.node
            want = reg in ("below", "above")
            if exc is not None:
                note_raise("_check_euler_angles", exc, rnode)
            ctx.check((exc is not None) == want, "C20:predicate:euler:%s:%s" % (nm, reg),
                      "Euler angle %s %s [0, 2 pi] is %s" % (nm, {"below": "below", "zero": "at the lower end of", "inside": "inside",
                                                                  "twopi": "at the upper end of", "above": "above"}[reg],
                                                             "rejected" if exc else "accepted"), where,
                      sample={"angle": nm, "region": reg, "raises": exc} if (k, reg) == (1, "above") else None)
    # ---- UBI handedness: sign of the compared quantity
    fn = mod.func("_check_ubi_matrix"); ctx.saw(mod, fn)
    where = core.loc(mod, fn)
    M = sym_array("ubi", (3, 3))
    m = [[Rat.atom("ubi[%d,%d]" % (i, j)) for j in range(3)] for i in range(3)]
    det = (m[0][0] * (m[1][1] * m[2][2] - m[1][2] * m[2][1]) - m[0][1] * (m[1][0] * m[2][2] - m[1][2] * m[2][0])
           + m[0][2] * (m[1][0] * m[2][1] - m[1][1] * m[2][0]))
    outcomes, asked = {}, []
    for sg in (-1, 0, 1):
        def signs(d, node=None, sg=sg):
            asked.append(d)
            return sg
        ev = Evaluator(mod, inline=set(), sign_policy=signs)
        try:
            ev.call_function("_check_ubi_matrix", [M])
            outcomes[sg] = None
        except RaiseReached as r:
            outcomes[sg] = exc_name(r)
            note_raise("_check_ubi_matrix", outcomes[sg], r.node)
    orient = 0
    if asked and all(x.equals(asked[0]) for x in asked):
        orient = 1 if N.pos_multiple(asked[0], det) else -1 if N.pos_multiple(-asked[0], det) else 0
    okubi = orient != 0 and all((outcomes[sg] is not None) == (sg * orient < 0) for sg in (-1, 0, 1))
    ctx.check(okubi, "C20:predicate:ubi:handedness",
              "UBI check is not `det(rows of ubi) < 0 -> raise` (triple product of the three rows): compares %s, raises for signs %s"
              % (N.short(asked[0]) if asked else "nothing", [sg for sg in outcomes if outcomes[sg]]), where)
    # ---- every raise is ValueError
    for fname in ("_check_rotation_matrix", "_check_euler_angles", "_check_ubi_matrix"):
        got = raised.get(fname, [])
        ctx.check(len(got) >= 1, "C20:raise:%s:some" % fname, "%s never raises" % fname, core.loc(mod, mod.func(fname)))
        bad = [(nm, nd) for nm, nd in got if nm != "ValueError"]
        ctx.check(not bad, "C20:raise:%s:type" % fname, "%s raises %s, not ValueError" % (fname, bad[0][0] if bad else ""),
                  core.loc(mod, bad[0][1]) if bad else core.loc(mod, mod.func(fname)))
    # ---- the switch: a two-state automaton
    cls = "_checkState"
    init = mod.method(cls, "__init__")
    props = mod.methods(cls, "activated")
    getter = [f for f in props if any(isinstance(d, ast.Name) and d.id == "property" for d in f.decorator_list)]
    setter = [f for f in props if any(isinstance(d, ast.Attribute) and d.attr == "setter" for d in f.decorator_list)]
    if len(getter) != 1 or len(setter) != 1:
        raise AnalysisError("anchor vanished: property `activated` with getter and setter in checks._checkState")
    o = Obj("state")
    Evaluator(mod, inline=set()).run_body(init, {init.args.args[0].arg: o})
    ctx.check(o.attrs.get("_run_checks") is True, "C20:setter:init", "__init__ does not leave the switch on (True)", core.loc(mod, init))
    okg = True
    for st in (True, False):
        o = Obj("state", _run_checks=st)
        ret, _env = Evaluator(mod, inline=set()).run_body(getter[0], {getter[0].args.args[0].arg: o})
        okg = okg and ret is st
    ctx.check(okg, "C20:setter:getter", "the getter does not return the stored state (and __debug__)", core.loc(mod, getter[0]))
    sfn = setter[0]
    problems = []
    rtypes = set()
    values = [("True", True, True), ("False", False, True), ("1", Rat.const(1), False), ("0", Rat.const(0), False),
              ("'True'", "True", False), ("None", None, False), ("0.5", Rat.const(Fraction(1, 2)), False)]
    for st in (True, False):
        for label, v, valid in values:
            o = Obj("state", _run_checks=st)
            try:
                Evaluator(mod, inline=set()).run_body(sfn, {sfn.args.args[0].arg: o, sfn.args.args[1].arg: v})
                exc = None
            except RaiseReached as r:
                exc = exc_name(r)
                rtypes.add(exc)
            if valid:
                if exc is not None or o.attrs["_run_checks"] is not v:
                    problems.append("assigning %s from state %s: raises %s / state becomes %r" % (label, st, exc, o.attrs["_run_checks"]))
            else:
                if exc is None:
                    problems.append("setter test is not an identity test against True/False: assigning %s is accepted "
                                    "(1, 0, numpy bools compare equal)" % label)
                elif o.attrs["_run_checks"] is not st or o.stores:
                    problems.append("assigning %s raises but the state was already changed" % label)
    ctx.check(not problems, "C20:setter:automaton", "; ".join(problems[:2]), core.loc(mod, sfn),
              sample={"values": [l for l, _v, _ok in values], "states": [True, False]})
    ctx.check(rtypes <= {"ValueError"}, "C20:setter:raise-type", "setter raises %s" % sorted(rtypes), core.loc(mod, sfn))


def analyse_writers(ctx):
    n_files = 0
    for rel in core.all_repo_python_files():
        if rel.startswith("test/") or rel.startswith("test\\"):
            continue
        mod = core.module(rel)
        n_files += 1
        for node in ast.walk(mod.tree):
            if isinstance(node, (ast.Assign, ast.AugAssign)):
                targets = node.targets if isinstance(node, ast.Assign) else [node.target]
                for t in targets:
                    for x in ast.walk(t):
                        if isinstance(x, ast.Attribute) and x.attr == "_run_checks":
                            inside = rel == "xfab/checks.py"
                            ctx.check(inside, "C20:writer:_run_checks:%s:%d" % (rel, 0 if inside else node.lineno),
                                      "store to _run_checks outside checks._checkState", core.loc(mod, node))
                        if isinstance(x, ast.Attribute) and x.attr == "CHECKS":
                            ctx.fail("C20:writer:CHECKS:%s" % rel, "rebinding of xfab.CHECKS", core.loc(mod, node))
                        if isinstance(x, ast.Name) and x.id == "CHECKS" and isinstance(x.ctx, ast.Store):
                            ok = rel == "xfab/__init__.py" and isinstance(node, ast.Assign) \
                                and isinstance(node.value, ast.Call) and isinstance(node.value.func, ast.Name) \
                                and node.value.func.id == "_checkState"
                            ctx.check(ok, "C20:writer:CHECKS:%s" % rel,
                                      "CHECKS is bound outside xfab/__init__.py or not to _checkState()", core.loc(mod, node))
            if isinstance(node, ast.Call) and isinstance(node.func, ast.Name) and node.func.id == "setattr" and node.args:
                for a in node.args[1:2]:
                    if isinstance(a, ast.Constant) and a.value in ("_run_checks", "CHECKS"):
                        ctx.fail("C20:writer:setattr:%s" % rel, "setattr on %s" % a.value, core.loc(mod, node))
    # in checks.py the only stores are in __init__ and the setter
    mod = core.module("xfab/checks.py")
    owners = []
    for fn in [n for n in ast.walk(mod.tree) if isinstance(n, ast.FunctionDef)]:
        if any(isinstance(x, ast.Attribute) and x.attr == "_run_checks" and isinstance(x.ctx, ast.Store)
               for x in ast.walk(fn)):
            owners.append(fn.name)
    ctx.check(sorted(owners) == ["__init__", "activated"], "C20:writer:_run_checks:owners",
              "functions storing _run_checks: %s (expected __init__ and the setter)" % owners, mod.rel)
    ctx.extra["files_scanned_for_writers"] = n_files


def run(ctx):
    from xfabsa import numeric as _NA
    _NA.alias_rule(ctx, 'C20', ['xfab/tools.py', 'xfab/laue.py', 'xfab/symmetry.py', 'xfab/checks.py'])
    ctx.rule("site", "E3 trace of each API: ON the right check on the right value before use / on the returned value; OFF no check")
    ctx.rule("guard", "the checks follow the switch (ON/OFF traces, same value); unreached check calls sit under `if CHECKS.activated:`")
    ctx.rule("raise", "every raise in checks._check_* is ValueError")
    ctx.rule("predicate", "predicates are the stated ones; tolerance window accepts float32, rejects 1e-3")
    ctx.rule("setter", "activated setter: only True/False accepted, a rejected value leaves the state unchanged")
    ctx.rule("writer", "single writer of _run_checks; CHECKS bound once")
    nsites = 0
    nguard = 0
    for rel in core.all_repo_python_files():
        if rel.startswith("test/"):
            continue
        mod = core.module(rel)
        ctx.saw(mod)
        covered = set()
        if rel in SITES:
            for fname, oblig in SITES[rel].items():
                analyse_site(ctx, mod, fname, oblig)
                covered.add(fname)
                nsites += 1
            # helpers seen through by the traces
            covered |= {f for f in mod.functions if is_helper(mod, f)}
        nguard += analyse_guards(ctx, mod, covered)
    ctx.floor("API obligations", nsites, 15)
    # the positive example for the zero-count rule "no unguarded check call"
    import os
    pos = os.path.join(core.VERIF, "selftest", "positive", "c20_unguarded.py")
    if os.path.exists(pos):
        src = open(pos).read()
        tree = ast.parse(src)

        class _M:
            rel = "selftest/positive/c20_unguarded.py"
            imports = {"checks": "xfab.checks", "CHECKS": "xfab.CHECKS"}
            np_alias = {"n"}
        _M.tree = tree
        probe = core.Ctx("C20", "quick")
        analyse_guards(probe, _M, set())
        if len(probe.fails) != 2:
            raise AnalysisError("positive example: the unguarded-call rule matched %d of 2 planted sites" % len(probe.fails))
        ctx.note("positive example: guard rule fires on both planted sites of selftest/positive/c20_unguarded.py")
    else:
        raise AnalysisError("positive example selftest/positive/c20_unguarded.py is missing")
    analyse_checks_module(ctx)
    analyse_writers(ctx)
    ctx.assumptions += ["numpy.allclose(a, b, rtol, atol) is |a-b| <= atol + rtol*|b| with defaults 1e-5 / 1e-8",
                        "histories are decided through the two-state automaton of the setter and the single-writer rule",
                        "default arguments are evaluated at import, when the switch is in its initial state (on)"]
    from xfabsa import numeric as _NH
    _NH.hazard_rule(ctx, 'C20')
    return ("Each of the property's APIs is evaluated by E3 with the switch on and off: on, the right check is called on the "
            "right value before any consuming operation (inputs) or on the returned orientation (outputs); off, no check is "
            "called and the value is the same.  The predicates are evaluated on abstract domains (allclose scenarios with "
            "their tolerance window, five regions per Euler angle, the sign of the handedness determinant), every raise is "
            "ValueError, the switch is a two-state automaton over six kinds of assigned values with a single writer.")
