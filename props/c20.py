"""
C20 -- input checks reject exactly the invalid inputs, and only while switched on.

Syntax-directed path rules (E4) over the whole repository:

 guard     every call of a checks._check_* function is the statement of an
           `if CHECKS.activated:` whose test is exactly that attribute of the
           object bound in xfab/__init__.py, with no else arm and nothing but
           check calls in the block (so switching off changes no value)
 site      each API named by the property has its obligation: the check of
           the right kind, on the right value, dominating every use of the
           value (input checks) or the return (output checks)
 raise     every raise inside checks._check_* is ValueError
 predicate the three predicates are the ones the property states, with an
           absolute tolerance window that accepts float32 rotations and
           rejects 1e-3 perturbations
 setter    two-state automaton of _checkState.activated
 writer    no other store to _run_checks, no rebinding of CHECKS
"""
import ast

from xfabsa import core, numeric as N
from xfabsa.core import AnalysisError
from xfabsa.poly import Rat
from xfabsa.symeval import Evaluator, sym_array, Arr, scalar, materialise

EXHAUSTIVE = True

# obligations, by API name (the property's list)
INPUT = "input"      # check(asarray(param k)) before any use
OUTPUT = "output"    # check(U) after the last store to U, before `return (U, ...)`
PARAMS = "params"    # check(p0, p1, p2) on the parameters themselves, first statement using them
SITES = {
    "xfab/tools.py": {
        "ubi_to_u": (INPUT, [0], "_check_ubi_matrix"),
        "ubi_to_u_and_eps": (OUTPUT, "U", "_check_rotation_matrix"),
        "euler_to_u": (PARAMS, [0, 1, 2], "_check_euler_angles"),
        "u_to_euler": (INPUT, [0], "_check_rotation_matrix"),
        "u_to_rod": (INPUT, [0], "_check_rotation_matrix"),
        "u_to_ubi": (INPUT, [0], "_check_rotation_matrix"),
        "ub_to_u_b": (OUTPUT, "U", "_check_rotation_matrix"),
    },
    "xfab/symmetry.py": {
        "Umis": (INPUT, [0, 1], "_check_rotation_matrix"),
    },
}
SITES["xfab/laue.py"] = SITES["xfab/tools.py"]

# tolerance window (absolute deviation of an entry of U'U from the identity, resp. of det from 1):
# a rotation rounded to float32 / perturbed by < 1e-7 per entry deviates by <= sqrt(3)*2e-7+... < 1e-6;
# one entry perturbed by 1e-3 moves some entry of U'U by >= 1e-3/sqrt(3) = 5.8e-4.
TOL_MIN, TOL_MAX = 1e-6, 1e-4
NP_ALLCLOSE_DEFAULT = {"rtol": 1e-5, "atol": 1e-8}


def is_activated_test(mod, test):
    """True if the test is exactly CHECKS.activated (of xfab's CHECKS)"""
    if isinstance(test, ast.Attribute) and test.attr == "activated":
        v = test.value
        if isinstance(v, ast.Name) and mod.imports.get(v.id) == "xfab.CHECKS":
            return True
        if isinstance(v, ast.Attribute) and v.attr == "CHECKS" and isinstance(v.value, ast.Name) \
                and mod.imports.get(v.value.id) == "xfab":
            return True
    return False


def mentions_activated(test):
    return any(isinstance(n, ast.Attribute) and n.attr == "activated" for n in ast.walk(test))


def check_call_name(mod, call):
    """name of the checks._check_* function a Call node invokes, else None"""
    f = call.func
    if isinstance(f, ast.Attribute) and f.attr.startswith("_check_"):
        return f.attr
    if isinstance(f, ast.Name) and f.id.startswith("_check_") and \
            mod.imports.get(f.id, "").startswith("xfab.checks."):
        return f.id
    return None


def names_used(node):
    return {n.id for n in ast.walk(node) if isinstance(n, ast.Name)}


def stores_to(node, name):
    """statements under node that (re)bind or mutate `name`"""
    out = []
    for n in ast.walk(node):
        if isinstance(n, (ast.Assign, ast.AugAssign, ast.AnnAssign)):
            targets = n.targets if isinstance(n, ast.Assign) else [n.target]
            for t in targets:
                for x in ast.walk(t):
                    if isinstance(x, ast.Name) and x.id == name:
                        out.append(n)
    return out


def analyse_guards(ctx, mod):
    """rule guard: returns {function name: [(guard stmt, [check calls])]}"""
    per_fn = {}
    parents = {}
    for node in ast.walk(mod.tree):
        for ch in ast.iter_child_nodes(node):
            parents[ch] = node
    for node in ast.walk(mod.tree):
        if not isinstance(node, ast.Call):
            continue
        cname = check_call_name(mod, node)
        if cname is None:
            continue
        # enclosing function
        p = node
        fn = None
        chain = []
        while p in parents:
            p = parents[p]
            chain.append(p)
            if isinstance(p, ast.FunctionDef):
                fn = p
                break
        fname = fn.name if fn is not None else "<module>"
        where = core.loc(mod, node)
        key = "C20:guard:%s:%s:%s" % (mod.rel, fname, cname)
        # the call must be an expression statement directly inside an If whose test is CHECKS.activated
        stmt = chain[0] if chain else None
        guard = chain[1] if len(chain) > 1 else None
        if not isinstance(stmt, ast.Expr) or not isinstance(guard, ast.If):
            if mod.rel == "xfab/checks.py":
                continue
            ctx.fail(key, "call of checks.%s is not a statement guarded by `if CHECKS.activated:`" % cname, where)
            continue
        if stmt not in guard.body:
            ctx.fail(key, "call of checks.%s sits in the else arm of its guard" % cname, where)
            continue
        if not is_activated_test(mod, guard.test):
            if mentions_activated(guard.test):
                if isinstance(guard.test, ast.UnaryOp) and isinstance(guard.test.op, ast.Not):
                    ctx.fail(key, "guard is inverted: `%s`" % core.unparse(guard.test), where)
                else:
                    raise AnalysisError("guard `%s` mentions the switch in a form the rule cannot read (%s)"
                                        % (core.unparse(guard.test), where))
            else:
                ctx.fail(key, "call of checks.%s is guarded by `%s`, not by CHECKS.activated"
                         % (cname, core.unparse(guard.test)), where)
            continue
        only_checks = all(isinstance(s, ast.Expr) and isinstance(s.value, ast.Call)
                          and check_call_name(mod, s.value) for s in guard.body)
        if not only_checks or guard.orelse:
            ctx.fail(key, "the guarded block contains more than check calls (or has an else arm): "
                          "switching checks off would change behaviour", where)
            continue
        ctx.ok(key, sample={"site": "%s:%s" % (mod.rel, fname), "check": cname,
                            "arg": core.unparse(node.args[0]) if node.args else ""})
        per_fn.setdefault(fname, []).append((guard, node, cname))
    return per_fn


def value_preserving_def(mod, stmt, var, param):
    """`var = n.asarray(param[, float])` / `n.array(param)` / `var = param`"""
    if not (isinstance(stmt, ast.Assign) and len(stmt.targets) == 1 and isinstance(stmt.targets[0], ast.Name)
            and stmt.targets[0].id == var):
        return False
    v = stmt.value
    if isinstance(v, ast.Name) and v.id == param:
        return True
    if isinstance(v, ast.Call) and isinstance(v.func, ast.Attribute) and v.func.attr in ("asarray", "array") \
            and isinstance(v.func.value, ast.Name) and v.func.value.id in mod.np_alias and v.args \
            and isinstance(v.args[0], ast.Name) and v.args[0].id == param:
        extra = v.args[1:]
        return all(isinstance(e, ast.Name) and e.id == "float" for e in extra) and \
            all(k.arg == "dtype" for k in v.keywords)
    return False


def analyse_site(ctx, mod, fname, oblig, guards):
    kind, what, cname = oblig
    fn = mod.func(fname)
    ctx.saw(mod, fn)
    where = core.loc(mod, fn)
    key = "C20:site:%s:%s" % (mod.rel, fname)
    params = [a.arg for a in fn.args.args]
    body = core.body_wo_doc(fn)
    mine = [(g, c) for (g, c, n) in guards.get(fname, []) if n == cname]
    if not mine:
        ctx.fail(key, "%s has no guarded call of checks.%s" % (fname, cname), where)
        return
    top = {id(s): i for i, s in enumerate(body)}
    for g, c in mine:
        if id(g) not in top:
            raise AnalysisError("%s: guard of %s is nested inside another statement (%s)" % (fname, cname, core.loc(mod, g)))
    if kind == PARAMS:
        g, c = mine[0]
        want = [params[i] for i in what]
        got = [a.id if isinstance(a, ast.Name) else None for a in c.args]
        ok = got == want
        gi = top[id(g)]
        used_before = set()
        for s in body[:gi]:
            used_before |= names_used(s) & set(want)
        ctx.check(ok and not used_before, key,
                  "checks.%s is called with %s (expected the parameters %s) or parameters are used before it: %s"
                  % (cname, got, want, sorted(used_before)), core.loc(mod, c))
        return
    if kind == INPUT:
        for k in what:
            param = params[k]
            sub = "%s:param%d" % (key, k)
            cand = [(g, c) for g, c in mine if c.args and isinstance(c.args[0], ast.Name)]
            found = False
            for g, c in cand:
                var = c.args[0].id
                gi = top[id(g)]
                if var == param:
                    defs_ok = True
                    pre_uses = set()
                    for s in body[:gi]:
                        pre_uses |= names_used(s) & {param}
                else:
                    defs = [s for s in body[:gi] if value_preserving_def(mod, s, var, param)]
                    if not defs:
                        continue
                    defs_ok = len(defs) == 1
                    pre_uses = set()
                    for s in body[:gi]:
                        if s is defs[0]:
                            continue
                        pre_uses |= names_used(s) & {param, var}
                found = True
                restores = []
                for s in body[gi + 1:]:
                    restores += stores_to(s, var)
                ctx.check(defs_ok and not pre_uses and not restores, sub,
                          "the checked value `%s` is used before the check (%s) or re-assigned after it (%d stores)"
                          % (var, sorted(pre_uses), len(restores)), core.loc(mod, c))
                break
            if not found:
                ctx.fail(sub, "no guarded checks.%s on parameter `%s` (or on asarray of it)" % (cname, param), where)
        return
    if kind == OUTPUT:
        g, c = mine[-1]
        var = c.args[0].id if c.args and isinstance(c.args[0], ast.Name) else None
        gi = top[id(g)]
        rets = [n for n in ast.walk(fn) if isinstance(n, ast.Return)]
        ok = var is not None
        msg = "checks.%s is not called on a local name" % cname
        if ok:
            # every return is a top-level statement after the guard whose first element is var
            for r in rets:
                if id(r) not in top or top[id(r)] < gi:
                    ok = False
                    msg = "a return is not dominated by the check (%s)" % core.loc(mod, r)
                    break
                v = r.value
                first = v.elts[0] if isinstance(v, ast.Tuple) and v.elts else v
                if not (isinstance(first, ast.Name) and first.id == var):
                    ok = False
                    msg = "the returned orientation is `%s`, the checked one `%s`" % (core.unparse(first), var)
                    break
        if ok:
            late = []
            for s in body[gi + 1:]:
                late += stores_to(s, var)
            if late:
                ok = False
                msg = "`%s` is modified after the check (%s)" % (var, core.loc(mod, late[0]))
        ctx.check(ok, key, msg, core.loc(mod, c))
        return
    raise AnalysisError("unknown obligation kind")


# ---------------------------------------------------------------------------
# checks.py
# ---------------------------------------------------------------------------

def literal_kw(call, name):
    for k in call.keywords:
        if k.arg == name:
            try:
                return float(ast.literal_eval(k.value))
            except Exception:
                raise AnalysisError("tolerance %s of %s is not a literal" % (name, core.unparse(call)))
    return None


def predicate_ifs(fn):
    """[(If node, negated test expr)] for `if not <expr>: raise ...` / `if <expr>: raise`"""
    out = []
    for st in core.body_wo_doc(fn):
        if isinstance(st, ast.If):
            out.append(st)
        elif isinstance(st, ast.Expr) and isinstance(st.value, ast.Constant):
            continue
        else:
            raise AnalysisError("%s: unexpected statement `%s`" % (fn.name, core.unparse(st)[:60]))
    return out


def analyse_checks_module(ctx):
    mod = core.module("xfab/checks.py")
    ctx.saw(mod)
    # rule raise
    for name, fn in mod.functions.items():
        if not name.startswith("_check_"):
            continue
        ctx.saw(mod, fn)
        raises = [n for n in ast.walk(fn) if isinstance(n, ast.Raise)]
        for r in raises:
            exc = r.exc
            nm = exc.func.id if isinstance(exc, ast.Call) and isinstance(exc.func, ast.Name) else \
                (exc.id if isinstance(exc, ast.Name) else None)
            ctx.check(nm == "ValueError", "C20:raise:%s:line-of-%s" % (name, core.unparse(r)[:40]),
                      "%s raises %s, not ValueError" % (name, nm), core.loc(mod, r))
        ctx.check(len(raises) >= 1, "C20:raise:%s:some" % name, "%s never raises" % name, core.loc(mod, fn))
        # every path: `if <bad>: raise` -- the body of each predicate `if` is a single raise, no else
        for st in predicate_ifs(fn):
            ctx.check(len(st.body) == 1 and isinstance(st.body[0], ast.Raise) and not st.orelse,
                      "C20:raise:%s:shape:%s" % (name, core.unparse(st.test)[:40]),
                      "predicate `%s` does not simply raise" % core.unparse(st.test)[:60], core.loc(mod, st))
    # rule predicate: rotation matrix
    fn = mod.func("_check_rotation_matrix")
    ifs = predicate_ifs(fn)
    pname = fn.args.args[0].arg
    U = sym_array("U", (3, 3))
    utu = [[sum((Rat.atom("U[%d,%d]" % (k, i)) * Rat.atom("U[%d,%d]" % (k, j)) for k in range(3)), Rat.const(0))
            for j in range(3)] for i in range(3)]
    uut = [[sum((Rat.atom("U[%d,%d]" % (i, k)) * Rat.atom("U[%d,%d]" % (j, k)) for k in range(3)), Rat.const(0))
            for j in range(3)] for i in range(3)]
    seen = {"orth": 0, "det": 0}
    for st in ifs:
        t = st.test
        if not (isinstance(t, ast.UnaryOp) and isinstance(t.op, ast.Not) and isinstance(t.operand, ast.Call)
                and isinstance(t.operand.func, ast.Attribute) and t.operand.func.attr == "allclose"
                and len(t.operand.args) == 2):
            raise AnalysisError("_check_rotation_matrix: predicate `%s` is not `not allclose(a, b)`" % core.unparse(t)[:60])
        call = t.operand
        ev = Evaluator(mod, inline=set())
        a = ev.eval(call.args[0], {pname: U})
        b = ev.eval(call.args[1], {pname: U})
        rtol = literal_kw(call, "rtol")
        atol = literal_kw(call, "atol")
        rtol = NP_ALLCLOSE_DEFAULT["rtol"] if rtol is None else rtol
        atol = NP_ALLCLOSE_DEFAULT["atol"] if atol is None else atol
        for k in call.keywords:
            if k.arg not in ("rtol", "atol"):
                raise AnalysisError("allclose keyword %s" % k.arg)
        where = core.loc(mod, st)
        A = a if isinstance(a, Arr) else materialise(a) if not isinstance(a, Rat) else None
        if A is not None and A.shape == (3, 3):
            B = b if isinstance(b, Arr) else materialise(b)
            is_eye = B is not None and B.shape == (3, 3) and all(
                scalar(B.data[i][j]).equals(1 if i == j else 0) for i in range(3) for j in range(3))
            m1 = all(scalar(A.data[i][j]).equals(utu[i][j]) for i in range(3) for j in range(3))
            m2 = all(scalar(A.data[i][j]).equals(uut[i][j]) for i in range(3) for j in range(3))
            ctx.check(is_eye and (m1 or m2), "C20:predicate:rotation:orthonormal",
                      "orthonormality predicate does not compare U'U (or UU') with the identity: %s"
                      % core.unparse(call)[:80], where,
                      sample={"predicate": core.unparse(call), "atol": atol, "rtol": rtol})
            seen["orth"] += 1
            # tolerance window: off-diagonal targets are 0 (only atol acts), diagonal targets are 1
            off, diag = atol, atol + rtol
            ctx.check(TOL_MIN <= off <= TOL_MAX and TOL_MIN <= diag <= TOL_MAX,
                      "C20:predicate:rotation:orthonormal-tolerance",
                      "allclose tolerance on the entries of U'U is %.3g off the diagonal / %.3g on it; a valid "
                      "float32-precision rotation deviates by up to ~4e-7 and must be accepted, a 1e-3 perturbation "
                      "(>= 5.8e-4) must be rejected: window [%g, %g]" % (off, diag, TOL_MIN, TOL_MAX), where)
        else:
            sa = scalar(a)
            isdet = sa.key() == "det(U)"
            one = scalar(b).equals(1)
            ctx.check(isdet and one, "C20:predicate:rotation:det", "determinant predicate is not allclose(det(U), 1): %s"
                      % core.unparse(call)[:80], where)
            seen["det"] += 1
            tol = atol + rtol
            ctx.check(TOL_MIN <= tol <= 1e-3, "C20:predicate:rotation:det-tolerance",
                      "allclose tolerance on det U is %.3g; window [%g, 1e-3]" % (tol, TOL_MIN), where)
    ctx.check(seen["orth"] == 1 and seen["det"] == 1, "C20:predicate:rotation:both",
              "rotation check does not test orthonormality and determinant exactly once each (%s)" % seen,
              core.loc(mod, fn))
    # Euler angles: three predicates `not (0 <= x <= 2*pi)`
    fn = mod.func("_check_euler_angles")
    params = [a.arg for a in fn.args.args]
    covered = []
    for st in predicate_ifs(fn):
        t = st.test
        ok = False
        if isinstance(t, ast.UnaryOp) and isinstance(t.op, ast.Not) and isinstance(t.operand, ast.Compare):
            c = t.operand
            if len(c.ops) == 2 and all(isinstance(o, ast.LtE) for o in c.ops) and isinstance(c.comparators[0], ast.Name):
                ev = Evaluator(mod, inline=set())
                lo = ev.eval(c.left, {})
                hi = ev.eval(c.comparators[1], {})
                if scalar(lo).equals(0) and scalar(hi).equals(2 * N.PI):
                    ok = True
                    covered.append(c.comparators[0].id)
        ctx.check(ok, "C20:predicate:euler:%s" % core.unparse(t)[:30],
                  "Euler predicate is not `not (0 <= angle <= 2*pi)`: %s" % core.unparse(t)[:60], core.loc(mod, st))
    ctx.check(sorted(covered) == sorted(params) and len(params) == 3, "C20:predicate:euler:all-three",
              "Euler check covers %s of parameters %s" % (covered, params), core.loc(mod, fn))
    # UBI handedness: dot(ubi[2], cross(ubi[0], ubi[1])) < 0 -> raise
    fn = mod.func("_check_ubi_matrix")
    ifs = predicate_ifs(fn)
    okubi = False
    if len(ifs) == 1 and isinstance(ifs[0].test, ast.Compare) and len(ifs[0].test.ops) == 1 \
            and isinstance(ifs[0].test.ops[0], ast.Lt):
        ev = Evaluator(mod, inline=set())
        M = sym_array("ubi", (3, 3))
        lhs = scalar(ev.eval(ifs[0].test.left, {fn.args.args[0].arg: M}))
        rhs = scalar(ev.eval(ifs[0].test.comparators[0], {}))
        m = [[Rat.atom("ubi[%d,%d]" % (i, j)) for j in range(3)] for i in range(3)]
        det = (m[0][0] * (m[1][1] * m[2][2] - m[1][2] * m[2][1]) - m[0][1] * (m[1][0] * m[2][2] - m[1][2] * m[2][0])
               + m[0][2] * (m[1][0] * m[2][1] - m[1][1] * m[2][0]))
        okubi = lhs.equals(det) and rhs.equals(0)
    ctx.check(okubi, "C20:predicate:ubi:handedness",
              "UBI check is not `det(rows of ubi) < 0 -> raise` (triple product of the three rows)", core.loc(mod, fn))
    # rule setter
    cls = "_checkState"
    init = mod.method(cls, "__init__")
    st_init = [s for s in ast.walk(init) if isinstance(s, ast.Assign) and isinstance(s.targets[0], ast.Attribute)
               and s.targets[0].attr == "_run_checks"]
    ctx.check(len(st_init) == 1 and isinstance(st_init[0].value, ast.Constant) and st_init[0].value.value is True,
              "C20:setter:init", "__init__ does not store True into _run_checks exactly once", core.loc(mod, init))
    props = mod.methods(cls, "activated")
    getter = [f for f in props if any(isinstance(d, ast.Name) and d.id == "property" for d in f.decorator_list)]
    setter = [f for f in props if any(isinstance(d, ast.Attribute) and d.attr == "setter" for d in f.decorator_list)]
    if len(getter) != 1 or len(setter) != 1:
        raise AnalysisError("anchor vanished: property `activated` with getter and setter in checks._checkState")
    g = core.body_wo_doc(getter[0])
    okg = False
    if len(g) == 1 and isinstance(g[0], ast.Return):
        v = g[0].value
        def is_rc(n):
            return isinstance(n, ast.Attribute) and n.attr == "_run_checks" and isinstance(n.value, ast.Name) and n.value.id == "self"
        if is_rc(v):
            okg = True
        elif isinstance(v, ast.BoolOp) and isinstance(v.op, ast.And) and len(v.values) == 2:
            a, b = v.values
            okg = (is_rc(a) and isinstance(b, ast.Name) and b.id == "__debug__") or \
                  (is_rc(b) and isinstance(a, ast.Name) and a.id == "__debug__")
    ctx.check(okg, "C20:setter:getter", "getter is not `self._run_checks [and __debug__]`", core.loc(mod, getter[0]))
    sfn = setter[0]
    vname = sfn.args.args[1].arg
    sb = core.body_wo_doc(sfn)
    verdict = None
    if sb and isinstance(sb[0], ast.If):
        t = sb[0].test
        def isnot(c, const):
            return (isinstance(c, ast.Compare) and len(c.ops) == 1 and isinstance(c.ops[0], ast.IsNot)
                    and isinstance(c.left, ast.Name) and c.left.id == vname
                    and isinstance(c.comparators[0], ast.Constant) and c.comparators[0].value is const)
        def is_(c, const):
            return (isinstance(c, ast.Compare) and len(c.ops) == 1 and isinstance(c.ops[0], ast.Is)
                    and isinstance(c.left, ast.Name) and c.left.id == vname
                    and isinstance(c.comparators[0], ast.Constant) and c.comparators[0].value is const)
        exact = False
        if isinstance(t, ast.BoolOp) and isinstance(t.op, ast.And) and len(t.values) == 2:
            exact = (isnot(t.values[0], True) and isnot(t.values[1], False)) or \
                    (isnot(t.values[0], False) and isnot(t.values[1], True))
        if isinstance(t, ast.UnaryOp) and isinstance(t.op, ast.Not):
            o = t.operand
            if isinstance(o, ast.BoolOp) and isinstance(o.op, ast.Or) and len(o.values) == 2:
                exact = (is_(o.values[0], True) and is_(o.values[1], False)) or (is_(o.values[0], False) and is_(o.values[1], True))
            if isinstance(o, ast.Call) and isinstance(o.func, ast.Name) and o.func.id == "isinstance" and len(o.args) == 2 \
                    and isinstance(o.args[0], ast.Name) and o.args[0].id == vname \
                    and isinstance(o.args[1], ast.Name) and o.args[1].id == "bool":
                exact = True
        weak = any(isinstance(n, (ast.NotIn, ast.In, ast.NotEq, ast.Eq)) for n in ast.walk(t))
        raising = len(sb[0].body) == 1 and isinstance(sb[0].body[0], ast.Raise)
        rest = sb[0].orelse + sb[1:]
        stores = [s for s in rest if isinstance(s, ast.Assign) and isinstance(s.targets[0], ast.Attribute)
                  and s.targets[0].attr == "_run_checks" and isinstance(s.value, ast.Name) and s.value.id == vname]
        store_on_raise = [s for s in ast.walk(sb[0]) if s in sb[0].body and isinstance(s, ast.Assign)]
        if exact and raising and len(stores) == 1 and len(rest) == 1 and not store_on_raise:
            verdict = True
        elif weak:
            verdict = False
            why = "setter test `%s` is not an identity test against True/False (1, 0, numpy bools compare equal)" \
                  % core.unparse(t)
        elif exact and not (raising and len(stores) == 1 and len(rest) == 1):
            verdict = False
            why = "setter does not (raise and leave the state unchanged) / (store the value) in the two arms"
    if verdict is None:
        # other recognisable failure: no test at all
        if not any(isinstance(n, ast.Raise) for n in ast.walk(sfn)):
            verdict = False
            why = "setter never raises: any value is accepted"
        else:
            raise AnalysisError("setter of `activated` has a form the rule cannot read (%s)" % core.loc(mod, sfn))
    ctx.check(verdict, "C20:setter:automaton", "" if verdict else why, core.loc(mod, sfn),
              sample={"setter_test": core.unparse(sb[0].test) if sb and isinstance(sb[0], ast.If) else ""})
    # the raise in the setter is ValueError
    for r in [n for n in ast.walk(sfn) if isinstance(n, ast.Raise)]:
        nm = r.exc.func.id if isinstance(r.exc, ast.Call) and isinstance(r.exc.func, ast.Name) else None
        ctx.check(nm == "ValueError", "C20:setter:raise-type", "setter raises %s" % nm, core.loc(mod, r))


def analyse_writers(ctx):
    n_files = 0
    for rel in core.all_repo_python_files():
        if rel.startswith("test/") or rel.startswith("test\\"):
            continue
        mod = core.module(rel)
        n_files += 1
        for node in ast.walk(mod.tree):
            if isinstance(node, (ast.Assign, ast.AugAssign)):
                targets = node.targets if isinstance(node, ast.Assign) else [node.target]
                for t in targets:
                    for x in ast.walk(t):
                        if isinstance(x, ast.Attribute) and x.attr == "_run_checks":
                            inside = rel == "xfab/checks.py"
                            ctx.check(inside, "C20:writer:_run_checks:%s:%d" % (rel, 0 if inside else node.lineno),
                                      "store to _run_checks outside checks._checkState", core.loc(mod, node))
                        if isinstance(x, ast.Attribute) and x.attr == "CHECKS":
                            ctx.fail("C20:writer:CHECKS:%s" % rel, "rebinding of xfab.CHECKS", core.loc(mod, node))
                        if isinstance(x, ast.Name) and x.id == "CHECKS" and isinstance(x.ctx, ast.Store):
                            ok = rel == "xfab/__init__.py" and isinstance(node, ast.Assign) \
                                and isinstance(node.value, ast.Call) and isinstance(node.value.func, ast.Name) \
                                and node.value.func.id == "_checkState"
                            ctx.check(ok, "C20:writer:CHECKS:%s" % rel,
                                      "CHECKS is bound outside xfab/__init__.py or not to _checkState()", core.loc(mod, node))
            if isinstance(node, ast.Call) and isinstance(node.func, ast.Name) and node.func.id == "setattr" and node.args:
                for a in node.args[1:2]:
                    if isinstance(a, ast.Constant) and a.value in ("_run_checks", "CHECKS"):
                        ctx.fail("C20:writer:setattr:%s" % rel, "setattr on %s" % a.value, core.loc(mod, node))
    # in checks.py the only stores are in __init__ and the setter
    mod = core.module("xfab/checks.py")
    owners = []
    for fn in [n for n in ast.walk(mod.tree) if isinstance(n, ast.FunctionDef)]:
        if any(isinstance(x, ast.Attribute) and x.attr == "_run_checks" and isinstance(x.ctx, ast.Store)
               for x in ast.walk(fn)):
            owners.append(fn.name)
    ctx.check(sorted(owners) == ["__init__", "activated"], "C20:writer:_run_checks:owners",
              "functions storing _run_checks: %s (expected __init__ and the setter)" % owners, mod.rel)
    ctx.extra["files_scanned_for_writers"] = n_files


def run(ctx):
    ctx.rule("guard", "every checks._check_* call is the statement of `if CHECKS.activated:` with only check calls inside")
    ctx.rule("site", "each API of the property has its check, on the right value, dominating use / return")
    ctx.rule("raise", "every raise in checks._check_* is ValueError")
    ctx.rule("predicate", "predicates are the stated ones; tolerance window accepts float32, rejects 1e-3")
    ctx.rule("setter", "activated setter: identity test against True/False, raise leaves the state unchanged")
    ctx.rule("writer", "single writer of _run_checks; CHECKS bound once")
    nsites = 0
    for rel in core.all_repo_python_files():
        if rel.startswith("test/"):
            continue
        mod = core.module(rel)
        ctx.saw(mod)
        guards = analyse_guards(ctx, mod)
        if rel in SITES:
            for fname, oblig in SITES[rel].items():
                analyse_site(ctx, mod, fname, oblig, guards)
                nsites += 1
            extra = sorted(set(guards) - set(SITES[rel]))
            if extra:
                ctx.note("%s: additional guarded check sites beyond the property's list: %s" % (rel, extra))
        nsites_here = sum(len(v) for v in guards.values())
    ctx.floor("API obligations", nsites, 15)
    # the positive example for the zero-count rule "no unguarded check call"
    import os
    pos = os.path.join(core.VERIF, "selftest", "positive", "c20_unguarded.py")
    if os.path.exists(pos):
        src = open(pos).read()
        tree = ast.parse(src)

        class _M:
            rel = "selftest/positive/c20_unguarded.py"
            imports = {"checks": "xfab.checks", "CHECKS": "xfab.CHECKS"}
            np_alias = {"n"}
        _M.tree = tree
        probe = core.Ctx("C20", "quick")
        analyse_guards(probe, _M)
        if len(probe.fails) != 2:
            raise AnalysisError("positive example: the unguarded-call rule matched %d of 2 planted sites" % len(probe.fails))
        ctx.note("positive example: guard rule fires on both planted sites of selftest/positive/c20_unguarded.py")
    else:
        raise AnalysisError("positive example selftest/positive/c20_unguarded.py is missing")
    analyse_checks_module(ctx)
    analyse_writers(ctx)
    ctx.assumptions += ["numpy.allclose(a, b, rtol, atol) is |a-b| <= atol + rtol*|b| with defaults 1e-5 / 1e-8",
                        "histories are decided through the two-state automaton of the setter and the single-writer rule"]
    return ("Path rules over every non-test Python file of the repository: each checks._check_* call is guarded by "
            "exactly `if CHECKS.activated:`, nothing else is in a guarded block, each of the property's APIs checks "
            "the right value before use / return; every raise is ValueError; the predicates are the stated ones with "
            "tolerances inside the float32-accepting window; the switch is a two-state automaton with a single writer.")
