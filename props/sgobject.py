"""
The space-group object the rest of the package reads (xfab/sg.py: class sg) against the tables it is built from
(xfab/sglib.py), by VALUE: the constructor is evaluated (E7) once per tabulated setting with that setting's literal tables
bound to the table object, and every numeric attribute of the resulting object must be the tabulated one (translations within
half a unit of the sixth digit, the precision of the tables; rotations, counts and the reflection conditions exactly).

The look-up model of C04 binds *symbolic* tables (what is copied from where); an edit that depends on the values -- a
"de-rounding" of the thirds, a modulo, a clip -- is invisible or unreadable there.  Used by C04 (the tables handed on are the
tables checked) and by C07 / C15 (StructureFactor and multiplicity read rot / trans / nsymop from this object).
"""
import ast
from fractions import Fraction

from xfabsa import core, tables
from xfabsa.core import AnalysisError
from xfabsa.poly import Rat, as_rat
from xfabsa.symeval import Arr, RaiseReached, materialise, scalar

TRANS_TOL = Fraction(5, 10 ** 7)       # half a unit of the sixth digit of the tabulated translations
NUMERIC = ("rot", "trans", "syscond", "nsymop", "nuniq")
TEXT = ("no", "name", "crystal_system", "Laue", "cell_choice")


def _as_arr(v):
    def conv(d):
        if isinstance(d, (list, tuple)):
            return [conv(x) for x in d]
        return as_rat(d)
    r = conv(v)
    return Arr(r) if isinstance(r, list) else r


def _flat(v):
    if isinstance(v, Arr):
        return [x for x in v.flat()]
    if isinstance(v, (list, tuple)):
        out = []
        for x in v:
            out += _flat(x)
        return out
    return [v]


def _shape(v):
    if isinstance(v, Arr):
        return v.shape
    if isinstance(v, (list, tuple)):
        m = materialise(v)
        return m.shape if m is not None else None
    return ()


def object_tables(settings=None):
    """-> [(setting key, attribute, message)] for every numeric attribute of sg.sg(...) that is not the tabulated one"""
    from xfabsa.objeval import ObjEvaluator, PyRaise, Sym, exc_name_of
    m = core.module("xfab/sg.py")
    init = m.method("sg", "__init__")
    if settings is None:
        settings, _info = tables.extract_sglib()
    node = ast.Constant(value=0)
    node.lineno = init.lineno
    bad = []
    seen = 0
    for s in settings:
        try:
            no = int(s.attrs["no"])
        except (KeyError, TypeError, ValueError):
            raise AnalysisError("sglib %s: the number of the group is not a literal" % s.klass)
        made = []

        def ipol(name, args, kwargs, node_, s=s, made=made):
            if name.startswith("xfab.sglib.Sg"):
                o = ev.new_obj("table:" + name.rsplit(".", 1)[1])
                for a in tables.SG_ATTRS:
                    v = s.attrs.get(a)
                    o.attrs[a] = _as_arr(v) if a in ("rot", "trans", "syscond") else (as_rat(v) if isinstance(v, (int, float)) and not isinstance(v, bool) else v)
                made.append(name)
                return o
            return NotImplemented
        ev = ObjEvaluator(m, inline=set(), import_policy=ipol, max_depth=8)
        try:
            o = ev.instantiate("sg", [], {"sgno": Rat.const(no), "sgname": None,
                                          "cell_choice": "rhombohedral" if s.arm == "rhombohedral" else "standard"}, node)
        except (PyRaise, RaiseReached) as e:
            bad.append((s.key, "construct", "sg.sg(sgno=%d, cell_choice=%r) raises %s" % (no, s.arm, exc_name_of(e))))
            continue
        seen += 1
        for a in TEXT:
            want, got = s.attrs.get(a), o.attrs.get(a)
            if isinstance(got, Rat) and got.is_const() and isinstance(want, (int, float)):
                same = got.const_value() == want
            else:
                same = isinstance(got, str) and got == want
            if not same:
                bad.append((s.key, a, "attribute %s is %r, tabulated %r" % (a, got if not isinstance(got, Rat) else got.key(), want)))
        for a in NUMERIC:
            want = s.attrs.get(a)
            got = o.attrs.get(a)
            if got is None:
                bad.append((s.key, a, "attribute %s is not set" % a))
                continue
            fw = [as_rat(x) for x in _flat(want if isinstance(want, (list, tuple)) else [want])]
            try:
                fg = [scalar(x) for x in _flat(got)]
            except AnalysisError:
                raise AnalysisError("sg.sg(%d, %s).%s is not numeric" % (no, s.arm, a))
            if isinstance(want, (list, tuple)):
                ws = _shape(list(want))
                gs = _shape(got)
                if ws != gs:
                    bad.append((s.key, a, "%s has shape %s, the table has %s" % (a, gs, ws)))
                    continue
            if len(fw) != len(fg):
                bad.append((s.key, a, "%s has %d entries, the table has %d" % (a, len(fg), len(fw))))
                continue
            for k, (x, y) in enumerate(zip(fg, fw)):
                d = x - y
                if not d.is_const():
                    raise AnalysisError("sg.sg(%d, %s).%s[%d] is not a constant: %s" % (no, s.arm, a, k, x.key()[:60]))
                dv = abs(d.const_value())
                if dv > (TRANS_TOL if a == "trans" else 0):
                    bad.append((s.key, a, "%s entry %d is %s, tabulated %s" % (a, k, float(x.const_value()), float(y.const_value()))))
                    break
    return bad, seen


def rule(ctx, pid, what):
    """one rule instance per numeric attribute; floor on the number of settings evaluated"""
    ctx.rule("object", "sg.sg(number, setting) evaluated on the literal tables of each of the 237 settings: rot, trans (to 5e-7), "
                       "syscond, nsymop, nuniq of the object are the tabulated ones (%s)" % what)
    m = core.module("xfab/sg.py")
    init = m.method("sg", "__init__")
    where = core.loc(m, init)
    bad, seen = object_tables()
    ctx.floor("settings constructed through sg.sg", seen, 237)
    by_attr = {}
    for key, a, msg in bad:
        by_attr.setdefault(a, []).append((key, msg))
    for a in NUMERIC + TEXT + ("construct",):
        hits = by_attr.get(a, [])
        if a == "construct" and not hits:
            continue
        ctx.check(not hits, "%s:object:%s" % (pid, a),
                  "the space-group object does not carry the tabulated %s for %d setting(s), e.g. %s: %s"
                  % (a, len(hits), hits[0][0] if hits else "", hits[0][1] if hits else ""), where,
                  sample={"attribute": a, "settings": seen} if a == "trans" else None)


# ------------------------------------------------------------------------------------------------------------------ dispatch
# Which table does a caller end up with?  The caller's own forwarding (what it hands to sg.sg, defaults included) is composed
# with the constructor's reading of those arguments: the constructor is evaluated (E7) on the recorded call with the table
# classes of sglib replaced by markers.  Decides e.g. that `multiplicity(x, sgname='R3r')` -- which forwards its own default
# cell_choice='standard' -- still ends in the rhombohedral arm of Sg146.

def constructor_request(bound):
    """bound: the arguments sg.sg receives (dict with sgno / sgname / cell_choice; missing ones take the constructor's own
    defaults) -> (class name requested from sglib, cell_choice handed to it) | ('<ExceptionName>', None)"""
    from xfabsa.objeval import ObjEvaluator, PyRaise, Sym, exc_name_of
    m = core.module("xfab/sg.py")
    init = m.method("sg", "__init__")
    node = ast.Constant(value=0)
    node.lineno = init.lineno
    requests = []

    def ipol(name, args, kwargs, node_):
        if name.startswith("xfab.sglib.Sg"):
            o = ev.new_obj("table:" + name.rsplit(".", 1)[1])
            kw = dict(kwargs)
            if args:
                kw["cell_choice"] = args[0]
            requests.append((name.rsplit(".", 1)[1], kw.get("cell_choice", "<default>")))
            for a in tables.SG_ATTRS:
                o.attrs[a] = [Rat.const(1), Rat.const(2)] if a in ("syscond", "rot", "trans") else Sym("%s@" % a, "other")
            return o
        return NotImplemented
    ev = ObjEvaluator(m, inline=set(), import_policy=ipol, max_depth=8)
    params = [a.arg for a in init.args.args][1:]
    kwargs = {k: v for k, v in bound.items() if k in params}
    try:
        ev.instantiate("sg", [], kwargs, node)
    except (PyRaise, RaiseReached) as e:
        return "<%s>" % exc_name_of(e), None
    if len(requests) != 1:
        return "<%d table objects>" % len(requests), None
    return requests[0]


DISPATCH_CASES = [
    # (what the user passes, (class, setting) the user means)
    ({"sgname": "R3"}, ("Sg146", "standard")),
    ({"sgname": "R3r"}, ("Sg146", "rhombohedral")),
    ({"sgname": "R -3 c r"}, ("Sg167", "rhombohedral")),
    ({"sgname": "R-3ch"}, ("Sg167", "standard")),
    ({"sgno": Rat.const(146)}, ("Sg146", "standard")),
    ({"sgno": Rat.const(146), "cell_choice": "rhombohedral"}, ("Sg146", "rhombohedral")),
    ({"sgname": "P 21/c"}, ("Sg14", "standard")),
]


def dispatch_rule(ctx, pid, what, run_caller, where):
    """run_caller(user keywords) -> the arguments sg.sg received from the caller (dict, positional ones bound to their names);
    the constructor must turn them into the table the user means (R...r names select rhombohedral axes whatever default the
    caller forwards; a number selects the setting by cell_choice)"""
    ctx.rule("setting", "%s: the caller's forwarding composed with sg.sg's reading of the arguments ends in the table the user names" % what)
    for user, want in DISPATCH_CASES:
        bound = run_caller(dict(user))
        label = ",".join("%s=%s" % (k, (v if isinstance(v, str) else v.key())) for k, v in sorted(user.items()))
        if bound is None:
            raise AnalysisError("%s: no space-group look-up recorded for %s" % (what, label))
        got = constructor_request(bound)
        okc = got[0] == want[0] and (got[1] == want[1] or (want[1] == "standard" and got[1] in ("standard", "<default>")))
        ctx.check(okc, "%s:setting:%s:%s" % (pid, what, label.replace(" ", "")),
                  "%s(%s) ends in %s with cell_choice %r; the user means %s, %s axes (sg.sg received %s)"
                  % (what, label, got[0], got[1], want[0], want[1],
                     {k: (v if isinstance(v, (str, type(None))) else getattr(v, "key", lambda: v)()) for k, v in sorted(bound.items())}),
                  where)
