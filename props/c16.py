"""
C16 -- atomic form factors are physical: f(0) = Z, positive and decreasing.

E0 extracts the 94 rows of atomlib.formfactor from the source text; the checker
does exact/interval arithmetic on the literals (never on xfab code):
  f0        | sum(a_i) + c - Z | <= 0.1     (Z from the periodic table, by symbol)
  monotone  all a_i*b_i >= 0 and some > 0   =>  f'(s) = -2 s sum a_i b_i e^{-b_i s^2} < 0 for s > 0
  positive  with monotonicity, f > 0 on [0,2] iff f(2) > 0 (one evaluation of the table row)
E3 compares structure.FormFactor with  sum_{i<4} d[i]*exp(-d[i+4]*s^2) + d[8].
"""
import math

from xfabsa import core, tables, numeric as N
from xfabsa.core import AnalysisError
from xfabsa.poly import Rat
from xfabsa.symeval import Evaluator, scalar

EXHAUSTIVE = True
ELEMENTS = ("H HE LI BE B C N O F NE NA MG AL SI P S CL AR K CA SC TI V CR MN FE CO NI CU ZN GA GE AS SE BR KR "
            "RB SR Y ZR NB MO TC RU RH PD AG CD IN SN SB TE I XE CS BA LA CE PR ND PM SM EU GD TB DY HO ER TM YB "
            "LU HF TA W RE OS IR PT AU HG TL PB BI PO AT RN FR RA AC TH PA U NP PU").split()


def run(ctx):
    from xfabsa import numeric as _NA
    _NA.alias_rule(ctx, 'C16', ['xfab/structure.py', 'xfab/atomlib.py'])
    ctx.rule("row", "nine numbers per row; key is an element symbol")
    ctx.rule("f0", "|sum a_i + c - Z| <= 0.1")
    ctx.rule("monotone", "a_i*b_i >= 0 for all i and > 0 for some i")
    ctx.rule("positive", "f(2) = sum a_i exp(-4 b_i) + c > 0 (suffices given monotonicity)")
    ctx.rule("reader", "FormFactor == sum_{i<4} data[i]*exp(-data[i+4]*stl^2) + data[8] (E3)")
    am = core.module("xfab/atomlib.py")
    ctx.saw(am)
    rows = tables.extract_formfactor()
    ctx.floor("form-factor rows", len(rows), 94)
    keys = [k for k, v, ln in rows]
    ctx.check(len(set(keys)) == len(keys), "C16:row:unique", "duplicated element keys", am.rel)
    for sym, v, ln in rows:
        where = "%s:%d" % (am.rel, ln)
        if sym not in ELEMENTS:
            ctx.fail("C16:row:%s" % sym, "key %r is not an element symbol H..PU (upper case)" % sym, where)
            continue
        Z = ELEMENTS.index(sym) + 1
        ok = isinstance(v, (list, tuple)) and len(v) == 9 and all(isinstance(x, (int, float)) for x in v)
        ctx.check(ok, "C16:row:%s" % sym, "row does not hold nine numbers", where)
        if not ok:
            continue
        a, b, c = v[:4], v[4:8], v[8]
        f0 = sum(a) + c
        deficit = Z - f0
        if abs(deficit) <= 0.1:
            ctx.ok("C16:f0:%s" % sym, sample={"element": sym, "Z": Z, "f(0)": round(f0, 5)} if sym in ("O", "FE", "U") else None)
        else:
            ctx.fail("C16:f0:%s:%+.2f" % (sym, deficit),
                     "f(0) = sum a_i + c = %.4f but Z = %d (deficit %+.4f)" % (f0, Z, deficit), where)
        prods = [x * y for x, y in zip(a, b)]
        mono = all(p >= 0 for p in prods) and any(p > 0 for p in prods)
        if mono:
            ctx.ok("C16:monotone:%s" % sym)
        else:
            # decide on a fine grid of the derivative of the table row (arithmetic on literals)
            bad = None
            for i in range(1, 4001):
                s = 2.0 * i / 4000
                d = -2 * s * sum(x * y * math.exp(-y * s * s) for x, y in zip(a, b))
                if d > 0:
                    bad = s
                    break
            ctx.check(bad is None, "C16:monotone:%s" % sym,
                      "a_i*b_i = %s: f increases near s = %s" % (["%.3g" % p for p in prods], bad), where)
        f2 = sum(x * math.exp(-4.0 * y) for x, y in zip(a, b)) + c
        fmin = f2 if mono else min(sum(x * math.exp(-y * (2.0 * i / 4000) ** 2) for x, y in zip(a, b)) + c
                                   for i in range(0, 4001))
        ctx.check(fmin > 0, "C16:positive:%s" % sym,
                  "form factor is not positive on [0, 2]: minimum %.4f" % fmin, where)
    missing = [e for e in ELEMENTS if e not in keys]
    ctx.check(not missing, "C16:row:all-94", "elements without a row: %s" % missing, am.rel)
    # reader
    sm = core.module("xfab/structure.py")
    fn = sm.func("FormFactor")
    ctx.saw(sm, fn)
    ev = Evaluator(sm, inline=set())
    stl = Rat.atom("stl")
    base = "xfab.atomlib.formfactor[atomtype]"
    # the table as seen from structure.py: a dictionary whose row for the requested element is nine symbols
    from xfabsa.symeval import sym_array
    # (the requested element CA next to C and H: a prefix or first-letter look-up would take another row)
    ev.import_values = {"xfab.atomlib.formfactor": {"H": sym_array("row(H)", (9,)), "C": sym_array("row(C)", (9,)),
                                                    "CA": sym_array(base, (9,))}}
    got = scalar(ev.call_function("FormFactor", ["CA", stl]))
    env = {"stl": stl}
    for i in range(9):
        env["d%d" % i] = Rat.atom("%s[%d]" % (base, i))
    want = N.ref("d0*exp(-d4*stl*stl) + d1*exp(-d5*stl*stl) + d2*exp(-d6*stl*stl) + d3*exp(-d7*stl*stl) + d8", env)
    ctx.check(got.equals(want), "C16:reader:FormFactor",
              "FormFactor is not sum a_i exp(-b_i s^2) + c over the row of the requested element: %s" % N.short(got, 300),
              core.loc(sm, fn), sample={"function": "structure.FormFactor", "normal_form": N.short(got, 300)})
    ctx.assumptions += ["atomic numbers of the 94 symbols H..Pu", "math.exp in the checker"]
    from xfabsa import numeric as _NH
    _NH.hazard_rule(ctx, 'C16')
    return ("All 94 rows of atomlib.formfactor extracted from the source and decided by arithmetic on the literals: "
            "f(0) = Z within 0.1, monotone decrease from the signs of a_i*b_i, positivity on [0,2] from f(2) > 0; "
            "structure.FormFactor compared with the nine-coefficient formula by E3.")
