"""
C06 -- genhkl_unique lists one reflection per Laue family, sorted by true sintl.

 domain    for each setting, with L = {R} u {-R} from the setting's own first nuniq rotations, every
           orbit of L (acting on the right of the hkl row) on the box has exactly ONE member in the union
           of the Laue class's traversal cones (cones = fundamental domain)
 dispatch  every (Laue, cell_choice) pair that occurs in sglib selects exactly one cone table
 walk      genhkl_base, evaluated as a whole on band models (props/hklrun.py: every lattice point assigned to one of the
           regions below-min .. beyond; sintl / sysabs answered from the model), lists every accepted cone point exactly
           once and nothing else: sintlmin exclusive, sintlmax inclusive, every row, plane and cone reached
 sort      in the value returned every row is keyed by the sin(theta)/lambda of its own hkl (the value the argsort
           orders by), which is also its fourth column when output_stl is set; indices are integers
 unique    genhkl_unique passes the group's attributes and slices the stl column off iff output_stl == False
"""
import ast

from props import hklmodel as H
from xfabsa import core, tables, groupalg as ga, numeric as N
from xfabsa.core import AnalysisError

EXHAUSTIVE = True


def run(ctx):
    from xfabsa import numeric as _N
    _N.alias_rule(ctx, 'C06', ['xfab/tools.py', 'xfab/laue.py', 'xfab/sg.py'])
    ctx.rule("domain", "cones are a fundamental domain of the Laue group of each setting (every orbit meets them exactly once)")
    ctx.rule("dispatch", "every (Laue, cell_choice) of sglib selects exactly one cone table; generators are unimodular")
    ctx.rule("walk", "genhkl_base evaluated on band models lists every accepted cone point once and nothing else (min exclusive, max inclusive)")
    ctx.rule("sort", "every returned row is sorted by the sin(theta)/lambda of its own hkl, which is also its fourth column")
    ctx.rule("expand", "genhkl_all expands every unique reflection over rot[:nuniq] and their negatives (union of the Laue families)")
    ctx.rule("unique", "genhkl_unique: genhkl_base(cell, spg.syscond, ..., spg attributes, output_stl=True); [:, :3] iff output_stl == False")
    Nbox = 4 if ctx.tier == "quick" else 10
    sgl = core.module("xfab/sglib.py")
    ctx.saw(sgl)
    settings, info = tables.extract_sglib()
    ctx.floor("settings", len(settings), 237)
    segs = {}
    for rel, short, _tp in N.MODULES:
        mod = core.module(rel)
        ctx.saw(mod, "genhkl_base"); ctx.saw(mod, "genhkl_unique")
        segs[short] = tables.extract_segm(rel)
    combos_all = sorted({(s.Laue, s.cell_choice, s.crystal_system) for s in settings})
    same_tables = all(segs["tools"].table_key(*c) == segs["laue"].table_key(*c) for c in combos_all)
    todo = [("tools", "xfab/tools.py", "")] if same_tables else [("tools", "xfab/tools.py", ""), ("laue", "xfab/laue.py", ":laue")]
    if same_tables:
        ctx.note("cone tables of laue are identical to those of tools: the table verdicts hold for both")
    n_orbits = 0
    cache = {}
    for which, relname, sfx in todo:
        segm = segs[which]
        ctx.floor("%s cone tables" % which, segm.count(settings), 13)
        # ---- dispatch + fundamental domain
        pairs = {}
        for s in settings:
            pairs.setdefault((s.Laue, s.cell_choice), []).append(s)
        box = ga.box(Nbox)
        for (laue, cc), members in sorted(pairs.items()):
            hits = tables.select_segm(segm, laue, cc, members[0].crystal_system)
            where = "%s:%d" % (relname, hits[0]["line"] if hits else 0)
            ctx.check(len(hits) == 1, "C06:dispatch:%s:%s%s" % (laue, cc, sfx),
                      "Laue class %r with cell_choice %r selects %d cone tables (settings: %s)" % (laue, cc, len(hits), [m.key for m in members][:3]),
                      where, sample={"Laue": laue, "cell_choice": cc, "cones": len(hits[0]["table"]) if hits else 0})
            if len(hits) != 1:
                continue
            cones = [H.Cone(rows) for rows in hits[0]["table"]]
            okdet = all(c.det in (1, -1) for c in cones)
            ctx.check(okdet, "C06:dispatch:%s:%s:unimodular%s" % (laue, cc, sfx),
                      "a cone's generators do not form a unimodular basis (lattice points of the cone would be skipped)", where)
            if not okdet:
                continue
            for s in members:
                rots = [ga.tup(R) for R in s.rot[:s.nuniq]]
                L = frozenset(rots) | frozenset(ga.neg(R) for R in rots)
                ck = (L, laue, cc, which)
                if ck not in cache:
                    seen = set()
                    bad = None
                    norb = 0
                    for h in box:
                        if h in seen:
                            continue
                        orbit = {ga.vmat(h, R) for R in L}
                        seen |= orbit
                        norb += 1
                        cnt = sum(1 for g in orbit for c in cones if c.contains(g))
                        if cnt != 1 and bad is None:
                            inside = [g for g in orbit for c in cones if c.contains(g)]
                            bad = (h, cnt, inside[:3])
                    cache[ck] = (bad, norb)
                bad, norb = cache[ck]
                n_orbits += norb
                ctx.check(bad is None, "C06:domain:%s%s" % (s.key, sfx),
                          "the Laue family of %s has %s members in the traversal cones (%s): %s" %
                          (bad[0] if bad else "", bad[1] if bad else "", "none is generated" if bad and bad[1] == 0 else "it is listed more than once",
                           bad[2] if bad else ""), "%s:%d" % (sgl.rel, s.lines.get("Laue", 0)),
                          sample={"setting": s.key, "Laue": laue, "orbits_in_box": norb} if s.key in ("Sg1:standard", "Sg148:rhombohedral", "Sg195:standard") else None)
        ctx.extra["box"] = Nbox
        ctx.extra["orbits_checked"] = n_orbits
        ctx.extra["distinct_point_groups"] = len(cache)
    # ---- the code, both modules
    from props import hklrun
    walk_results = hklrun.run_all([(rel, hklrun.rows_of(segs[short], settings)) for rel, short, _tp in N.MODULES], ctx.tier)
    ctx.extra["band_model_runs"] = len(walk_results)
    ctx.floor("band model runs", len(walk_results), 2 * 13 * 2)
    for rel, short, _tp in N.MODULES:
        mod = core.module(rel)
        fn = mod.func("genhkl_base")
        where = core.loc(mod, fn)
        npa = mod.np_alias
        # the whole function evaluated on band models (props/hklrun.py): rows returned, their sort keys, the fourth column
        by = hklrun.verdicts(walk_results, rel)
        if not by:
            raise AnalysisError("%s.genhkl_base: no combination of sglib could be evaluated on a band model" % short)
        for (L, cc, cs), v in sorted(by.items()):
            tag = "%s:%s:%s" % (short, L, cc)
            ctx.check(v["ok_set"], "C06:walk:%s" % tag,
                      "genhkl_base does not list every accepted point of the cones exactly once and nothing else (sintlmin exclusive, sintlmax inclusive): %s" % v["msg"],
                      where, sample={"Laue": L, "cell_choice": cc, "models": v["runs"], "accepted_points": v["rows"]} if (L, cc) in (("-1", "standard"), ("m-3m", "standard")) else None)
            ctx.check(v["sort_ok"], "C06:sort:%s" % tag,
                      "rows are not [hkl | sin(theta)/lambda of that hkl] ordered by that value: %s" % v["sort_msg"], where)
        # genhkl_unique and genhkl_all: evaluated on a model group (props/hklwrap.py)
        from props.hklwrap import analyse_unique, analyse_expand
        analyse_unique(ctx, mod, short)
        analyse_expand(ctx, mod, short, pid="C06")
    ctx.not_decided += ["completeness of the walk for one real cell (see C05 early-exit findings)"]
    ctx.assumptions += ["C04 (first nuniq rotations are the point group)", "numpy argsort/concatenate"]
    return ("Cones of every Laue class proven a fundamental domain of the Laue group of each of the %d settings on all orbits "
            "of the box |h|,|k|,|l| <= %d (%d orbit checks over %d distinct point groups); dispatch exhaustive and unimodular; "
            "genhkl_base evaluated as a whole on %d band models (rows returned, sort keys, fourth column); genhkl_unique and "
            "genhkl_all evaluated on model groups; both modules." % (len(settings), Nbox, n_orbits, len(cache), len(walk_results)))
