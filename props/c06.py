"""
C06 -- genhkl_unique lists one reflection per Laue family, sorted by true sintl.

 domain    for each setting, with L = {R} u {-R} from the setting's own first nuniq rotations, every
           orbit of L (acting on the right of the hkl row) on the box has exactly ONE member in the union
           of the Laue class's traversal cones (cones = fundamental domain)
 dispatch  every (Laue, cell_choice) pair that occurs in sglib selects exactly one cone table
 shell     the acceptance test is sintlH > sintlmin and sintlH <= sintlmax
 insync    at the append site the stored sintlH is sintl(unit_cell, .) of the stored hkl on every
           path (forward must-analysis of the facts InSync(x) over the loop nest)
 sort      rows sorted by column 3 after concatenating hkl and stl; integer steps only
 unique    genhkl_unique passes the group's attributes and slices the stl column off iff output_stl == False
"""
import ast

from props import hklmodel as H
from xfabsa import core, tables, groupalg as ga, numeric as N
from xfabsa.core import AnalysisError

EXHAUSTIVE = True


# ---------------------------------------------------------------------------
# in-sync analysis
# ---------------------------------------------------------------------------

class SyncState:
    """abstract state of the in-sync analysis:
       eq     partition of names known to hold equal values
       sync   names X with  sintlH == sintl(unit_cell, X)
       consts small-integer flags with a known value (trace partitioning key)
       exprs  name -> (dump of the pure expression it was bound to, version stamp of its free names)
       ver    version counter per name"""

    def __init__(self):
        self.eq = {}
        self.sync = set()
        self.consts = {}
        self.exprs = {}
        self.ver = {}

    def copy(self):
        c = SyncState()
        c.eq = dict(self.eq)
        c.sync = set(self.sync)
        c.consts = dict(self.consts)
        c.exprs = dict(self.exprs)
        c.ver = dict(self.ver)
        return c

    def cls(self, n):
        return self.eq.get(n, frozenset([n]))

    def bump(self, n):
        self.ver[n] = self.ver.get(n, 0) + 1

    def remove(self, n):
        c = self.cls(n)
        rest = c - {n}
        for m in rest:
            self.eq[m] = frozenset(rest)
        self.eq[n] = frozenset([n])
        self.sync.discard(n)
        self.exprs.pop(n, None)

    def join_to(self, n, m):
        """n := m"""
        if n == m:
            return
        self.remove(n)
        c = self.cls(m) | {n}
        for x in c:
            self.eq[x] = frozenset(c)
        if m in self.sync:
            self.sync.add(n)

    def key(self):
        return tuple(sorted(self.consts.items()))

    def meet(self, other):
        out = SyncState()
        for n in set(self.eq) | set(other.eq):
            out.eq[n] = frozenset((self.cls(n) & other.cls(n)) | {n})
        out.sync = self.sync & other.sync
        out.consts = {k: v for k, v in self.consts.items() if other.consts.get(k) == v}
        out.exprs = {k: v for k, v in self.exprs.items() if other.exprs.get(k) == v}
        out.ver = {k: max(self.ver.get(k, 0), other.ver.get(k, 0)) for k in set(self.ver) | set(other.ver)}
        return out

    def same(self, other):
        names = set(self.eq) | set(other.eq)
        return self.sync == other.sync and self.consts == other.consts and all(self.cls(n) == other.cls(n) for n in names)


def merge_states(states):
    """merge states that agree on the flag constants (trace partitioning by flags)"""
    by = {}
    for s in states:
        k = s.key()
        by[k] = by[k].meet(s) if k in by else s
    return list(by.values())


def flag_test(test, s):
    """truth value of `<name> ==|!= <int>` under the known flag constants, else None"""
    if isinstance(test, ast.Compare) and len(test.ops) == 1 and isinstance(test.left, ast.Name) \
            and isinstance(test.comparators[0], ast.Constant) and isinstance(test.comparators[0].value, int) \
            and isinstance(test.ops[0], (ast.Eq, ast.NotEq)):
        v = s.consts.get(test.left.id)
        if v is None:
            return None
        r = v == test.comparators[0].value
        return r if isinstance(test.ops[0], ast.Eq) else not r
    return None


def refine(test, s, truth):
    """assume the flag test has the given truth value"""
    if isinstance(test, ast.Compare) and len(test.ops) == 1 and isinstance(test.left, ast.Name) \
            and isinstance(test.comparators[0], ast.Constant) and isinstance(test.comparators[0].value, int):
        if (isinstance(test.ops[0], ast.Eq) and truth) or (isinstance(test.ops[0], ast.NotEq) and not truth):
            s.consts[test.left.id] = test.comparators[0].value
    return s


def analyse_insync(ctx, mod, fn, short, sintl_var="sintlH"):
    """forward must-analysis, path-sensitive in the small-integer loop flags.
    -> {(line of append, appended name): in sync on every path reaching it}"""
    cell = fn.args.args[0].arg
    verdicts = {}
    PURE = (ast.Name, ast.Subscript, ast.Constant, ast.Tuple, ast.Slice, ast.Load, ast.UnaryOp, ast.USub)
    PURE_X = PURE + (ast.BinOp, ast.Add, ast.Sub)

    def is_hkl_append(st):
        if isinstance(st, ast.Assign) and isinstance(st.value, ast.Call) and getattr(st.value.func, "attr", "") == "concatenate":
            a = st.value.args[0] if st.value.args else None
            if isinstance(a, ast.Tuple) and len(a.elts) == 2 and isinstance(a.elts[1], ast.List) and len(a.elts[1].elts) == 1:
                inner = a.elts[1].elts[0]
                base = inner.operand if isinstance(inner, ast.UnaryOp) else inner
                if isinstance(base, ast.Name) and isinstance(a.elts[0], ast.Name) and isinstance(st.targets[0], ast.Name) \
                        and a.elts[0].id == st.targets[0].id and base.id != sintl_var:
                    return base.id
        return None

    def transfer(st, s):
        if isinstance(st, ast.Assign) and len(st.targets) == 1 and isinstance(st.targets[0], ast.Name):
            tgt = st.targets[0].id
            v = st.value
            if isinstance(v, ast.Constant) and isinstance(v.value, int) and not isinstance(v.value, bool):
                s.remove(tgt)
                s.consts[tgt] = v.value
                s.bump(tgt)
                return
            s.consts.pop(tgt, None)
            if tgt == sintl_var:
                if isinstance(v, ast.Call) and getattr(v.func, "id", "") == "sintl" and len(v.args) == 2 \
                        and isinstance(v.args[0], ast.Name) and v.args[0].id == cell:
                    arg = v.args[1]
                    if isinstance(arg, ast.Name):
                        s.sync = set(s.cls(arg.id))
                    elif all(isinstance(n_, PURE + (ast.BinOp, ast.Add, ast.Sub)) for n_ in ast.walk(arg)):
                        # sintl(cell, <expression>): in sync with every name currently bound to that very expression
                        tmp = "$arg@%d" % v.lineno
                        transfer(ast.Assign(targets=[ast.Name(id=tmp, ctx=ast.Store())], value=arg, lineno=v.lineno), s)
                        s.sync = set(s.cls(tmp))
                    else:
                        s.sync = set()
                else:
                    s.sync = set()
                return
            if isinstance(v, ast.Name):
                s.join_to(tgt, v.id)
                s.bump(tgt)
                return
            s.remove(tgt)
            free = sorted({n.id for n in ast.walk(v) if isinstance(n, ast.Name)})
            if tgt not in free and all(isinstance(n, PURE_X) for n in ast.walk(v)):
                key = ast.dump(v)
                stamp = tuple(s.ver.get(f, 0) for f in free)
                for other, (k2, st2) in list(s.exprs.items()):
                    if k2 == key and st2 == stamp and other != tgt:
                        s.join_to(tgt, other)
                        break
                s.exprs[tgt] = (key, stamp)
            s.bump(tgt)
            return
        if isinstance(st, (ast.Assign, ast.AugAssign)):
            targets = st.targets if isinstance(st, ast.Assign) else [st.target]
            for t in targets:
                for x in ast.walk(t):
                    if isinstance(x, ast.Name) and isinstance(x.ctx, ast.Store) or (isinstance(x, ast.Name) and isinstance(st, ast.AugAssign)):
                        if x.id == sintl_var:
                            s.sync = set()
                        else:
                            s.remove(x.id)
                        s.consts.pop(x.id, None)
                        s.bump(x.id)
                    elif isinstance(x, ast.Name) and isinstance(t, ast.Subscript) and x is t.value:
                        # element store mutates the array: it leaves every equality / sync fact
                        s.remove(x.id)
                        s.bump(x.id)

    # abrupt completion: every block / statement returns (states falling through, states at `break`, states at `continue`);
    # a `return` ends the path
    def block(stmts, states):
        brk, cnt = [], []
        for st in stmts:
            states, b_, c_ = stmt(st, states)
            brk += b_
            cnt += c_
            if not states:
                break
        return states, brk, cnt

    def stmt(st, states):
        if isinstance(st, ast.Break):
            return [], [s.copy() for s in states], []
        if isinstance(st, ast.Continue):
            return [], [], [s.copy() for s in states]
        if isinstance(st, (ast.Return, ast.Raise)):
            return [], [], []
        if isinstance(st, ast.If):
            outs, brk, cnt = [], [], []
            for s in states:
                t = flag_test(st.test, s)
                if t is not False:
                    o, b_, c_ = block(st.body, [refine(st.test, s.copy(), True)])
                    outs += o; brk += b_; cnt += c_
                if t is not True:
                    o, b_, c_ = block(st.orelse, [refine(st.test, s.copy(), False)])
                    outs += o; brk += b_; cnt += c_
            return merge_states(outs), merge_states(brk), merge_states(cnt)
        if isinstance(st, (ast.While, ast.For)):
            test = st.test if isinstance(st, ast.While) else None
            always = isinstance(test, ast.Constant) and bool(test.value) is True
            head = []           # states at the loop head, merged per flag key
            work = [s.copy() for s in states]
            exits = []
            broken = []
            for _ in range(200):
                changed = False
                for s in work:
                    k = s.key()
                    cur = next((h for h in head if h.key() == k), None)
                    if cur is None:
                        head.append(s)
                        changed = True
                    else:
                        m = cur.meet(s)
                        if not m.same(cur):
                            head[head.index(cur)] = m
                            changed = True
                if not changed:
                    break
                work = []
                broken = []
                for h in head:
                    t = True if always else (flag_test(test, h) if test is not None else None)
                    if t is not False:
                        b = h.copy()
                        if test is not None and not always:
                            refine(test, b, True)
                        if isinstance(st, ast.For):
                            for x in ast.walk(st.target):
                                if isinstance(x, ast.Name):
                                    b.remove(x.id)
                                    b.consts.pop(x.id, None)
                                    b.bump(x.id)
                        o, b_, c_ = block(st.body, [b])
                        work += o + c_
                        broken += b_
            else:
                raise AnalysisError("in-sync analysis did not converge")
            for h in head:
                t = True if always else (flag_test(test, h) if test is not None else None)
                if t is not True:
                    exits.append(refine(test, h.copy(), False) if test is not None else h.copy())
            if st.orelse:
                exits, b2, c2 = block(st.orelse, merge_states(exits))
                return merge_states(exits + broken), b2, c2
            return merge_states(exits + broken), [], []
        name = is_hkl_append(st)
        if name is not None:
            for s in states:
                k = (st.lineno, name)
                verdicts[k] = verdicts.get(k, True) and (name in s.sync)
        for s in states:
            transfer(st, s)
        return merge_states(states), [], []
    block(core.body_wo_doc(fn), [SyncState()])
    return verdicts


def run(ctx):
    from xfabsa import numeric as _N
    _N.alias_rule(ctx, 'C06', ['xfab/tools.py', 'xfab/laue.py', 'xfab/sg.py'])
    ctx.rule("domain", "cones are a fundamental domain of the Laue group of each setting (every orbit meets them exactly once)")
    ctx.rule("dispatch", "every (Laue, cell_choice) of sglib selects exactly one cone table; generators are unimodular")
    ctx.rule("shell", "acceptance test `sintlH > sintlmin and sintlH <= sintlmax`")
    ctx.rule("insync", "InSync(hkl appended, sintlH) holds at every append on every path")
    ctx.rule("sort", "H = concatenate((H, stl), 1); H = H[argsort(H, 0)[:, 3], :]")
    ctx.rule("expand", "genhkl_all expands every unique reflection over rot[:nuniq] and their negatives (union of the Laue families)")
    ctx.rule("unique", "genhkl_unique: genhkl_base(cell, spg.syscond, ..., spg attributes, output_stl=True); [:, :3] iff output_stl == False")
    Nbox = 4 if ctx.tier == "quick" else 10
    sgl = core.module("xfab/sglib.py")
    ctx.saw(sgl)
    settings, info = tables.extract_sglib()
    ctx.floor("settings", len(settings), 237)
    segs = {}
    for rel, short, _tp in N.MODULES:
        mod = core.module(rel)
        ctx.saw(mod, "genhkl_base"); ctx.saw(mod, "genhkl_unique")
        segs[short] = tables.extract_segm(rel)
    combos_all = sorted({(s.Laue, s.cell_choice, s.crystal_system) for s in settings})
    same_tables = all(segs["tools"].table_key(*c) == segs["laue"].table_key(*c) for c in combos_all)
    todo = [("tools", "xfab/tools.py", "")] if same_tables else [("tools", "xfab/tools.py", ""), ("laue", "xfab/laue.py", ":laue")]
    if same_tables:
        ctx.note("cone tables of laue are identical to those of tools: the table verdicts hold for both")
    n_orbits = 0
    cache = {}
    for which, relname, sfx in todo:
        segm = segs[which]
        ctx.floor("%s cone tables" % which, segm.count(settings), 13)
        # ---- dispatch + fundamental domain
        pairs = {}
        for s in settings:
            pairs.setdefault((s.Laue, s.cell_choice), []).append(s)
        box = ga.box(Nbox)
        for (laue, cc), members in sorted(pairs.items()):
            hits = tables.select_segm(segm, laue, cc, members[0].crystal_system)
            where = "%s:%d" % (relname, hits[0]["line"] if hits else 0)
            ctx.check(len(hits) == 1, "C06:dispatch:%s:%s%s" % (laue, cc, sfx),
                      "Laue class %r with cell_choice %r selects %d cone tables (settings: %s)" % (laue, cc, len(hits), [m.key for m in members][:3]),
                      where, sample={"Laue": laue, "cell_choice": cc, "cones": len(hits[0]["table"]) if hits else 0})
            if len(hits) != 1:
                continue
            cones = [H.Cone(rows) for rows in hits[0]["table"]]
            okdet = all(c.det in (1, -1) for c in cones)
            ctx.check(okdet, "C06:dispatch:%s:%s:unimodular%s" % (laue, cc, sfx),
                      "a cone's generators do not form a unimodular basis (lattice points of the cone would be skipped)", where)
            if not okdet:
                continue
            for s in members:
                rots = [ga.tup(R) for R in s.rot[:s.nuniq]]
                L = frozenset(rots) | frozenset(ga.neg(R) for R in rots)
                ck = (L, laue, cc, which)
                if ck not in cache:
                    seen = set()
                    bad = None
                    norb = 0
                    for h in box:
                        if h in seen:
                            continue
                        orbit = {ga.vmat(h, R) for R in L}
                        seen |= orbit
                        norb += 1
                        cnt = sum(1 for g in orbit for c in cones if c.contains(g))
                        if cnt != 1 and bad is None:
                            inside = [g for g in orbit for c in cones if c.contains(g)]
                            bad = (h, cnt, inside[:3])
                    cache[ck] = (bad, norb)
                bad, norb = cache[ck]
                n_orbits += norb
                ctx.check(bad is None, "C06:domain:%s%s" % (s.key, sfx),
                          "the Laue family of %s has %s members in the traversal cones (%s): %s" %
                          (bad[0] if bad else "", bad[1] if bad else "", "none is generated" if bad and bad[1] == 0 else "it is listed more than once",
                           bad[2] if bad else ""), "%s:%d" % (sgl.rel, s.lines.get("Laue", 0)),
                          sample={"setting": s.key, "Laue": laue, "orbits_in_box": norb} if s.key in ("Sg1:standard", "Sg148:rhombohedral", "Sg195:standard") else None)
        ctx.extra["box"] = Nbox
        ctx.extra["orbits_checked"] = n_orbits
        ctx.extra["distinct_point_groups"] = len(cache)
    # ---- code rules, both modules (structural patterns with metavariables: local names are free)
    for rel, short, _tp in N.MODULES:
        mod = core.module(rel)
        fn = mod.func("genhkl_base")
        where = core.loc(mod, fn)
        npa = mod.np_alias
        # shell: every test on the running sin(theta)/lambda evaluated on the regions of its value (props/hklwalk.py)
        from props.hklwalk import analyse_tests, analyse_tail, analyse_steps
        shell_tests, svars = analyse_tests(ctx, mod, short, emit=("shell",))
        tests = [n_ for n_ in ast.walk(fn) if isinstance(n_, ast.If) and any(n_.test is t_ for t_ in shell_tests)]
        if len(tests) != 1 or len(svars) != 1:
            raise AnalysisError("%s.genhkl_base: acceptance test / running sin(theta)/lambda variable not identified (%d tests, names %s)"
                                % (short, len(tests), sorted(svars)))
        sv = sorted(svars)[0]
        # in-sync
        verdicts = analyse_insync(ctx, mod, fn, short, sintl_var=sv)
        if not verdicts:
            raise AnalysisError("%s.genhkl_base: no append of an hkl row found" % short)
        for (line, name), ok in sorted(verdicts.items()):
            ctx.check(ok, "C06:insync:%s:%s" % (short, name),
                      "at the append (line %d) %s is not guaranteed to be sintl(unit_cell, %s) on every path" % (line, sv, name),
                      "%s:%d" % (mod.rel, line), sample={"append_line": line, "hkl": name, "in_sync": ok})
        # the accepted row and its sin(theta)/lambda are appended together, inside the shell test
        blk = tests[0].body
        hk = [b for st in blk for b in [core.match_stmt("M_H = NP.concatenate((M_H, [M_X]))", st, {}, npa)] if b and b["M_X"] != sv]
        sl_ = [b for st in blk for b in [core.match_stmt("M_S = NP.concatenate((M_S, [M_V]))", st, {}, npa)] if b and b["M_V"] == sv]
        ok_pair = len(hk) == 1 and len(sl_) == 1 and len(blk) == 2
        ctx.check(ok_pair, "C06:insync:%s:paired-append" % short,
                  "the accepted hkl row and its sin(theta)/lambda are not appended together (and only they) under the shell test", where)
        analyse_tail(ctx, mod, short)
        analyse_steps(ctx, mod, short)
        # genhkl_unique and genhkl_all: evaluated on a model group (props/hklwrap.py)
        from props.hklwrap import analyse_unique, analyse_expand
        analyse_unique(ctx, mod, short)
        analyse_expand(ctx, mod, short, pid="C06")
    ctx.not_decided += ["completeness of the walk for one real cell (see C05 early-exit findings)"]
    ctx.assumptions += ["C04 (first nuniq rotations are the point group)", "numpy argsort/concatenate"]
    return ("Cones of every Laue class proven a fundamental domain of the Laue group of each of the %d settings on all orbits "
            "of the box |h|,|k|,|l| <= %d (%d orbit checks over %d distinct point groups); dispatch exhaustive and unimodular; "
            "shell test operators; in-sync must-analysis of (hkl, sintl) at the append sites over the loop nest; sort and "
            "genhkl_unique templates; both modules." % (len(settings), Nbox, n_orbits, len(cache)))
