"""
C09 -- returned (omega, eta) satisfy the diffraction condition; no solution is missed.

E3, with the module's own rotation-matrix builder as the oracle (the property
states the condition "under the rotation matrix the module itself builds for
that solver"):

  root     (cos w_i, sin w_i) := the arguments of the arctan2/arccos that produce
           omega[i]; they lie on the unit circle (or share a positive factor),
           and the x-row of  M(w_i) . g  is identically  -g.g  (= -sin^2 theta
           under the solver's length precondition), M being the builder's
           matrix with cos w, sin w replaced by those expressions
  count    no solution on the branch taken when the discriminant is negative,
           exactly two distinct ones otherwise; the discriminant test is the
           discriminant of the equation the roots solve
  eta      eta[i] = arctan2(-2 (M(w_i) g)_y / sin 2theta, 2 (M(w_i) g)_z / sin 2theta)
           with M the module's builder called with the solver's own tilts and units
  length   tools asserts |g|^2 = sin^2(theta); laue rescales g to that length
  tth      tth = 2 asin(lambda sintl(cell, hkl)), tth2 = 2 asin(|g| lambda / (2 tau))
"""
import ast
from fractions import Fraction

from xfabsa import core, numeric as N, rotref as RR
from xfabsa.core import AnalysisError
from xfabsa.poly import Rat, ATOM_ARGS, atom_info, sqrt_of, func_atom
from xfabsa.symeval import Evaluator, sym_array, Arr, Opaque, scalar, materialise, angle_range_sign, vkey


def vec3(v, what):
    A = v if isinstance(v, Arr) else materialise(v)
    if A is None or A.shape != (3,):
        raise AnalysisError("%s is not an explicit 3-vector" % what)
    return [scalar(x) for x in A.data]


def mat3(v, what):
    A = v if isinstance(v, Arr) else materialise(v)
    if A is None or A.shape != (3, 3):
        raise AnalysisError("%s is not an explicit 3x3 array" % what)
    return [[scalar(x) for x in r] for r in A.data]


def as_list(v):
    if isinstance(v, Arr):
        return list(v.data)
    if isinstance(v, (list, tuple)):
        return list(v)
    raise AnalysisError("solver result is not a list: %r" % (v,))


def linear_in_trig(expr: Rat, angle_atom_c: str, angle_atom_s: str):
    """expr == A*c + B*s + C0 with c, s the cos/sin atoms; returns (A, B, C0) or None"""
    c1 = {angle_atom_c: Rat.const(1), angle_atom_s: Rat.const(0)}
    s1 = {angle_atom_c: Rat.const(0), angle_atom_s: Rat.const(1)}
    z = {angle_atom_c: Rat.const(0), angle_atom_s: Rat.const(0)}
    C0 = expr.subs(z)
    A = expr.subs(c1) - C0
    B = expr.subs(s1) - C0
    back = A * Rat.atom(angle_atom_c) + B * Rat.atom(angle_atom_s) + C0
    if not back.equals(expr):
        return None
    return A, B, C0


def half_angle_form(expr: Rat, ch: str, sh: str):
    """expr (reduced, sh^2 eliminated) == p*ch^2 + q*sh*ch + r  ->  (A, B, C0) with
    expr == A*cos(w) + B*sin(w) + C0, cos w = 2ch^2-1, sin w = 2 sh ch"""
    r = expr.subs({ch: Rat.const(0), sh: Rat.const(0)})
    # p: coefficient of ch^2 (sh = 0): expr(ch=1, sh=0) - r
    p = expr.subs({ch: Rat.const(1), sh: Rat.const(0)}) - r
    # q: mixed term: expr(1,1) - p - r  (sh appears only to the first power after reduction)
    q = expr.subs({ch: Rat.const(1), sh: Rat.const(1)}) - p - r
    CH, SH = Rat.atom(ch), Rat.atom(sh)
    back = p * CH * CH + q * SH * CH + r
    if not back.equals(expr):
        return None
    A = p / 2
    return A, q / 2, r + A


class SolverOracle:
    """Sign-level branch answers for the omega solvers (whatever the spelling, nesting or order of the tests):
    a comparison of a principal-value angle with a multiple of pi is decided from the angle's range (the `omega > pi` wraps
    are dead for arctan2 results); the first other undecided comparison is the two-or-none test and the compared difference
    gets the sign `disc_sign`; later ones are answered by `later(difference)`."""

    def __init__(self, disc_sign, later=None, wraps=None):
        self.disc_sign = disc_sign
        self.later = later
        self.disc = None
        self.wraps = dict(wraps or {})       # answers to comparisons between sums of principal-value angles and multiples of pi
        self.passed = []                     # (difference, sign) of those comparisons, in the order met

    def __call__(self, d, node=None):
        sg = angle_range_sign(d)
        if sg is not None:
            return sg
        from xfabsa import angles
        dec = angles.decompose(d) if not d.is_const() else None
        if dec is not None and dec[0] and all(a in ATOM_ARGS and ATOM_ARGS[a][0] in angles.RANGES for _c, a in dec[0]):
            # `omega > pi` for an omega that is a sum of principal values: the ranges decide it or it is a case distinction
            iv = angles.interval(d)
            if iv is not None and iv[0] > 0:
                return 1
            if iv is not None and iv[1] < 0:
                return -1
            k = d.key()
            if k not in self.wraps:
                raise NeedWrap(k, d)
            self.passed.append((d, self.wraps[k]))
            return self.wraps[k]
        if self.disc is None:
            self.disc = d
            return self.disc_sign
        if self.disc.equals(d):
            return self.disc_sign
        if self.disc.equals(-d):
            return -self.disc_sign
        return self.later(d) if self.later is not None else None


class NeedWrap(Exception):
    def __init__(self, key, d):
        Exception.__init__(self, key)
        self.key, self.d = key, d


def run_solver_paths(mod, fn, args, disc_sign, later=None):
    """-> [(result, oracle, evaluator)], one per answer pattern of the wrap comparisons the solver makes (usually one)"""
    out, stack = [], [{}]
    while stack:
        wraps = stack.pop()
        orc = SolverOracle(disc_sign, later, wraps)
        ev = Evaluator(mod, inline=True, branch_policy=N.skip_checks_policy, sign_policy=orc)
        try:
            r = ev._call_fn(fn, list(args), {})
        except NeedWrap as need:
            for sg in (1, -1):
                stack.append(dict(wraps, **{need.key: sg}))
            if len(stack) + len(out) > 64:
                raise AnalysisError("more than 64 wrap cases in a solver")
            continue
        out.append((r, orc, ev))
    return out


def run_solver(mod, fn, args, disc_sign, later=None):
    paths = run_solver_paths(mod, fn, args, disc_sign, later)
    r, orc, ev = paths[0]
    orc.paths = paths
    return r, orc, ev


pos_multiple = N.pos_multiple


def two_or_none(ctx, mod, short, solver, fn_run, args, where, pair=True, later=None):
    """run the solver with the two-or-none difference positive and negative -> (sign of the run returning two, its output,
    its oracle, its evaluator) ; records the count rules"""
    runs = {}
    for sg in (1, -1):
        out, orc, ev = run_solver(mod, fn_run, args, sg, later)
        if pair:
            if not (isinstance(out, tuple) and len(out) == 2):
                raise AnalysisError("%s does not return (omega, eta)" % solver)
            cnt = (len(as_list(out[0])), len(as_list(out[1])))
        else:
            cnt = (len(as_list(out)),) * 2
        runs[sg] = (out, orc, ev, cnt)
    two = [sg for sg in (1, -1) if runs[sg][3] == (2, 2)]
    none = [sg for sg in (1, -1) if runs[sg][3] == (0, 0)]
    ctx.check(len(two) >= 1, "C09:count:%s.%s:two" % (short, solver),
              "omega / eta counts on the two sides of the two-or-none test are %s and %s: no side returns two solutions"
              % (runs[1][3], runs[-1][3]), where)
    ctx.check(len(none) == 1 and len(two) == 1 and runs[1][1].disc is not None, "C09:count:%s.%s:none" % (short, solver),
              "solutions are returned although the discriminant is negative (counts %s / %s)" % (runs[1][3], runs[-1][3]), where)
    s2 = two[0] if two else 1
    return (s2,) + runs[s2][:3]


def arctan2_args(r: Rat):
    info = atom_info(r)
    if info is None or info[0] != "arctan2":
        return None
    return info[1][0], info[1][1]          # (y, x)


def strip_rescale_preamble(fn):
    """laue solver -> (copy without `g_w_n = ...` and with g_w_n renamed g_w, the preamble statement)"""
    import copy
    fn2 = copy.deepcopy(fn)
    pre = None
    body = []
    for st in fn2.body:
        if pre is None and isinstance(st, ast.Assign) and len(st.targets) == 1 \
                and isinstance(st.targets[0], ast.Name) and st.targets[0].id == "g_w_n":
            pre = st
            continue
        body.append(st)
    fn2.body = body
    for node in ast.walk(fn2):
        if isinstance(node, ast.Name) and node.id == "g_w_n":
            node.id = "g_w"
    return fn2, pre


def check_preamble(ctx, mod, short, solver, pre):
    where = core.loc(mod, pre) if pre is not None else mod.rel
    if pre is None:
        ctx.fail("C09:length:%s.%s" % (short, solver), "laue solver neither rescales g nor asserts its length", where)
        return
    g = sym_array("g_w", (3,))
    th = Rat.atom("twoth")
    got = Evaluator(mod, inline=set()).eval(pre.value, {"g_w": g, "twoth": th})
    want = N.ref("sin(twoth/2)*g/sqrt(g[0]*g[0]+g[1]*g[1]+g[2]*g[2])", {"g": g, "twoth": th})
    G = got if isinstance(got, Arr) else materialise(got)
    Wt = want if isinstance(want, Arr) else materialise(want)
    ok = G is not None and G.shape == (3,) and all(scalar(x).equals(scalar(y)) for x, y in zip(G.data, Wt.data))
    ctx.check(ok, "C09:length:%s.%s" % (short, solver),
              "the vector handed to the solver body is not sin(twoth/2)*g_w/|g_w|", where)


_POINTS = []


def solver_points():
    """deterministic sample of the solvers' input space: g directions scaled to |g| = sin(theta), 2theta in (0.5, 150) degrees,
    both tilts in [-0.5, 0.5] rad"""
    if not _POINTS:
        import math
        x = 12345
        def rnd():
            nonlocal x
            x = (1103515245 * x + 12345) % (2 ** 31)
            return x / 2 ** 31
        for _ in range(400):
            tw = math.radians(0.5 + 149.5 * rnd())
            u, ph = 2 * rnd() - 1, 2 * math.pi * rnd()
            r = math.sqrt(max(0.0, 1 - u * u)) * math.sin(tw / 2)
            _POINTS.append({"g_w[0]": r * math.cos(ph), "g_w[1]": r * math.sin(ph), "g_w[2]": u * math.sin(tw / 2),
                            "twoth": tw, "w_x": rnd() - 0.5, "w_y": rnd() - 0.5})
    return _POINTS


def veq(a, b, by_value):
    """equality of two normal forms; on the by-value path an identity beyond the normaliser is looked at numerically: a point
    where the two differ refutes it, agreement at every sample point leaves it undecided (numeval raises)"""
    a, b = scalar(a), scalar(b)
    if a.equals(b):
        return True
    if not by_value:
        return False
    from xfabsa import numeval
    return numeval.decide_equal(a, b, numeval.default_domain(a, b)) is True


def same_sign_everywhere(x, want):
    """the two-or-none test compares a quantity that is `want` times a positive factor: refuted by a sample point where the two
    have different signs, undecided (AnalysisError) when no normal form shows it"""
    from xfabsa import numeval
    r = x / want
    one = r / func_atom("abs", r)
    return numeval.decide_equal(one, Rat.const(1), numeval.default_domain(x, want)) is True


def positive_sin_theta(f):
    """0 < 2 theta < pi on the whole domain: sin(theta) is a positive quantity, so sqrt(sin^2(theta) x) = sin(theta) sqrt(x)"""
    def run(*a, **k):
        from xfabsa.poly import POSITIVE_SCALE_ATOMS, single_atom
        at = single_atom(scalar(N.ref("sin(tw/2)", {"tw": Rat.atom("twoth")})))
        added = at is not None and at not in POSITIVE_SCALE_ATOMS
        if added:
            POSITIVE_SCALE_ATOMS.append(at)
        try:
            return f(*a, **k)
        finally:
            if added:
                POSITIVE_SCALE_ATOMS.remove(at)
    return run


@positive_sin_theta
def analyse_general_like(ctx, mod, short, solver, builder_call, half_angle):
    """find_omega_general / find_omega_quart"""
    fn = mod.func(solver); ctx.saw(mod, fn)
    where = core.loc(mod, fn)
    g = sym_array("g_w", (3,))
    gv = [Rat.atom("g_w[%d]" % i) for i in range(3)]
    tw, wx, wy = Rat.atom("twoth"), Rat.atom("w_x"), Rat.atom("w_y")
    # laue rescales: evaluate on the rescaled vector's own atoms by giving the solver a vector
    # and reading which vector it finally rotates (g_used)
    fn_run, pre = fn, None
    valuepath = False
    if short == "laue":
        # laue = rescaling preamble + the tools body on the rescaled vector; the preamble is decided
        # separately (here and in C14), the body is analysed on a vector of the asserted length
        fn_run, pre = strip_rescale_preamble(fn)
        if pre is None:
            # the rescaling is not a statement of the solver itself (a shared implementation, a helper): by value -- the whole
            # solver runs on a vector of ANY length, and its roots must solve the equation for sin(theta) g/|g|
            valuepath, fn_run = True, fn
        else:
            check_preamble(ctx, mod, short, solver, pre)
    s2, out, orc, ev = two_or_none(ctx, mod, short, solver, fn_run, [g, tw, wx, wy], where)
    omega, eta = as_list(out[0]), as_list(out[1])
    # which vector is rotated: tools g_w itself (asserted length), laue the rescaled one
    gu = gv
    if valuepath:
        gref = N.ref("sin(twoth/2)*g/sqrt(g[0]*g[0]+g[1]*g[1]+g[2]*g[2])", {"g": g, "twoth": tw})
        gref = gref if isinstance(gref, Arr) else materialise(gref)
        gu = [scalar(x_) for x_ in gref.data]
    else:
        # by value: some assertion bounds |g.g - sin^2(twoth/2)| by a small constant
        gg_ = gv[0] * gv[0] + gv[1] * gv[1] + gv[2] * gv[2]
        want_ = func_atom("abs", gg_ - N.ref("sin(tw/2)*sin(tw/2)", {"tw": tw}))
        bands = [t for t in ev.trace if t[0] == "assert-band"]
        ctx.check(any(scalar(q_).equals(want_) and 0 < t_ <= Fraction(1, 1000) for _k, q_, t_ in bands), "C09:length:%s.%s" % (short, solver),
                  "no assertion that |g|^2 = sin^2(twoth/2)", where)
    gg = gu[0] * gu[0] + gu[1] * gu[1] + gu[2] * gu[2]
    # builder at a generic angle
    W = Rat.atom("W")
    Mgen = mat3(builder_call(Evaluator(mod, inline=True), W, wx, wy), "builder")
    rowx = Mgen[0][0] * gu[0] + Mgen[0][1] * gu[1] + Mgen[0][2] * gu[2]
    if half_angle:
        lin = half_angle_form(rowx, "cos(1/2*W)", "sin(1/2*W)")
    else:
        lin = linear_in_trig(rowx, "cos(W)", "sin(W)")
    if lin is None:
        raise AnalysisError("%s: x-row of the builder is not linear in cos/sin of the rotation angle" % solver)
    A, B, C0 = lin
    if len(omega) != 2:
        return
    from xfabsa import angles
    cs = []
    paths = getattr(orc, "paths", None) or [(out, orc, ev)]
    for pk, (outp, orcp, _evp) in enumerate(paths):
        omega_p, eta_p = as_list(outp[0]), as_list(outp[1])
        if len(omega_p) != 2 or len(eta_p) != 2:
            ctx.fail("C09:count:%s.%s:two" % (short, solver), "the number of solutions depends on how an angle is wrapped (%d, %d)"
                     % (len(omega_p), len(eta_p)), where)
            continue
        sfx = "" if pk == 0 else ":wrap%d" % pk
        for i in range(2):
            w_i = scalar(omega_p[i])
            args = arctan2_args(w_i)
            if args is not None:
                s_i, c_i = args
            else:
                # the root in another form (arcsin / arccos / a difference of principal values): its cosine and sine by the
                # addition theorems
                got_cs = angles.cos_sin(w_i)
                if got_cs is None:
                    raise AnalysisError("%s.%s: omega[%d] = %s is not a sum of principal-value angles" % (short, solver, i, N.short(w_i, 80)))
                c_i, s_i = got_cs
            if pk == 0:
                cs.append((c_i, s_i))
            unit = veq(c_i * c_i + s_i * s_i, Rat.const(1), valuepath)
            cond = veq(A * c_i + B * s_i + C0, -gg, valuepath)
            ctx.check(unit and cond, "C09:root:%s.%s[%d]%s" % (short, solver, i, sfx),
                      "with (cos w, sin w) = %s of omega[%d]: on the unit circle: %s ; x-row of M(w).g == -g.g: %s "
                      "(M = the module's own %s)" % ("the arguments" if args is not None else "the cosine and sine", i, unit, cond,
                                                     "quart_to_omega" if half_angle else "form_omega_mat_general"),
                      where, sample={"solver": "%s.%s" % (short, solver), "root": i, "cos_w": N.short(c_i, 160)} if (i, pk) == (0, 0) else None)
            # omega in (-pi, pi]
            if args is not None:
                ctx.ok("C09:range:%s.%s[%d]%s" % (short, solver, i, sfx))
            else:
                inr = angles.in_principal_range(w_i, orcp.passed)
                if inr is True:
                    ctx.ok("C09:range:%s.%s[%d]%s" % (short, solver, i, sfx))
                else:
                    conds = [(orcp.disc, s2)] if orcp.disc is not None else []
                    conds += list(orcp.passed)
                    wit = angles.witness_outside(w_i, conds, solver_points())
                    if wit is None:
                        raise AnalysisError("%s.%s: omega[%d] = %s is not shown to lie in (-pi, pi] (range %s pi) and no sample point "
                                            "leaves it" % (short, solver, i, N.short(w_i, 80), inr[1]))
                    ctx.fail("C09:range:%s.%s[%d]%s" % (short, solver, i, sfx),
                             "omega[%d] = %s leaves (-pi, pi]: it is %.6f at %s (the wrap is one-sided: the principal values only bound "
                             "it to [%s, %s] pi)" % (i, N.short(w_i, 100), wit["value"], sorted(wit["at"].items()),
                                                     inr[1][0] if inr[1] else "?", inr[1][1] if inr[1] else "?"), where)
            # eta
            Mi = mat3(builder_call(Evaluator(mod, inline=True), w_i, wx, wy), "builder")
            gy = Mi[1][0] * gu[0] + Mi[1][1] * gu[1] + Mi[1][2] * gu[2]
            gz = Mi[2][0] * gu[0] + Mi[2][1] * gu[1] + Mi[2][2] * gu[2]
            s2t = N.ref("sin(tw)", {"tw": tw})
            ea = arctan2_args(scalar(eta_p[i]))
            oke = ea is not None and veq(ea[0], -2 * gy / s2t, valuepath) and veq(ea[1], 2 * gz / s2t, valuepath)
            ctx.check(oke, "C09:eta:%s.%s[%d]%s" % (short, solver, i, sfx),
                      "eta[%d] is not arctan2(-2 (M(omega_i) g)_y / sin 2theta, 2 (M(omega_i) g)_z / sin 2theta) with M the module's "
                      "builder at the solver's own omega, tilts and units" % i, where)
    if len(cs) != 2:
        return
    distinct = not (cs[0][0].equals(cs[1][0]) and cs[0][1].equals(cs[1][1]))
    ctx.check(distinct, "C09:count:%s.%s:distinct" % (short, solver), "the two roots are the same expression", where)
    # two-or-none test: the compared difference is a positive multiple of +-(A^2 + B^2 - (gg + C0)^2), two solutions on the
    # side where that discriminant is positive (tangency is outside the claim)
    want = A * A + B * B - (gg + C0) * (gg + C0)
    okd = orc.disc is not None and pos_multiple(orc.disc * s2, want)
    if valuepath:
        ctx.ok("C09:length:%s.%s" % (short, solver))      # decided by the root and eta rules against sin(theta) g/|g|
        if not okd and orc.disc is not None:
            okd = same_sign_everywhere(orc.disc * s2, want)
    ctx.check(okd, "C09:count:%s.%s:discriminant" % (short, solver),
              "the branch test is not `a^2 + b^2 - c^2 < 0` for the equation the roots solve", where)


@positive_sin_theta
def analyse_find_omega(ctx, mod, short):
    solver = "find_omega"
    fn = mod.func(solver); ctx.saw(mod, fn)
    where = core.loc(mod, fn)
    g = sym_array("g_w", (3,))
    gv = [Rat.atom("g_w[%d]" % i) for i in range(3)]
    tw = Rat.atom("twoth")
    results = {}
    fn_run = fn
    valuepath = False
    if short == "laue":
        fn_run, pre = strip_rescale_preamble(fn)
        if pre is not None:
            check_preamble(ctx, mod, short, solver, pre)
        else:
            valuepath, fn_run = True, fn      # (see analyse_general_like: the whole solver, by value)
    results = {}
    for r in (1, -1):
        asked = []

        def later(d, asked=asked, r=r):
            asked.append(d)
            return r
        s2, out, orc, _ev = two_or_none(ctx, mod, short, solver, fn_run, [g, tw], where, pair=False, later=later) if r == 1 \
            else (s2,) + run_solver(mod, fn_run, [g, tw], s2, later)
        results[r] = (as_list(out), list(asked), orc)
    om_pos, asked, orc = results[1]
    om_neg, _a, _o = results[-1]
    if len(om_pos) != 2 or len(om_neg) != 2 or len(asked) != 2:
        ctx.fail("C09:root:%s.find_omega:shape" % short, "expected two arccos results each with a sign test", where)
        return
    # normalised equation: (g0/|g|) cos w - (g1/|g|) sin w = -sin(theta); Rz(w) is the module's form_omega_mat
    M = mat3(Evaluator(mod, inline=True).call_function("form_omega_mat", [Rat.atom("W")]), "form_omega_mat")
    norm = sqrt_of(gv[0] * gv[0] + gv[1] * gv[1] + gv[2] * gv[2])
    rowx = (M[0][0] * gv[0] + M[0][1] * gv[1] + M[0][2] * gv[2]) / norm
    lin = linear_in_trig(rowx, "cos(W)", "sin(W)")
    if lin is None:
        raise AnalysisError("find_omega: x-row of form_omega_mat is not linear in cos/sin")
    A, B, C0 = lin
    C2 = N.ref("cos(tw)", {"tw": tw})
    roots = []
    for i in range(2):
        # omega[i] = +-arccos(c_i), the sign following the sign of the tested quantity (a multiple of sin w_i)
        cands = [(kappa, rr) for kappa in (1, -1) for rr in (1, -1)]
        info = None
        for cand in (scalar(results[1][0][i]), -scalar(results[1][0][i])):
            info = atom_info(cand)
            if info is not None and info[0] == "arccos":
                break
        if info is None or info[0] != "arccos":
            ctx.fail("C09:root:%s.find_omega[%d]" % (short, i), "omega[%d] is not +-arccos(cos w) with the sign of sin w" % i, where)
            return
        c_i = info[1][0]
        acos = N.ref("arccos(x)", {"x": c_i})
        verdict = None
        for kappa in (1, -1):
            s_i = asked[i] * kappa                  # candidate for sin w_i
            unit = veq(c_i * c_i + s_i * s_i, Rat.const(1), valuepath)
            lhs = A * c_i + B * s_i + C0            # must be -sin(theta): negative, square (1 - cos 2theta)/2
            sq = veq(lhs * lhs, (1 - C2) / 2, valuepath)
            negsign = veq(lhs, (C2 - 1) / sqrt_of(2 * (1 - C2)), valuepath)
            # in the run where the tested difference has sign r, sin w_i has sign kappa*r: omega = (kappa*r) * arccos(c_i)
            follows = all(veq(results[r][0][i], acos * (kappa * r), valuepath) for r in (1, -1))
            verdict = (unit, sq, negsign, follows)
            if all(verdict):
                roots.append((c_i, s_i))
                break
        ctx.check(verdict is not None and all(verdict), "C09:root:%s.find_omega[%d]" % (short, i),
                  "root %d: on unit circle %s ; (x-row of Rz(w).g/|g|)^2 == sin^2 theta %s ; equals -(1-cos2t)/sqrt(2(1-cos2t)) %s ; "
                  "omega = sign(sin w) arccos(cos w) %s" % ((i,) + tuple(verdict)), where)
    if len(roots) == 2:
        ctx.check(not (roots[0][0].equals(roots[1][0]) and roots[0][1].equals(roots[1][1])),
                  "C09:count:%s.find_omega:distinct" % short, "the two roots coincide", where)
    okd = orc.disc is not None and pos_multiple(orc.disc * s2, A * A + B * B - (1 - C2) / 2)
    if valuepath and not okd and orc.disc is not None:
        okd = same_sign_everywhere(orc.disc * s2, A * A + B * B - (1 - C2) / 2)
    ctx.check(okd, "C09:count:%s.find_omega:discriminant" % short,
              "the branch test is not `a^2 + b^2 - c^2 > 0`", where)


def analyse_wedge(ctx, mod, short):
    """find_omega_wedge against Ry(-wedge).Rz(omega) (the builder the property names), for unit g"""
    solver = "find_omega_wedge"
    fn = mod.func(solver); ctx.saw(mod, fn)
    where = core.loc(mod, fn)
    g0, g1 = Rat.atom("g_w[0]"), Rat.atom("g_w[1]")
    from xfabsa import poly
    G2 = Rat.atom("g_w[2]")
    # unit vector: g2 is an atom with the relation g2^2 = 1 - g0^2 - g1^2 (either sign)
    poly.set_relation("g_w[2]", 1 - g0 * g0 - g1 * g1)
    try:
        tw, wedge = Rat.atom("twoth"), Rat.atom("wedge")
        garr = Arr([g0, g1, G2])
        s2, out, orc, _ev = two_or_none(ctx, mod, short, solver, fn, [garr, tw, wedge], where)
        omega, eta = as_list(out[0]), as_list(out[1])
        if len(omega) != 2 or len(eta) != 2:
            return
        C, S = RR.cs(tw)
        L = sqrt_of(2 - 2 * C)                # 2 sin(theta) > 0
        sinth, costh = L / 2, S / L
        cw, sw = RR.cs(wedge)
        for i in range(2):
            args = arctan2_args(scalar(omega[i]))
            if args is None:
                ctx.fail("C09:root:%s.%s[%d]" % (short, solver, i), "omega[%d] is not arctan2(sin, cos)" % i, where)
                continue
            so, co = args
            # rotated unit vector under Ry(-wedge) Rz(w), up to the common factor rho^2 = co^2 + so^2
            v0 = g0 * co - g1 * so
            v1 = g0 * so + g1 * co
            rho2 = co * co + so * so
            ce, se = RR.cs(scalar(eta[i]))
            # x: cw*v0/rho - sw*g2 = -sin(theta) ; y: v1/rho = -cos(theta) sin(eta) ; z: sw*v0/rho + cw*g2 = cos(theta) cos(eta)
            # multiply through by rho = sqrt(rho2) without introducing it: compare squares and cross terms
            X = -sinth + sw * G2                    # = cw*v0/rho
            Y = -costh * se                         # = v1/rho
            Z = costh * ce - cw * G2                # = sw*v0/rho
            ok1 = (cw * v0 * Y).equals(X * v1)      # same rho in x and y
            ok2 = (sw * v0 * Y).equals(Z * v1)      # same rho in z and y
            ok3 = (X * X * rho2).equals(cw * cw * v0 * v0)   # rho^2 is the right factor
            # rho > 0: the arguments of arctan2 share the positive factor 1/length (sign not decidable in the algebra):
            # check the weaker structural fact that (so, co) are both divided by the same expression
            ctx.check(ok1 and ok2 and ok3, "C09:root:%s.%s[%d]" % (short, solver, i),
                      "(omega, eta)[%d] do not satisfy Ry(-wedge).Rz(omega).g = (-sin t, -cos t sin eta, cos t cos eta) for unit g: "
                      "x/y consistent %s, z/y consistent %s, scale %s" % (i, ok1, ok2, ok3), where,
                      sample={"solver": "%s.find_omega_wedge" % short, "root": i} if i == 0 else None)
        # the two etas are +-arccos of the same cosine
        e0, e1 = scalar(eta[0]), scalar(eta[1])
        i0 = atom_info(e0)
        ctx.check(i0 is not None and i0[0] == "arccos" and e1.equals(-e0), "C09:eta:%s.%s" % (short, solver),
                  "eta is not (arccos(c), -arccos(c))", where)
        # two solutions exactly on the side 1 - |cos eta| > 0 of the two-or-none test
        okd = orc.disc is not None and i0 is not None and i0[0] == "arccos" and \
            pos_multiple(orc.disc * s2, 1 - func_atom("abs", i0[1][0]))
        ctx.check(okd, "C09:count:%s.%s:discriminant" % (short, solver), "the no-solution test is not |cos eta| > 1", where)
    finally:
        poly.clear_relation("g_w[2]")


def run(ctx):
    from xfabsa import numeric as _N
    _N.alias_rule(ctx, 'C09', ['xfab/tools.py', 'xfab/laue.py'])
    ctx.rule("root", "the returned angles make the x-row of the module's own rotation matrix times g equal -g.g")
    ctx.rule("count", "none for a negative discriminant, two distinct otherwise; the test is that discriminant")
    ctx.rule("eta", "eta from the y,z rows of the module's own builder at the solver's omega, tilts and units")
    ctx.rule("length", "tools asserts |g|^2 = sin^2 theta (laue rescales; checked in C14)")
    ctx.rule("tth", "tth == 2 asin(lambda sintl); tth2 == 2 asin(|g| lambda / (2 tau))")
    for rel, short, two_pi in N.MODULES:
        mod = core.module(rel)
        ctx.saw(mod)
        analyse_general_like(ctx, mod, short, "find_omega_general",
                             lambda ev, w, wx, wy: ev.call_function("form_omega_mat_general", [w, wx, wy]), False)
        analyse_general_like(ctx, mod, short, "find_omega_quart",
                             lambda ev, w, wx, wy: ev.call_function("quart_to_omega", [w * 180 / N.PI, wx, wy]), True)
        analyse_find_omega(ctx, mod, short)
        analyse_wedge(ctx, mod, short)
        # tth / tth2
        fn = mod.func("tth"); ctx.saw(mod, fn)
        uc, hkl, lam = sym_array("unit_cell", (6,)), sym_array("hkl", (3,)), Rat.atom("wavelength")
        calls = []

        def cp(name, args, kwargs, node):
            if name == "sintl":
                calls.append(args)
                return Rat.atom("sintl(unit_cell,hkl)")
            return NotImplemented
        t = scalar(Evaluator(mod, inline=True, call_policy=cp).call_function("tth", [uc, hkl, lam]))
        want = 2 * N.ref("arcsin(x)", {"x": lam * Rat.atom("sintl(unit_cell,hkl)")})
        okargs = len(calls) >= 1 and all(vkey(c_[0]) == vkey(uc) and vkey(c_[1]) == vkey(hkl) for c_ in calls)
        ctx.check(t.equals(want) and okargs, "C09:tth:%s.tth" % short, "tth is not 2*arcsin(wavelength*sintl(unit_cell, hkl)): %s" % N.short(t),
                  core.loc(mod, fn))
        fn = mod.func("tth2"); ctx.saw(mod, fn)
        gve = sym_array("gve", (3,))
        t2 = scalar(Evaluator(mod, inline=True).call_function("tth2", [gve, lam]))
        gvec = [Rat.atom("gve[%d]" % i) for i in range(3)]
        want = 2 * N.ref("arcsin(x)", {"x": sqrt_of(gvec[0] * gvec[0] + gvec[1] * gvec[1] + gvec[2] * gvec[2]) * lam / (2 * N.tau_of(two_pi))})
        ctx.check(t2.equals(want), "C09:tth:%s.tth2" % short, "tth2 is not 2*arcsin(|g|*wavelength/(2 tau)): %s" % N.short(t2),
                  core.loc(mod, fn), sample={"function": "%s.tth2" % short, "normal_form": N.short(t2)})
    ctx.not_decided += ["tangency (discriminant within rounding of zero)", "the end point omega = -pi (signed zero of arctan2)",
                        "floating-point round-off; positivity of the common factor of find_omega_wedge's arctan2 arguments"]
    ctx.assumptions += ["numpy arctan2/arccos return the principal values: omega in [-pi, pi]",
                        "for a cos w + b sin w = c there are exactly two solutions on the circle when a^2+b^2 > c^2"]
    from xfabsa import numeric as _N2
    _N2.hazard_rule(ctx, 'C09')
    return ("For each of the four solvers in both modules the expressions returned for (omega, eta) are substituted into the "
            "module's own rotation-matrix builder (form_omega_mat_general, quart_to_omega, form_omega_mat; Ry(-wedge)Rz for "
            "the wedge solver) and the diffraction condition is verified as an identity of normal forms; the two-or-none "
            "branch and its discriminant test, the eta formula, the length precondition and the tth/tth2 formulas likewise.")
