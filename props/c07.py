"""
C07 -- structure factors transform correctly under the space-group operations.

E3: StructureFactor is evaluated on a symbolic structure (symbolic rotation
parts R_j, translations t_j, positions, anisotropic tensors, hkl) and compared,
as normal forms, with the sum whose terms obey the transformation laws the
property needs: the image position is R x + t (operator on the left of a
column), hkl multiplies from the left, and the anisotropic tensor of the image
atom is R beta R^T.  With these term laws, F(hR') = F(h) exp(-2 pi i h.t') follows
by re-indexing the sum over the group (closed: C04); Friedel's law because every
factor but the phase is even in h.
"""
from props import sfmodel as SF
from xfabsa import core, numeric as N
from xfabsa.core import AnalysisError
from xfabsa.poly import Rat
from xfabsa.symeval import deep_subs


def run(ctx):
    from xfabsa import numeric as _N
    _N.alias_rule(ctx, 'C07', ['xfab/structure.py', 'xfab/sg.py'])
    ctx.rule("law", "F == sum_atoms sum_ops w * exp(-h (R beta R^T) h) * (f+f'+if'') * e^{2 pi i h.(R x + t)} for symbolic R, t")
    ctx.rule("loop", "all nsymop operations and all atoms contribute exactly once (nsymop = 2 and 3; 1 and 2 atoms)")
    ctx.rule("even", "every factor except the phase is even in hkl (Friedel)")
    # the operations StructureFactor sums over are those of the object sg.sg(sgname=...) hands it: they must be the tabulated ones
    from props import sgobject
    sgobject.rule(ctx, "C07", "StructureFactor reads mysg.rot, mysg.trans and mysg.nsymop")
    mod = core.module("xfab/structure.py")
    fn = mod.func("StructureFactor")
    ctx.saw(mod, fn)
    where = core.loc(mod, fn)
    for nsym, natoms in ((2, 1), (3, 1), (2, 2)):
        atoms = [SF.make_atom(str(i + 1), "Uani") for i in range(natoms)]
        (Fr, Fi), log, hkl, ucell = SF.evaluate(mod, atoms, nsym, None)
        Rr, Ri = SF.reference(atoms, nsym, None, "RbRt")
        ok = Fr.equals(Rr) and Fi.equals(Ri)
        msg = ""
        if not ok:
            Wr, Wi = SF.reference(atoms, nsym, None, "RbR")
            if Fr.equals(Wr) and Fi.equals(Wi):
                msg = ("the anisotropic tensor is rotated as R.beta.R, not R.beta.R^T: wrong for every operation whose "
                       "rotation matrix is not symmetric (3-, 4-, 6-fold axes)")
            else:
                msg = "F differs from the sum with image positions R x + t, phase 2 pi h.r and tensor R beta R^T"
        key = "C07:law:anisotropic" if (nsym, natoms) == (2, 1) else "C07:loop:nsymop=%d,atoms=%d" % (nsym, natoms)
        ctx.check(ok, key, msg, where,
                  sample={"nsymop": nsym, "atoms": natoms, "Freal_terms": len(Fr.num)} if (nsym, natoms) == (2, 1) else None)
        # the space group object comes from sg.sg(sgname=<the argument>)
        sgc = [l for l in log if l[0] == "xfab.sg.sg"]
        ctx.check(len(sgc) == 1 and sgc[0][2].get("sgname") == "SGNAME" and not sgc[0][1], "C07:law:group-%d-%d" % (nsym, natoms),
                  "the operations do not come from sg.sg(sgname=sgname)", where)
    # a group with a concrete inversion whose translation part is not zero (origin choice 1 of 25 tabulated groups): F is
    # complex there, F(h) = |F| e^{i pi h.t}; a shortcut for "centrosymmetric, hence real" is wrong
    INV = [[[1, 0, 0], [0, 1, 0], [0, 0, 1]], [[-1, 0, 0], [0, -1, 0], [0, 0, -1]]]
    for adp in ("Uiso", "Uani"):
        atoms = [SF.make_atom("1", adp)]
        (Fr, Fi), log, hkl, ucell = SF.evaluate(mod, atoms, 2, None, rot=INV)
        Rr, Ri = SF.reference(atoms, 2, None, "RbRt", rot=INV)
        ctx.check(Fr.equals(Rr) and Fi.equals(Ri), "C07:law:inversion-off-origin:%s" % adp,
                  "for the group {1, (-1, t)} with t != 0 F differs from the sum over both operations (%s part): an inversion centre "
                  "away from the origin does not make F real" % ("imaginary" if Fr.equals(Rr) else "real"), where)
    # isotropic atom: position law alone
    atoms = [SF.make_atom("1", "Uiso")]
    (Fr, Fi), log, hkl, ucell = SF.evaluate(mod, atoms, 2, None)
    Rr, Ri = SF.reference(atoms, 2, None)
    ctx.check(Fr.equals(Rr) and Fi.equals(Ri), "C07:law:isotropic",
              "F differs from the sum with image positions R x + t and phase 2 pi h.(R x + t)", where)
    # Friedel: h -> -h leaves Freal and flips Fimg (no dispersion)
    neg = {"hkl[%d]" % i: -Rat.atom("hkl[%d]" % i) for i in range(3)}
    atoms = [SF.make_atom("1", "Uani")]
    (Fr, Fi), log, hkl, ucell = SF.evaluate(mod, atoms, 2, None)
    # stl is an opaque atom here (even in h by C01: sintl^2 is a quadratic form)
    ctx.check(deep_subs(Fr, neg).equals(Fr) and deep_subs(Fi, neg).equals(-Fi), "C07:even:friedel",
              "without dispersion F(-h) is not the complex conjugate of F(h)", where)
    ctx.not_decided += ["numeric tolerance (6-digit rounding of tabulated thirds)",
                        "the re-indexing step F(hR') = F(h) e^{-2 pi i h.t'} is the paper consequence of the term laws and C04"]
    ctx.assumptions += ["C04 (the tables are groups)", "C01 (sintl is even in hkl)", "numpy exp, cos, sin, dot"]
    from xfabsa import numeric as _N2
    _N2.hazard_rule(ctx, 'C07')
    return ("StructureFactor evaluated by E3 on symbolic operations, positions, tensors and hkl equals, term for term, the sum "
            "whose terms carry the transformation laws R x + t, h.r and R beta R^T; loops cover every atom and operation; "
            "Friedel symmetry of the normal form.")
