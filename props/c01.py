"""
C01 -- cell parameters, A/B matrices, volume and sin(theta)/lambda share one metric.

Decided with E3 (algebraic value numbering): every entry of the value returned
by form_a_mat / form_b_mat / cell_volume / cell_invert / sintl is brought to
the rational normal form over the atoms a, b, c, cos/sin of the three angles
and W = sqrt(Gram determinant), and compared with the unique closed form of
/verif/refs/cell.py.  By the Cholesky uniqueness lemma that equality is
equivalent to the metric clauses of the property over the reals.
"""
import ast

from refs import cell as R
from xfabsa import core, numeric as N
from xfabsa.core import AnalysisError
from xfabsa.poly import Rat
from xfabsa.symeval import Evaluator, sym_array, Arr, Opaque, scalar, materialise, vkey


def selftest_refs(ctx):
    """checker-side consistency of the references (does not touch the repo)"""
    uc, env = N.cell_env(tau=Rat.atom("tau"))
    env = N.ref_env_with(env, W=R.W)
    env = N.ref_env_with(env, V=R.V)
    A = [[N.ref(e, env) for e in row] for row in R.A]
    B = [[N.ref(e, env) for e in row] for row in R.B]
    G = [[N.ref(e, env) for e in row] for row in R.G]
    GS = [[N.ref(e, env) for e in row] for row in R.GSTAR]
    ok = True
    for i in range(3):
        for j in range(3):
            ata = sum((A[k][i] * A[k][j] for k in range(3)), Rat.const(0))
            ok &= ata.equals(G[i][j])
            btb = sum((B[k][i] * B[k][j] for k in range(3)), Rat.const(0))
            ok &= btb.equals(env["tau"] * env["tau"] * GS[i][j])
            ggs = sum((G[i][k] * GS[k][j] for k in range(3)), Rat.const(0))
            ok &= ggs.equals(1 if i == j else 0)
    detA = A[0][0] * A[1][1] * A[2][2]
    ok &= detA.equals(env["V"])
    if not ok:
        raise AnalysisError("reference closed forms of refs/cell.py are not self-consistent")
    ctx.note("references self-consistent: A'A = G, B'B = tau^2 G*, G G* = I, det A = V (27 identities)")
    return env


def as_matrix(v, what):
    A = v if isinstance(v, Arr) else materialise(v)
    if A is None or A.shape != (3, 3):
        raise AnalysisError("%s does not evaluate to an explicit 3x3 array" % what)
    return A.data


def run(ctx):
    from xfabsa import numeric as _N
    _N.alias_rule(ctx, 'C01', ['xfab/tools.py', 'xfab/laue.py'])
    ctx.rule("shape", "sub-diagonal entries of A and B are the constant 0")
    ctx.rule("ref", "entry of the returned value == unique closed form (normal-form equality)")
    ctx.rule("sign", "diagonal entries are positive in the sign domain under a,b,c,sin(angles),W > 0")
    ctx.rule("inverse", "a_to_cell/b_to_cell pair metric entry g_jk with the angle opposite; form_a_mat_inv is inv(form_a_mat)")
    selftest_refs(ctx)
    for rel, short, two_pi in N.MODULES:
        mod = core.module(rel)
        ctx.saw(mod)
        tau = N.tau_of(two_pi)
        uc, env = N.cell_env(tau=tau)
        env = N.ref_env_with(env, W=R.W)
        env = N.ref_env_with(env, V=R.V)
        pos_atoms = set()
        for nm in ("a", "b", "c", "sa", "sb", "sg", "W"):
            pos_atoms |= env[nm].atoms()
        pos_atoms.add("pi")

        def fresh():
            return Evaluator(mod, inline=True, branch_policy=N.skip_checks_policy, sign_policy=N.domain_sign_policy(pos_atoms))

        # ---- cell_volume
        fn = mod.func("cell_volume"); ctx.saw(mod, fn)
        v = fresh().call_function("cell_volume", [uc])
        ctx.check(N.rat_equal(v, env["V"]), "C01:ref:%s.cell_volume" % short,
                  "cell_volume is not a b c sqrt(1-ca^2-cb^2-cg^2+2 ca cb cg): got %s" % N.short(v),
                  core.loc(mod, fn), sample={"function": "%s.cell_volume" % short, "normal_form": N.short(v)})
        # ---- form_a_mat
        for name, REF in (("form_a_mat", R.A), ("form_b_mat", R.B)):
            fn = mod.func(name); ctx.saw(mod, fn)
            M = as_matrix(fresh().call_function(name, [uc]), "%s.%s" % (short, name))
            for i in range(3):
                for j in range(3):
                    want = N.ref(REF[i][j], env)
                    got = scalar(M[i][j])
                    if i > j:
                        ctx.check(got.is_zero(), "C01:shape:%s.%s[%d,%d]" % (short, name, i, j),
                                  "sub-diagonal entry is %s, not 0" % N.short(got), core.loc(mod, fn))
                    else:
                        ctx.check(got.equals(want), "C01:ref:%s.%s[%d,%d]" % (short, name, i, j),
                                  "entry differs from the unique triangular factor: code %s ; reference %s"
                                  % (N.short(got), N.short(want)), core.loc(mod, fn),
                                  sample={"entry": "%s.%s[%d,%d]" % (short, name, i, j), "normal_form": N.short(got)}
                                  if (i, j) == (1, 2) else None)
                    if i == j:
                        ctx.check(N.positive_under(got, pos_atoms), "C01:sign:%s.%s[%d,%d]" % (short, name, i, i),
                                  "diagonal entry %s is not positive in the sign domain" % N.short(got),
                                  core.loc(mod, fn))
        # ---- cell_invert
        fn = mod.func("cell_invert"); ctx.saw(mod, fn)
        out = fresh().call_function("cell_invert", [uc])
        if not isinstance(out, (list, tuple, Arr)):
            raise AnalysisError("%s.cell_invert does not return a sequence" % short)
        out = out.data if isinstance(out, Arr) else list(out)
        ctx.check(len(out) == 6, "C01:ref:%s.cell_invert:len" % short, "returns %d values" % len(out), core.loc(mod, fn))
        for i in range(min(6, len(out))):
            want = N.ref(R.CELL_INVERT[i], env)
            ctx.check(N.rat_equal(out[i], want), "C01:ref:%s.cell_invert[%d]" % (short, i),
                      "reciprocal cell component %d: code %s ; reference %s" % (i, N.short(scalar(out[i])), N.short(want)),
                      core.loc(mod, fn))
        # ---- sintl
        fn = mod.func("sintl"); ctx.saw(mod, fn)
        hkl = sym_array("hkl", (3,))
        stl = scalar(fresh().call_function("sintl", [uc, hkl]))
        henv = dict(env)
        henv.update({"h": Rat.atom("hkl[0]"), "k": Rat.atom("hkl[1]"), "l": Rat.atom("hkl[2]")})
        want = N.ref(R.SINTL_SQ, henv)
        ctx.check((stl * stl).equals(want), "C01:ref:%s.sintl^2" % short,
                  "sintl^2 differs from h'G*h/4: code %s ; reference %s" % (N.short(stl * stl), N.short(want)),
                  core.loc(mod, fn), sample={"function": "%s.sintl" % short, "squared_normal_form": N.short(stl * stl, 300)})
        # sintl itself is a non-negative root: sqrt(p)/(2 sqrt(q)) -- numerator and denominator are single
        # sqrt atoms with positive coefficients
        def nonneg_root(r):
            for p in (r.num, r.den):
                if len(p) != 1:
                    return False
                (m, c), = p.items()
                from xfabsa.poly import mono_items
                if c <= 0 or any(not (a.startswith("sqrt(") or a in pos_atoms) for a, e in mono_items(m)):
                    return False
            return True
        ctx.check(nonneg_root(stl), "C01:sign:%s.sintl" % short,
                  "sintl is not a quotient of positive multiples of square roots: %s" % N.short(stl), core.loc(mod, fn))
        # ---- a_to_cell
        fn = mod.func("a_to_cell"); ctx.saw(mod, fn)
        X = sym_array("X", (3, 3))
        out = fresh().call_function("a_to_cell", [X])
        out = out.data if isinstance(out, Arr) else list(out)
        genv = {"pi": N.PI}
        for i in range(3):
            for j in range(3):
                genv["g%d%d" % (i, j)] = sum((Rat.atom("X[%d,%d]" % (k, i)) * Rat.atom("X[%d,%d]" % (k, j))
                                              for k in range(3)), Rat.const(0))
        ctx.check(len(out) == 6, "C01:inverse:%s.a_to_cell:len" % short, "returns %d values" % len(out), core.loc(mod, fn))
        for i in range(min(6, len(out))):
            want = N.ref(R.CELL_FROM_COLUMNS[i], genv)
            ctx.check(N.rat_equal(out[i], want), "C01:inverse:%s.a_to_cell[%d]" % (short, i),
                      "cell component %d of a matrix with the lattice vectors as columns: code %s ; reference %s"
                      % (i, N.short(scalar(out[i])), N.short(want)), core.loc(mod, fn))
        # ---- b_to_cell: metric of B/tau read the same way, then cell_invert
        fn = mod.func("b_to_cell"); ctx.saw(mod, fn)
        seen = {}

        def pol(name, args, kwargs, node):
            if name == "cell_invert":
                seen["arg"] = args[0]
                return Opaque("cell_invert(...)", (6,))
            return NotImplemented
        ev = Evaluator(mod, inline=True, call_policy=pol)
        out = ev.call_function("b_to_cell", [X])
        is_ci = isinstance(out, Opaque) and out.base == "cell_invert(...)" and not out.idx
        benv = dict(genv)
        for key in list(benv):
            if key.startswith("g"):
                benv[key] = benv[key] / (tau * tau)
        if not (is_ci and "arg" in seen):
            # the module's cell_invert is not called by that name (one shared implementation behind both public names, say):
            # by value -- b_to_cell(X) against the module's own cell_invert of the reference reciprocal cell
            seen.pop("arg", None)
            refcell = Arr([N.ref(R.CELL_FROM_COLUMNS[i], benv) for i in range(6)])
            try:
                got_ = fresh().call_function("b_to_cell", [X])
                want_ = fresh().call_function("cell_invert", [refcell])
                got_ = got_.data if isinstance(got_, Arr) else list(got_)
                want_ = want_.data if isinstance(want_, Arr) else list(want_)
                is_ci = len(got_) == 6 and len(want_) == 6 and all(N.rat_equal(scalar(a_), scalar(b_)) for a_, b_ in zip(got_, want_))
            except (AnalysisError, TypeError):
                is_ci = False
            ctx.check(is_ci, "C01:inverse:%s.b_to_cell:cell_invert" % short,
                      "b_to_cell(B) is not the module's cell_invert of the cell read from B/tau", core.loc(mod, fn))
        else:
            ctx.check(True, "C01:inverse:%s.b_to_cell:cell_invert" % short, "", core.loc(mod, fn))
        if "arg" in seen:
            arg = seen["arg"]
            arg = arg.data if isinstance(arg, Arr) else list(arg)
            for i in range(min(6, len(arg))):
                want = N.ref(R.CELL_FROM_COLUMNS[i], benv)
                ctx.check(N.rat_equal(arg[i], want), "C01:inverse:%s.b_to_cell[%d]" % (short, i),
                          "reciprocal cell component %d from B/tau: code %s ; reference %s"
                          % (i, N.short(scalar(arg[i])), N.short(want)), core.loc(mod, fn))
        # ---- form_a_mat_inv: its value times form_a_mat(cell) is the identity, however it is computed (inv(), a closed form)
        fn = mod.func("form_a_mat_inv"); ctx.saw(mod, fn)
        from xfabsa import numeval
        Ainv = Evaluator(mod, inline=True, sign_policy=N.domain_sign_policy(pos_atoms)).call_function("form_a_mat_inv", [uc])
        Afull = Evaluator(mod, inline=True, sign_policy=N.domain_sign_policy(pos_atoms)).call_function("form_a_mat", [uc])
        Ainv = Ainv if isinstance(Ainv, Arr) else materialise(Ainv)
        Afull = Afull if isinstance(Afull, Arr) else materialise(Afull)
        if Ainv is None or Afull is None or Ainv.shape != (3, 3) or Afull.shape != (3, 3):
            raise AnalysisError("%s.form_a_mat_inv / form_a_mat do not evaluate to explicit 3x3 matrices" % short)
        domain = {"%s[%d]" % (uc.base, i): ((3, 12) if i < 3 else (70, 110)) for i in range(6)}
        bad = None
        for i in range(3):
            for j in range(3):
                p = sum((scalar(Ainv.data[i][k]) * scalar(Afull.data[k][j]) for k in range(3)), Rat.const(0))
                r = numeval.decide_equal(p, Rat.const(1 if i == j else 0), domain)
                if r is not True and bad is None:
                    bad = (i, j, N.short(p, 120), r[1])
        ctx.check(bad is None, "C01:inverse:%s.form_a_mat_inv" % short,
                  "form_a_mat_inv(cell) . form_a_mat(cell) is not the identity: entry (%s, %s) is %s (e.g. %s at the cell %s)"
                  % ((bad[0], bad[1], bad[2], "%.6g" % bad[3]["left"], sorted(bad[3]["at"].items())) if bad else ("", "", "", "", "")), core.loc(mod, fn))
        # ---- special values: numbers the code looks up in a table of constants (closed-form trigonometry at 30, 45, ... degrees):
        # the generic cell above is none of them; each tabulated value is replayed on the cell entry it was looked up for and
        # must give what the general formulas give there
        from xfabsa.objeval import NUMERIC_CASES
        from xfabsa.symeval import deep_subs
        cases = []
        for keytxt, consts in list(NUMERIC_CASES):
            for i in range(6):
                if keytxt == Rat.atom("%s[%d]" % (uc.base, i)).key():
                    cases += [(i, c_) for c_ in consts if (i, c_) not in cases]
        ctx.rule("special", "a cell entry equal to a constant the code tabulates gives the value of the general formula at that entry")
        hkl_s = sym_array("hkl", (3,))
        for slot, const in cases:
            atom = "%s[%d]" % (uc.base, slot)
            ucs = materialise(uc)
            ucs.data[slot] = Rat.const(const)
            badf = []
            for fname, extra in (("cell_volume", []), ("form_a_mat", []), ("form_b_mat", []), ("cell_invert", []), ("sintl", [hkl_s]), ("form_a_mat_inv", [])):
                gen = fresh().call_function(fname, [uc] + extra)
                spe = fresh().call_function(fname, [ucs.copy()] + extra)

                def flat_(v_):
                    A_ = v_ if isinstance(v_, Arr) else materialise(v_) if isinstance(v_, (list, tuple, Opaque)) else None
                    return [scalar(x_) for x_ in A_.flat()] if A_ is not None else [scalar(v_)]
                g_, s_ = flat_(gen), flat_(spe)
                if len(g_) != len(s_) or not all(N.rat_equal(y_, deep_subs(x_, {atom: Rat.const(const)})) for x_, y_ in zip(g_, s_)):
                    badf.append(fname)
            ctx.check(not badf, "C01:special:%s:%s=%s" % (short, atom, const),
                      "with %s = %s (a value the code treats specially) %s differ from their general formulas evaluated at that value"
                      % (atom, const, ", ".join(badf)), core.loc(mod, mod.func(badf[0])) if badf else mod.rel)
    ctx.not_decided += ["floating-point error of the round trips (arccos near +-1, inv of an ill-conditioned A)",
                        "the conditioning bound (Gram determinant >= 0.02) is not turned into an error bound"]
    ctx.assumptions += ["numpy's cos, sin, sqrt, arccos, dot, transpose, linalg.inv compute what their names say",
                        "a, b, c > 0, angles in (0, 180) deg (so sin > 0), Gram determinant > 0 (so W > 0)"]
    from xfabsa import numeric as _N2
    _N2.hazard_rule(ctx, 'C01')
    return ("E3 normal-form equality of every entry of form_a_mat, form_b_mat, cell_volume, cell_invert and sintl^2 "
            "with the unique closed forms (Cholesky factor of G resp. tau^2 G^-1; Int. Tab. B reciprocal cell), in "
            "both modules; triangular zeros; positive diagonal in the sign domain; inverse maps read the metric "
            "entries with the right pairing. Equality of normal forms is equality of functions over the reals, so "
            "this decides the metric clauses of C01 for every cell, not a sample.")
