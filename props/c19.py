"""
C19 -- parameter sets survive save/load and stay consistent under any call sequence.

Per-method effect summaries (which attributes of self a method reads / writes)
and small shape rules decide that the object is a dictionary model over ONE
store (self.parameters); the file format is decided as writer/reader agreement;
the load-time coercion by enumerating the paths of dumbtypecheck.  By induction
over the call sequence these per-call facts give the history statement.
"""
import ast

from xfabsa import core
from xfabsa.core import AnalysisError

STORE = "parameters"
VALUE_GETTERS = {"get": set(), "get_parameters": set(), "get_variable_values": {"varylist"},
                 "saveparameters": set(), "update_other": set()}
VALUE_WRITERS = ("addpar", "set", "set_parameters", "set_variable_values", "update_yourself", "loadparameters", "dumbtypecheck")


def self_attr(node):
    if isinstance(node, ast.Attribute) and isinstance(node.value, ast.Name) and node.value.id == "self":
        return node.attr
    return None


def effects(fn):
    """-> (reads, writes): attributes of self read / written (rebinding, element store, mutating method call)"""
    reads, writes = set(), set()
    for node in ast.walk(fn):
        a = self_attr(node)
        if a is not None:
            if isinstance(node.ctx, ast.Store):
                writes.add(a)
            else:
                reads.add(a)
        if isinstance(node, (ast.Assign, ast.AugAssign)):
            for t in (node.targets if isinstance(node, ast.Assign) else [node.target]):
                if isinstance(t, ast.Subscript):
                    b = self_attr(t.value)
                    if b is not None:
                        writes.add(b)
        if isinstance(node, ast.Call) and isinstance(node.func, ast.Attribute):
            b = self_attr(node.func.value)
            if b is not None and node.func.attr in ("update", "append", "pop", "clear", "setdefault", "remove", "extend", "sort", "insert"):
                writes.add(b)
            if isinstance(node.func.value, ast.Name) and node.func.value.id == "self" and node.func.attr not in ("parameters",):
                # call of another method: its effects are added by the caller of effects() through the call graph
                pass
    return reads, writes


def method_calls(fn):
    return {n.func.attr for n in ast.walk(fn) if isinstance(n, ast.Call) and isinstance(n.func, ast.Attribute)
            and isinstance(n.func.value, ast.Name) and n.func.value.id == "self"}


def txt(node):
    return core.unparse(node).replace(" ", "").replace('"', "'")


def run(ctx):
    ctx.rule("store", "value getters read values only from self.parameters; every value mutator writes self.parameters")
    ctx.rule("shape", "get/set/get_parameters/set_parameters/addpar/update_* have the dictionary-model shape")
    ctx.rule("vary", "varied values follow self.varylist order in getter and setter; set_varylist asserts membership then stores")
    ctx.rule("file", "writer '%s %s\\n' and reader split(' ') agree on separator and arity; hyphen -> underscore; type check after load")
    ctx.rule("coerce", "dumbtypecheck: only str touched; float first (else stripped string), then int (else the float), int iff equal")
    mod = core.module("xfab/parameters.py")
    ctx.saw(mod)
    cls = "parameters"
    k = mod.klass(cls)
    meths = {n.name: n for n in k.body if isinstance(n, ast.FunctionDef)}
    need = set(VALUE_GETTERS) | set(VALUE_WRITERS) | {"__init__", "set_varylist"}
    missing = need - set(meths)
    if missing:
        raise AnalysisError("anchor vanished: methods %s of parameters.parameters" % sorted(missing))
    for m in meths.values():
        ctx.saw(mod, "parameters." + m.name)
    eff = {n: effects(f) for n, f in meths.items()}
    # transitive through self-method calls
    for _ in range(4):
        for n, f in meths.items():
            for c in method_calls(f):
                if c in eff:
                    eff[n] = (eff[n][0] | eff[c][0], eff[n][1] | eff[c][1])
    for g, extra in VALUE_GETTERS.items():
        r, w = effects(meths[g])
        other = r - {STORE} - extra
        ctx.check(STORE in r and not other and not w, "C19:store:getter:%s" % g,
                  "%s reads %s and writes %s: values must come from self.%s only (a getter that reads another attribute goes "
                  "stale after set())" % (g, sorted(r), sorted(w), STORE), core.loc(mod, meths[g]),
                  sample={"method": g, "reads": sorted(r), "writes": sorted(w)})
    for wname in VALUE_WRITERS:
        r, w = eff[wname]
        ctx.check(STORE in w, "C19:store:writer:%s" % wname,
                  "%s does not write self.%s (writes %s)" % (wname, STORE, sorted(w)), core.loc(mod, meths[wname]))
    # nobody else rebinds the store
    rebinders = [n for n, f in meths.items() for x in ast.walk(f)
                 if self_attr(x) == STORE and isinstance(x.ctx, ast.Store)]
    ctx.check(sorted(set(rebinders)) == ["__init__"], "C19:store:single-binding",
              "self.%s is rebound in %s (only __init__ may bind it)" % (STORE, sorted(set(rebinders))), core.loc(mod, k))
    # ---- shapes
    def body(n):
        return core.body_wo_doc(meths[n])

    def arg(n, i):
        return meths[n].args.args[i].arg
    b = body("get")
    ok = len(b) == 1 and isinstance(b[0], ast.Return) and txt(b[0].value) == "self.parameters[%s]" % arg("get", 1)
    ctx.check(ok, "C19:shape:get", "get(name) does not return self.parameters[name]", core.loc(mod, meths["get"]))
    b = body("set")
    ok = len(b) == 1 and txt(b[0]) == "self.parameters[%s]=%s" % (arg("set", 1), arg("set", 2))
    ctx.check(ok, "C19:shape:set", "set(name, value) does not store value at self.parameters[name]", core.loc(mod, meths["set"]))
    b = body("get_parameters")
    ctx.check(len(b) == 1 and isinstance(b[0], ast.Return) and txt(b[0].value) == "self.parameters", "C19:shape:get_parameters",
              "get_parameters does not return the store", core.loc(mod, meths["get_parameters"]))
    b = body("set_parameters")
    ok = [txt(s) for s in b] == ["self.parameters.update(%s)" % arg("set_parameters", 1), "self.dumbtypecheck()"]
    ctx.check(ok, "C19:shape:set_parameters", "set_parameters is not update(d) followed by dumbtypecheck()", core.loc(mod, meths["set_parameters"]))
    a = txt(ast.Module(body=body("addpar"), type_ignores=[]))
    p = arg("addpar", 1)
    ctx.check(("self.parameters[%s.name]=%s.value" % (p, p)) in a, "C19:shape:addpar",
              "addpar does not store par.value at self.parameters[par.name]", core.loc(mod, meths["addpar"]))
    b = body("__init__")
    ctx.check(any(txt(s) == "self.parameters=%s" % meths["__init__"].args.kwarg.arg for s in b if meths["__init__"].args.kwarg),
              "C19:shape:__init__", "__init__ does not bind the store to its keyword arguments", core.loc(mod, meths["__init__"]))
    # update_yourself / update_other
    uy = txt(ast.Module(body=body("update_yourself"), type_ignores=[]))
    o = arg("update_yourself", 1)
    ok = ("fork,vinlist(self.parameters.items()):" in uy and "ifhasattr(%s,k):" % o in uy and "var=getattr(%s,k)" % o in uy
          and "self.parameters[k]=var" in uy)
    ctx.check(ok, "C19:shape:update_yourself", "update_yourself does not copy getattr(other, k) into the store for the keys other has",
              core.loc(mod, meths["update_yourself"]))
    uo = txt(ast.Module(body=body("update_other"), type_ignores=[]))
    o = arg("update_other", 1)
    ok = ("fork,vinlist(self.parameters.items()):" in uo and "ifhasattr(%s,k):" % o in uo and "setattr(%s,k,v)" % o in uo)
    ctx.check(ok, "C19:shape:update_other", "update_other does not setattr(other, k, v) from the store for the keys other has",
              core.loc(mod, meths["update_other"]))
    # ---- vary list
    b = body("get_variable_values")
    ok = len(b) == 1 and isinstance(b[0], ast.Return) and isinstance(b[0].value, ast.ListComp) \
        and txt(b[0].value) == "[self.parameters[name]fornameinself.varylist]"
    ctx.check(ok, "C19:vary:get_variable_values", "get_variable_values is not [self.parameters[name] for name in self.varylist]",
              core.loc(mod, meths["get_variable_values"]))
    sv = [txt(s) for s in body("set_variable_values")]
    v = arg("set_variable_values", 1)
    ok = len(sv) == 2 and sv[0] == "assertlen(%s)==len(self.varylist)" % v and \
        sv[1].replace("\n", "").replace("    ", "") == "forname,valueinzip(self.varylist,%s):self.parameters[name]=value" % v
    ctx.check(ok, "C19:vary:set_variable_values",
              "set_variable_values is not: assert equal lengths; for name, value in zip(self.varylist, values): store", core.loc(mod, meths["set_variable_values"]))
    svl = meths["set_varylist"]
    vl = arg("set_varylist", 1)
    stores = [s for s in ast.walk(svl) if isinstance(s, ast.Assign) and self_attr(s.targets[0]) == "varylist"]
    asserts = [txt(s.test) for s in ast.walk(svl) if isinstance(s, ast.Assert)]
    last = core.body_wo_doc(svl)[-1]
    ok = len(stores) == 1 and txt(stores[0].value) == vl and last is stores[0] and \
        any("inself.variable_list" in a_ for a_ in asserts) and any("inks" in a_ or "inself.parameters" in a_ for a_ in asserts)
    ctx.check(ok, "C19:vary:set_varylist",
              "set_varylist does not assert that every name is a known, variable parameter and then store the list", core.loc(mod, svl))
    # ---- file format
    sp = txt(ast.Module(body=body("saveparameters"), type_ignores=[]))
    ok_w = ("f.write('%s%s\\n'%(key,str(self.parameters[key])))" in sp.replace("%s %s", "%s%s") and "'%s %s\\n'" in core.unparse(meths["saveparameters"]).replace('"', "'"))
    ok_keys = "keys=list(self.parameters.keys())" in sp and "forkeyinkeys:" in sp
    ctx.check(ok_w and ok_keys, "C19:file:writer", "saveparameters does not write '<key> <str(value)>\\n' for every key of the store",
              core.loc(mod, meths["saveparameters"]), sample={"writer": "'%s %s\\n' % (key, str(value))", "reader": "[name, value] = line.split(' ')"})
    lp = txt(ast.Module(body=body("loadparameters"), type_ignores=[]))
    ok_r = ("[name,value]=line.split('')" in lp or "name,value=line.split('')" in lp) and "name=name.replace('-','_')" in lp \
        and "self.parameters[name]=value" in lp
    # separator is exactly one blank on both sides (txt() strips blanks: look at the raw source)
    raw = core.unparse(meths["loadparameters"]).replace('"', "'")
    ok_sep = "line.split(' ')" in raw
    ok_tc = body("loadparameters")[-1] and txt(body("loadparameters")[-1]) == "self.dumbtypecheck()"
    ctx.check(ok_r and ok_sep and ok_tc, "C19:file:reader",
              "loadparameters does not split each line at the single blank into exactly (name, value), replace '-' by '_' in the name, "
              "store into self.parameters and finish with dumbtypecheck()", core.loc(mod, meths["loadparameters"]))
    exc = [h for n_ in ast.walk(meths["loadparameters"]) if isinstance(n_, ast.Try) for h in n_.handlers]
    ctx.check(len(exc) == 1 and getattr(exc[0].type, "id", "") == "ValueError", "C19:file:bad-lines",
              "malformed lines are not skipped by catching the unpacking ValueError", core.loc(mod, meths["loadparameters"]))
    # ---- coercion paths of dumbtypecheck
    dt = meths["dumbtypecheck"]
    loop = [s for s in core.body_wo_doc(dt) if isinstance(s, ast.For)]
    if len(loop) != 1 or txt(loop[0].iter) != "list(self.parameters.items())":
        raise AnalysisError("dumbtypecheck: loop over list(self.parameters.items()) not found")
    nm, vl_ = [e.id for e in loop[0].target.elts]
    scenarios = {
        "non-string": dict(isstr=False),
        "not-a-number": dict(isstr=True, float_ok=False),
        "float-only": dict(isstr=True, float_ok=True, int_ok=False),
        "integer": dict(isstr=True, float_ok=True, int_ok=True, equal=True),
        "integer-unequal": dict(isstr=True, float_ok=True, int_ok=True, equal=False),
    }
    expected = {"non-string": vl_, "not-a-number": "strip(%s)" % vl_, "float-only": "float(%s)" % vl_,
                "integer": "int(%s)" % vl_, "integer-unequal": "float(%s)" % vl_}

    class Done(Exception):
        pass

    def walk(stmts, sc, env, out):
        for st in stmts:
            if isinstance(st, ast.If):
                t = txt(st.test)
                if t in ("type(%s)==type('string')" % vl_, "isinstance(%s,str)" % vl_):
                    walk(st.body if sc["isstr"] else st.orelse, sc, env, out)
                elif t.startswith("abs(") and "<" in t:
                    # abs(vi - vf) < eps
                    walk(st.body if sc["equal"] else st.orelse, sc, env, out)
                else:
                    raise AnalysisError("dumbtypecheck: unrecognised test `%s`" % core.unparse(st.test))
            elif isinstance(st, ast.Try):
                call = st.body[0] if len(st.body) == 1 and isinstance(st.body[0], ast.Assign) else None
                if call is None or not isinstance(call.value, ast.Call) or getattr(call.value.func, "id", "") not in ("float", "int") \
                        or txt(call.value.args[0]) != vl_:
                    raise AnalysisError("dumbtypecheck: unrecognised try block")
                which = call.value.func.id
                okk = sc.get(which + "_ok")
                handler_ok = len(st.handlers) == 1 and getattr(st.handlers[0].type, "id", "") == "ValueError"
                if not handler_ok:
                    raise AnalysisError("dumbtypecheck: conversion failure is not caught as ValueError")
                order.append(which)
                if okk:
                    env[call.targets[0].id] = "%s(%s)" % (which, vl_)
                else:
                    walk(st.handlers[0].body, sc, env, out)
            elif isinstance(st, ast.Assign) and txt(st.targets[0]) == "self.parameters[%s]" % nm:
                v = st.value
                tv = txt(v)
                if tv in ("%s.lstrip().rstrip()" % vl_, "%s.strip()" % vl_, "%s.rstrip().lstrip()" % vl_):
                    out.append("strip(%s)" % vl_)
                elif isinstance(v, ast.Name):
                    out.append(env.get(v.id, v.id))
                else:
                    out.append(tv)
            elif isinstance(st, ast.Continue):
                raise Done()
            elif isinstance(st, ast.Expr) and isinstance(st.value, ast.Constant):
                continue
            else:
                raise AnalysisError("dumbtypecheck: unexpected statement `%s`" % core.unparse(st)[:50])
    for name, sc in scenarios.items():
        out, env, order = [], {}, []
        try:
            walk(loop[0].body, sc, env, out)
        except Done:
            pass
        ok = out == [expected[name]]
        if sc.get("isstr") and ok and len(order) >= 1:
            ok = order[0] == "float"
        ctx.check(ok, "C19:coerce:%s" % name,
                  "for a %s value the store receives %s, expected %s (conversion order %s)" % (name, out, expected[name], order),
                  core.loc(mod, dt), sample={"case": name, "stored": out})
    ctx.not_decided += ["arbitrary histories as such: decided through per-method effect summaries and shapes, which give the "
                        "dictionary model by induction over the call sequence",
                        "float -> str -> float is bit exact (language guarantee of repr); values containing blanks are outside the format"]
    ctx.assumptions += ["Python dict/list semantics; str(float) == repr(float)"]
    return ("parameters.parameters decided as a dictionary model over one store: effect summaries of every getter and mutator, "
            "shapes of the accessors, varylist order in getter and setter, writer/reader agreement of the file format with the "
            "hyphen rule and the post-load type check, and the five coercion paths of dumbtypecheck.")
