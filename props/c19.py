"""
C19 -- parameter sets survive save/load and stay consistent under any call sequence.

E7 (xfabsa/objeval.py): the class is *evaluated* on small generic models -- a store with a few generic keys whose
values are symbolic (a float, an int, a blank-free word, an arbitrary object), files as line buffers of symbolic text.
  store     every mutator followed by every getter: the getter shows the value the mutator wrote and the untouched keys
            keep theirs (by induction over the call sequence: one store, the dictionary model)
  vary      varied values follow the order given to set_varylist, in getter and setter; the assertions reject unknown /
            non-variable names and a wrong number of values
  file      writer format `name value\\n`; reader on hand-written lines (hyphen rule, malformed lines skipped);
            save -> load round trip per kind of value through the abstract semantics of str/float/int
  coerce    dumbtypecheck per kind of stored value
No method body is matched against a template: a method may be restructured freely as long as E7 can evaluate it.
"""
import ast

from xfabsa import core
from xfabsa.core import AnalysisError
from xfabsa.poly import Rat, func_atom
from xfabsa.symeval import Obj, RaiseReached
from xfabsa.objeval import ObjEvaluator, FileSystem, PyRaise, Sym, SStr, Text, num_atom, okey, exc_name_of

NODE = ast.Constant(value=0)
NODE.lineno = 0
GETTERS = ("get", "get_parameters", "get_variable_values", "saveparameters", "update_other")
MUTATORS = ("set", "set_parameters", "addpar", "set_variable_values", "update_yourself", "loadparameters")


HARVEST = []


TRUTH_ASKED = []


class World:
    """one evaluator + file system + helpers to drive the class"""

    def __init__(self, mod):
        self.mod = mod
        self.ev = ObjEvaluator(mod, max_depth=10)
        self.ev.literals_met = HARVEST          # constants the code distinguishes an unknown word from (shared by all worlds)
        # the truth value of a stored number (`number or text`, `if value:`): the generic number is not zero; that the question was
        # asked is recorded, and the zero class gets its own scenarios (C19:coerce:zero-*)
        self.ev.number_truth_policy = lambda r, node: (TRUTH_ASKED.append(getattr(node, "lineno", 0)), True)[1]
        self.fs = FileSystem(self.ev)

    def new(self, **kw):
        return self.ev.instantiate("parameters", [], dict(kw), NODE)

    def par(self, name, value, **kw):
        return self.ev.instantiate("par", [name, value], dict(kw), NODE)

    def call(self, obj, meth, *args, **kw):
        fn = self.ev.find_method(obj, meth)
        if fn is None:
            raise AnalysisError("anchor vanished: method %s of parameters.parameters" % meth)
        return self.ev.call_bound(fn, obj, list(args), dict(kw), NODE)

    def outcome(self, obj, meth, *args):
        try:
            return "ok", self.call(obj, meth, *args)
        except (PyRaise, RaiseReached) as e:
            return "raise", exc_name_of(e)

    def other(self, **attrs):
        return self.ev.new_obj("other", None, **attrs)


def store_of(p):
    s = p.attrs.get("parameters")
    if not isinstance(s, dict):
        raise AnalysisError("parameters.parameters is not a dictionary after construction")
    return s


def same(a, b):
    return okey(a) == okey(b)


def varied(w, names_values, order):
    """object with can_vary parameters added in the given order and varylist set to `order`"""
    p = w.new()
    for nm, v in names_values:
        w.call(p, "addpar", w.par(nm, v, can_vary=True))
    w.call(p, "set_varylist", list(order))
    return p


def run(ctx):
    ctx.rule("store", "every mutator followed by every getter: one store, untouched keys keep their values (E7 evaluation)")
    ctx.rule("shape", "get/set/get_parameters/addpar/update_* on the generic two-key model")
    ctx.rule("vary", "varied values follow the order given to set_varylist in getter and setter; assertions reject bad lists")
    ctx.rule("file", "writer 'name value\\n'; reader on hand-written lines (hyphen -> underscore, malformed lines skipped); save/load round trip per kind")
    ctx.rule("coerce", "dumbtypecheck per kind: non-strings untouched, words stripped, float text -> float, int text -> int")
    mod = core.module("xfab/parameters.py")
    ctx.saw(mod)
    k = mod.klass("parameters")
    mod.klass("par")
    meths = {n.name: n for n in k.body if isinstance(n, ast.FunctionDef)}
    need = set(GETTERS) | set(MUTATORS) | {"__init__", "set_varylist", "dumbtypecheck"}
    missing = need - set(meths)
    if missing:
        raise AnalysisError("anchor vanished: methods %s of parameters.parameters" % sorted(missing))
    for m in meths.values():
        ctx.saw(mod, "parameters." + m.name)

    def where(name):
        return core.loc(mod, meths[name])
    va, vb = num_atom("va", "float"), Sym("wb", "word")
    v2 = num_atom("v2", "float")
    # ---- construction, get / set / get_parameters
    w = World(mod)
    p = w.new(ka=va, kb=vb)
    st = store_of(p)
    ctx.check(set(st) == {"ka", "kb"} and same(st["ka"], va) and same(st["kb"], vb), "C19:shape:__init__",
              "__init__ does not bind the store to its keyword arguments: %s" % okey(st), where("__init__"))
    ctx.check(same(w.call(p, "get", "ka"), va) and same(w.call(p, "get", "kb"), vb), "C19:shape:get",
              "get(name) does not return the stored value", where("get"))
    ctx.check(w.outcome(p, "get", "nokey") == ("raise", "KeyError"), "C19:shape:get:missing",
              "get of an unknown name does not raise KeyError like a dictionary", where("get"))
    w.call(p, "set", "ka", v2)
    ctx.check(same(store_of(p)["ka"], v2) and same(store_of(p)["kb"], vb), "C19:shape:set",
              "set(name, value) does not store value under name leaving the other names alone", where("set"))
    gp = w.call(p, "get_parameters")
    ctx.check(isinstance(gp, dict) and same(gp, store_of(p)), "C19:shape:get_parameters", "get_parameters does not return the store",
              where("get_parameters"))
    # ---- every mutator, then every getter
    def apply_mutator(w, p, m):
        """write v2 under ka (kb must keep vb); -> the value expected under ka afterwards"""
        if m == "set":
            w.call(p, "set", "ka", v2)
        elif m == "set_parameters":
            w.call(p, "set_parameters", {"ka": v2})
        elif m == "addpar":
            w.call(p, "addpar", w.par("ka", v2))
        elif m == "set_variable_values":
            w.call(p, "set_variable_values", [v2])
        elif m == "update_yourself":
            w.call(p, "update_yourself", w.other(ka=v2))
        elif m == "loadparameters":
            w.fs.files["in.par"] = [SStr(["ka", " ", Text("v2"), "\n"]).simplify()]
            w.call(p, "loadparameters", "in.par")
        return v2

    def read_getter(w, p, g):
        """-> the value the getter shows for ka"""
        if g == "get":
            return w.call(p, "get", "ka")
        if g == "get_parameters":
            return w.call(p, "get_parameters")["ka"]
        if g == "get_variable_values":
            out = w.call(p, "get_variable_values")
            return out[0] if isinstance(out, (list, tuple)) and len(out) == 1 else out
        if g == "update_other":
            o = w.other(ka=Sym("stale", "other"))
            w.call(p, "update_other", o)
            return o.attrs["ka"]
        if g == "saveparameters":
            w.call(p, "saveparameters", "out.par")
            for line in w.fs.files.get("out.par", []):
                parts = line.parts if isinstance(line, SStr) else [line]
                if parts and isinstance(parts[0], str) and parts[0].startswith("ka "):
                    return SStr(parts[1:] if parts[0] == "ka " else [parts[0][3:]] + parts[1:]).simplify()
            return None
    getter_bad = {g: [] for g in GETTERS}
    for m in MUTATORS:
        for g in GETTERS:
            w = World(mod)
            p = varied(w, [("ka", va), ("kb", vb)], ["ka"])
            try:
                want = apply_mutator(w, p, m)
                kept = same(store_of(p).get("kb"), vb)
                wrote = same(store_of(p).get("ka"), want)
                got = read_getter(w, p, g)
            except (PyRaise, RaiseReached) as e:
                ctx.fail("C19:store:writer:%s" % m, "%s followed by %s raises %s on the generic model" % (m, g, exc_name_of(e)), where(m))
                continue
            if g == GETTERS[0]:
                ctx.check(wrote, "C19:store:writer:%s" % m, "%s does not write the new value into self.parameters (store: %s)"
                          % (m, okey(store_of(p))), where(m))
                ctx.check(kept, "C19:store:single-binding" if m == "set_parameters" else "C19:store:keeps:%s" % m,
                          "%s loses or changes a parameter it was not asked to change (store afterwards: %s)" % (m, okey(store_of(p))), where(m))
            expect = SStr([Text("v2"), "\n"]).simplify() if g == "saveparameters" else want
            if not same(got, expect):
                getter_bad[g].append("%s (shows %s)" % (m, okey(got)))
    for g in GETTERS:
        ctx.check(not getter_bad[g], "C19:store:getter:%s" % g,
                  "%s does not show the value last written by %s: values must come from self.parameters only (a getter that reads "
                  "another attribute goes stale)" % (g, ", ".join(getter_bad[g][:3])), where(g),
                  sample={"getter": g, "mutators": list(MUTATORS)} if g == "get_variable_values" else None)
    # ---- addpar / update_*
    w = World(mod)
    p = w.new(ka=va)
    w.call(p, "addpar", w.par("kc", v2))
    ctx.check(same(store_of(p).get("kc"), v2) and same(store_of(p).get("ka"), va), "C19:shape:addpar",
              "addpar does not store par.value at self.parameters[par.name]", where("addpar"))
    w = World(mod)
    p = w.new(ka=va, kb=vb)
    o = w.other(ka=v2, unrelated=Sym("u", "other"))
    w.call(p, "update_yourself", o)
    stt = store_of(p)
    ctx.check(same(stt.get("ka"), v2) and same(stt.get("kb"), vb) and set(stt) == {"ka", "kb"}, "C19:shape:update_yourself",
              "update_yourself does not copy getattr(other, k) into the store for exactly the keys other has: %s" % okey(stt),
              where("update_yourself"))
    w = World(mod)
    p = w.new(ka=va, kb=vb)
    o = w.other(ka=Sym("old", "other"), unrelated=Sym("u", "other"))
    w.call(p, "update_other", o)
    ctx.check(same(o.attrs.get("ka"), va) and "kb" not in o.attrs and same(o.attrs.get("unrelated"), Sym("u", "other"))
              and same(store_of(p), {"ka": va, "kb": vb}), "C19:shape:update_other",
              "update_other does not setattr(other, k, v) from the store for exactly the keys other already has: %s" % okey(o.attrs),
              where("update_other"))
    # ---- vary list
    x1, x2 = num_atom("x1", "float"), num_atom("x2", "float")
    for order in (["kb", "ka"], ["ka", "kb"]):
        w = World(mod)
        p = varied(w, [("ka", va), ("kb", vb)], order)
        tag = "" if order[0] == "kb" else ":addition-order"
        ctx.check(isinstance(p.attrs.get("varylist"), (list, tuple)) and list(p.attrs["varylist"]) == order, "C19:vary:set_varylist" + tag,
                  "after set_varylist(%s) the vary list is %s" % (order, p.attrs.get("varylist")), where("set_varylist"))
        got = w.call(p, "get_variable_values")
        want = [{"ka": va, "kb": vb}[n_] for n_ in order]
        ctx.check(isinstance(got, (list, tuple)) and len(got) == 2 and all(same(a, b) for a, b in zip(got, want)),
                  "C19:vary:get_variable_values" + tag, "get_variable_values is not [self.parameters[name] for name in the order given "
                  "to set_varylist]: %s for %s" % (okey(got), order), where("get_variable_values"))
        w.call(p, "set_variable_values", [x1, x2])
        stt = store_of(p)
        ctx.check(same(stt.get(order[0]), x1) and same(stt.get(order[1]), x2), "C19:vary:set_variable_values" + tag,
                  "set_variable_values does not store the values under the names in vary-list order: %s for %s" % (okey(stt), order),
                  where("set_variable_values"))
    w = World(mod)
    p = varied(w, [("ka", va)], ["ka"])
    w.call(p, "addpar", w.par("kfixed", vb))
    res = [w.outcome(p, "set_varylist", ["nokey"]), w.outcome(p, "set_varylist", ["kfixed"]), w.outcome(p, "set_variable_values", [x1, x2])]
    ctx.check(all(r == ("raise", "AssertionError") for r in res), "C19:vary:asserts",
              "an unknown name, a name that cannot vary, or a wrong number of values is not rejected by an assertion: %s" % res,
              where("set_varylist"))
    # ---- file format: writer
    vi, ww = num_atom("vi", "int"), Sym("ww", "word")
    w = World(mod)
    p = w.new(ka=va, kb=vi, kc=ww, kd="")
    w.call(p, "saveparameters", "out.par")
    lines = sorted(okey(l_) for l_ in w.fs.files.get("out.par", []))
    want = sorted(okey(SStr([k_, " ", t_, "\n"]).simplify()) for k_, t_ in (("ka", Text("va")), ("kb", Text("vi")), ("kc", ww), ("kd", "")))
    closed = ("close", "out.par", "w") in w.fs.events
    ctx.check(lines == want and closed, "C19:file:writer", "saveparameters does not write '<key> <str(value)>\\n' for every key of the "
              "store and close the file: %s" % lines, where("saveparameters"),
              sample={"writer": "'%s %s\\n' % (key, str(value))", "lines": lines[:2]})
    # ---- reader on hand-written lines
    w = World(mod)
    p = w.new(keep=va)
    w.fs.files["in.par"] = ["ka 1.5\n", "k-e 2\n", "garbage\n", "a b c\n", "kw word\n", "\n"]
    kind, exc = w.outcome(p, "loadparameters", "in.par")
    stt = store_of(p)
    ok_names = kind == "ok" and set(stt) == {"keep", "ka", "k_e", "kw"}
    ctx.check(ok_names, "C19:file:reader", "loadparameters does not split each line at the single blank into exactly (name, value), "
              "replace '-' by '_' in the name and store into self.parameters (outcome %s, names %s)" % ((kind, exc), sorted(stt)),
              where("loadparameters"), sample={"lines": w.fs.files["in.par"], "names": sorted(stt)})
    ctx.check(kind == "ok" and "garbage" not in stt and "a" not in stt, "C19:file:bad-lines",
              "malformed lines are not skipped (outcome %s)" % ((kind, exc),), where("loadparameters"))
    if ok_names:
        okv = same(stt["ka"], Rat.const(3) / 2) and same(stt["k_e"], Rat.const(2)) and same(stt["kw"], "word") and same(stt["keep"], va)
        ctx.check(okv, "C19:file:reader:values", "values read from the file are not type-checked after loading: %s" % okey(stt),
                  where("loadparameters"))
    # ---- save -> load round trip per kind of value
    vbig = num_atom("vbig", "bigint")        # an int beyond 2**53: float(vbig) is another number, int - float coerces the int
    for label, val in (("float", va), ("int", vi), ("big-int", vbig), ("word", ww), ("empty-string", "")):
        w = World(mod)
        p = w.new(kx=val, ky=va)
        w.call(p, "saveparameters", "rt.par")
        q = w.new()
        kind, exc = w.outcome(q, "loadparameters", "rt.par")
        stt = store_of(q)
        ctx.check(kind == "ok" and set(stt) == {"kx", "ky"} and same(stt["kx"], val) and same(stt["ky"], va), "C19:file:roundtrip:%s" % label,
                  "a %s value does not survive saveparameters -> loadparameters: wrote %s, read back %s"
                  % (label, [okey(l_) for l_ in w.fs.files.get("rt.par", [])], okey(stt)), where("loadparameters"),
                  sample={"kind": label, "file": [okey(l_) for l_ in w.fs.files.get("rt.par", [])]} if label == "int" else None)
    # ---- dumbtypecheck per kind
    cases = {
        "non-string": (va, va), "object": (Sym("o", "other"), Sym("o", "other")),
        "not-a-number": (SStr(["  ", ww, " \n"]), ww), "float-only": (SStr([" ", Text("va"), "\n"]), va),
        "integer": (SStr([Text("vi"), "\n"]), vi), "big-integer": (SStr([Text("vbig"), "\n"]), vbig), "word": (ww, ww),
    }
    for name, (val, want) in cases.items():
        w = World(mod)
        p = w.new(kx=val, ky=va)
        kind, exc = w.outcome(p, "dumbtypecheck")
        stt = store_of(p)
        ctx.check(kind == "ok" and same(stt.get("kx"), want) and same(stt.get("ky"), va), "C19:coerce:%s" % name,
                  "for a %s value the store receives %s, expected %s (outcome %s)" % (name, okey(stt.get("kx")), okey(want), (kind, exc)),
                  where("dumbtypecheck"), sample={"case": name, "stored": okey(stt.get("kx"))})
    # ---- the zero class: wherever the code takes the truth value of a number, zero is a case of its own
    if TRUTH_ASKED:
        for name, (val, want) in {"zero-float": (SStr(["0.0", "\n"]), Rat.const(0)), "zero-int": (SStr(["0", "\n"]), Rat.const(0)),
                                  "zero-negative": (SStr(["-0.0", "\n"]), Rat.const(0)), "zero-number": (Rat.const(0), Rat.const(0))}.items():
            w = World(mod)
            p = w.new(kx=val, ky=va)
            kind, exc = w.outcome(p, "dumbtypecheck")
            stt = store_of(p)
            got = stt.get("kx")
            ctx.check(kind == "ok" and isinstance(got, Rat) and same(got, want) and same(stt.get("ky"), va), "C19:coerce:%s" % name,
                      "the code takes the truth value of a number (line %s): for the value %s the store receives %s, expected the number 0 (outcome %s)"
                      % (sorted(set(TRUTH_ASKED))[:3], okey(val), okey(got), (kind, exc)), where("dumbtypecheck"))
    # ---- the words the code itself singles out (keys of a look-up table, members of a tuple it tests a value against): the
    # generic word above is none of them, so each gets its own scenario -- as a value it is still a blank-free non-numeric
    # string and must be stored, written and read back unchanged
    ctx.rule("special", "every constant the code distinguishes a stored word from behaves like any other word (store, coercion, save/load)")
    def is_plain_word(t):
        if not t or t != t.strip() or any(ch.isspace() for ch in t):
            return False
        for conv in (int, float):
            try:
                conv(t)
                return False
            except ValueError:
                pass
        return True
    specials = [t for t in list(HARVEST) if isinstance(t, str) and is_plain_word(t)]
    for t in specials:
        bad = []
        w = World(mod)
        p = w.new(kx=t, ky=va)
        kind, exc = w.outcome(p, "dumbtypecheck")
        if kind != "ok" or not same(store_of(p).get("kx"), t):
            bad.append("dumbtypecheck stores %s" % okey(store_of(p).get("kx")))
        w = World(mod)
        p = w.new()
        kind, exc = w.outcome(p, "set_parameters", {"kx": t})
        got = w.outcome(p, "get", "kx") if kind == "ok" else (kind, exc)
        if got[0] != "ok" or not same(got[1], t):
            bad.append("set_parameters then get gives %s" % okey(got[1] if got[0] == "ok" else got))
        w = World(mod)
        p = w.new(kx=t, ky=va)
        w.call(p, "saveparameters", "sp.par")
        q = w.new()
        kind, exc = w.outcome(q, "loadparameters", "sp.par")
        if kind != "ok" or not same(store_of(q).get("kx"), t):
            bad.append("saveparameters -> loadparameters gives %s" % okey(store_of(q).get("kx")))
        ctx.check(not bad, "C19:special:%s" % t,
                  "the string value %r is singled out by the code and does not behave like any other blank-free non-numeric string: %s" % (t, "; ".join(bad)),
                  where("dumbtypecheck"))
    ctx.not_decided += ["arbitrary histories as such: decided through all (mutator, getter) pairs on the generic model, which give the "
                        "dictionary model by induction over the call sequence",
                        "float -> str -> float is bit exact (language guarantee of repr); values containing blanks are outside the format"]
    ctx.assumptions += ["Python dict/list semantics; float(repr(x)) == x; int(str(i)) == i; int() rejects the text of a float",
                        "the code treats names uniformly: the generic names ka, kb, ... stand for any names"]
    return ("parameters.parameters evaluated by E7 on generic models: construction, all %d x %d (mutator, getter) pairs with preservation of "
            "untouched names, vary-list order in getter and setter with its assertions, writer format, reader on hand-written lines "
            "(hyphen rule, malformed lines), save/load round trips per kind of value and the coercion of dumbtypecheck per kind."
            % (len(MUTATORS), len(GETTERS)))
