"""
C18 -- reduce_cell returns a primitive cell of the same lattice.

Data-flow and layout rules (E2-style kinds decided with E3 where an expression is
straight-line):
  vectors   every candidate is dot(a_mat, [i,j,k]) with a_mat = form_a_mat(unit_cell): an integer
            combination of the input basis (columns of A are the lattice vectors: C01); the list is
            sorted by length and the zero vector is skipped
  guards    the second / third pick are guarded by a positive cross-product / distance threshold
            (non-collinear, non-coplanar => determinant != 0)
  layout    the three picked vectors are stored as ROWS or COLUMNS of the matrix handed to
            a_to_cell, and a_to_cell (decided by E3 on its own body) reads lattice vectors from
            the same layout
"""
import ast

from xfabsa import core, numeric as N
from xfabsa.core import AnalysisError
from xfabsa.poly import Rat
from xfabsa.symeval import Evaluator, sym_array, Arr, Opaque, scalar, materialise


def a_to_cell_layout(mod):
    """'cols' if a_to_cell(X)[0] is the length of column 0 of X, 'rows' if of row 0"""
    X = sym_array("X", (3, 3))
    out = Evaluator(mod, inline=True).call_function("a_to_cell", [X])
    out = out.data if isinstance(out, Arr) else list(out)
    a = scalar(out[0])
    col = N.ref("sqrt(a*a+b*b+c*c)", {"a": Rat.atom("X[0,0]"), "b": Rat.atom("X[1,0]"), "c": Rat.atom("X[2,0]")})
    row = N.ref("sqrt(a*a+b*b+c*c)", {"a": Rat.atom("X[0,0]"), "b": Rat.atom("X[0,1]"), "c": Rat.atom("X[0,2]")})
    if a.equals(col):
        return "cols"
    if a.equals(row):
        return "rows"
    raise AnalysisError("a_to_cell: first result is neither the length of column 0 nor of row 0")


def run(ctx):
    ctx.rule("vectors", "candidates are dot(form_a_mat(cell), [i,j,k]); sorted by norm; zero vector skipped")
    ctx.rule("guards", "second and third pick guarded by positive thresholds on |cross| and on the distance to the plane")
    ctx.rule("layout", "layout in which the picked vectors are stored == layout a_to_cell reads")
    for rel, short, two_pi in N.MODULES:
        mod = core.module(rel)
        fn = mod.func("reduce_cell")
        ctx.saw(mod, fn)
        where = core.loc(mod, fn)
        npn = "|".join(mod.np_alias)
        body = core.body_wo_doc(fn)
        src = {i: core.unparse(s).replace(" ", "") for i, s in enumerate(body)}
        # names
        amat = None
        for s in body:
            if isinstance(s, ast.Assign) and isinstance(s.value, ast.Call) and getattr(s.value.func, "id", "") == "form_a_mat" \
                    and isinstance(s.value.args[0], ast.Name) and s.value.args[0].id == fn.args.args[0].arg:
                amat = s.targets[0].id
        if amat is None:
            raise AnalysisError("%s.reduce_cell: a_mat = form_a_mat(unit_cell) not found" % short)
        # candidate vectors: every dot(...) in the function is dot(a_mat, <integer triple or row slice of res>)
        dots = [n_ for n_ in ast.walk(fn) if isinstance(n_, ast.Call) and isinstance(n_.func, ast.Attribute)
                and n_.func.attr == "dot" and isinstance(n_.func.value, ast.Name) and n_.func.value.id in mod.np_alias]
        lattice_dots = [d for d in dots if isinstance(d.args[0], ast.Name) and d.args[0].id == amat]
        other = [d for d in dots if d not in lattice_dots]
        ok_vec = len(lattice_dots) >= 4 and all(
            core.unparse(d.args[1]).replace(" ", "") in ("%s.array([i,j,k])" % a for a in mod.np_alias)
            or ":3]" in core.unparse(d.args[1]).replace(" ", "") for d in lattice_dots)
        # the other dot is the plane distance dot(kryds, tmp)
        ctx.check(ok_vec and len(other) <= 1, "C18:vectors:%s.combination" % short,
                  "lattice vectors are not all formed as dot(a_mat, integer triple): %s"
                  % [core.unparse(d)[:40] for d in dots], where, sample={"dots": [core.unparse(d) for d in lattice_dots[:2]]})
        # enumeration range (recorded) and res rows [i,j,k,norm]
        rng = [core.unparse(n_.iter).replace(" ", "") for n_ in ast.walk(fn) if isinstance(n_, ast.For) and "arange" in core.unparse(n_.iter)]
        ctx.extra.setdefault("search_ranges", {})[short] = rng
        # rows [i, j, k, |A.(i,j,k)|]: the fourth entry is norm(<the candidate vector>) directly or through a local name
        ok_rows = False
        for st_, b_ in core.find_stmt("M_res = NP.concatenate((M_res, [[M_i, M_j, M_k, X_len]]))", fn, {}, mod.np_alias):
            lenexpr = st_.value.args[0].elts[1].elts[0].elts[3]
            if isinstance(lenexpr, ast.Name):
                defs = [a_ for a_ in ast.walk(fn) if isinstance(a_, ast.Assign) and isinstance(a_.targets[0], ast.Name)
                        and a_.targets[0].id == lenexpr.id]
                lenexpr = defs[-1].value if len(defs) == 1 else None
            if lenexpr is not None and core.match_expr("NP.linalg.norm(M_v)", lenexpr, {}, mod.np_alias):
                vname = lenexpr.args[0].id
                vdefs = [a_ for a_ in ast.walk(fn) if isinstance(a_, ast.Assign) and isinstance(a_.targets[0], ast.Name)
                         and a_.targets[0].id == vname and a_.lineno < st_.lineno]
                ok_rows = bool(vdefs) and core.match_expr("NP.dot(%s, NP.array([%s, %s, %s]))" % (amat, b_["M_i"], b_["M_j"], b_["M_k"]),
                                                          vdefs[-1].value, {}, mod.np_alias) is not None
        ctx.check(ok_rows and len(rng) == 3 and len(set(rng)) == 1, "C18:vectors:%s.enumeration" % short,
                  "candidates are not enumerated as rows [i, j, k, |A.(i,j,k)|] over one integer range in each index (%s)" % rng, where)
        # coverage of the promised search range |u|,|v|,|w| <= 2 with the default uvw: every triple must reach the append
        loops = [n_ for n_ in ast.walk(fn) if isinstance(n_, ast.For) and "arange" in core.unparse(n_.iter)]
        inner = [l_ for l_ in loops if not any(isinstance(x_, ast.For) for x_ in ast.walk(l_) if x_ is not l_)]
        uvw_name = fn.args.args[1].arg if len(fn.args.args) > 1 else None
        uvw_def = ast.literal_eval(fn.args.defaults[0]) if fn.args.defaults else None
        dropped = []
        cover_ok = False
        if len(loops) == 3 and len(inner) == 1 and uvw_def is not None:
            def bounds(it):
                a_ = it.args
                env_ = {uvw_name: Rat.const(uvw_def)}
                vals = [scalar(Evaluator(mod, inline=set()).eval(x_, env_)).const_value() for x_ in a_]
                return range(int(vals[0]), int(vals[1])) if len(vals) == 2 else range(int(vals[0]))
            try:
                rngs = {l_.target.id: bounds(l_.iter) for l_ in loops}
            except Exception:
                raise AnalysisError("%s.reduce_cell: enumeration ranges are not arange(<int expr of uvw>)" % short)
            cover_ok = all(set(range(-2, 3)) <= set(r_) for r_ in rngs.values())
            names = [l_.target.id for l_ in loops]

            rounding = []

            def real_filter(st_, env_):
                """a filter on real-valued quantities: is it a comparison of two mathematically EQUAL quantities for a unit
                triple (then rounding decides whether a basis vector of the input survives)?"""
                from xfabsa.poly import POSITIVE_SCALE_ATOMS
                t_ = st_.test
                if not (isinstance(t_, ast.Compare) and len(t_.ops) == 1 and isinstance(t_.ops[0], (ast.Lt, ast.LtE, ast.Gt, ast.GtE))):
                    return False
                uc_ = sym_array(fn.args.args[0].arg, (6,))
                edges = ["%s[%d]" % (fn.args.args[0].arg, q_) for q_ in range(3)]
                for a_ in edges:
                    if a_ not in POSITIVE_SCALE_ATOMS:
                        POSITIVE_SCALE_ATOMS.append(a_)
                try:
                    hit = False
                    for axis in range(3):
                        e_ = Evaluator(mod, inline=True)
                        loc_ = {fn.args.args[0].arg: uc_, uvw_name: Rat.const(uvw_def)}
                        for nm_, v_ in zip(names, [1 if q_ == axis else 0 for q_ in range(3)]):
                            loc_[nm_] = Rat.const(v_)
                        # run the statements of the function that precede the loops (a_mat, bounds) and of the loop body before the filter
                        for pre in core.body_wo_doc(fn):
                            if isinstance(pre, ast.For):
                                break
                            try:
                                e_.exec_stmt(pre, loc_)
                            except AnalysisError:
                                pass
                        for pre in inner[0].body:
                            if pre is st_:
                                break
                            e_.exec_stmt(pre, loc_)
                        l_ = scalar(e_.eval(t_.left, loc_))
                        r_ = e_.eval(t_.comparators[0], loc_)
                        rk = r_.key() if hasattr(r_, "key") else str(r_)
                        for a_ in edges:
                            if l_.equals(Rat.atom(a_)) and a_.split("[")[0] in rk and "max" in rk:
                                hit = True
                            if hasattr(r_, "equals") and isinstance(r_, Rat) and l_.equals(r_):
                                hit = True
                    return hit
                finally:
                    for a_ in edges:
                        if a_ in POSITIVE_SCALE_ATOMS:
                            POSITIVE_SCALE_ATOMS.remove(a_)

            def reaches_append(stmts, env_):
                for st_ in stmts:
                    if isinstance(st_, ast.If):
                        try:
                            t_ = Evaluator(mod, inline=set()).eval(st_.test, env_)
                        except AnalysisError:
                            t_ = None
                        if not isinstance(t_, bool):
                            if real_filter(st_, env_):
                                rounding.append(core.unparse(st_.test))
                                return False
                            raise AnalysisError("%s.reduce_cell: enumeration filter `%s` does not fold on integers" % (short, core.unparse(st_.test)))
                        r_ = reaches_append(st_.body if t_ else st_.orelse, env_)
                        if r_ is not None:
                            return r_
                    elif isinstance(st_, ast.Continue):
                        return False
                    elif isinstance(st_, ast.Assign) and "concatenate" in core.unparse(st_.value) and st_.targets[0].id == "res":
                        return True
                return None
            import itertools
            for trip in itertools.product(range(-2, 3), repeat=3):
                env_ = {nm_: Rat.const(v_) for nm_, v_ in zip(names, trip)}
                env_[uvw_name] = Rat.const(uvw_def)
                if reaches_append(inner[0].body, env_) is not True:
                    dropped.append(trip)
        if cover_ok and rounding:
            ctx.fail("C18:vectors:%s.coverage" % short,
                     "candidates are pruned by `%s`, which for the input's own basis vectors compares two mathematically equal "
                     "quantities (|A.e_k| and the cell edge it was computed from) without tolerance: rounding decides whether a vector "
                     "of the reduced basis is dropped" % rounding[0], where)
        else:
          ctx.check(cover_ok and not dropped, "C18:vectors:%s.coverage" % short,
                  "the enumeration does not visit every index triple with |u|,|v|,|w| <= 2 for the default search range: "
                  "dropped %d of 125, e.g. %s" % (len(dropped), dropped[:3]), where,
                  sample={"triples_checked": 125, "dropped": len(dropped)})
        srt = [s for s in src.values() if "argsort(res[:,3])" in s and s.startswith("res=res[")]
        ctx.check(len(srt) == 1, "C18:vectors:%s.sorted" % short, "the candidate list is not sorted by its length column", where)
        # stores into the reduced matrix
        red = None
        stores = []
        for n_ in ast.walk(fn):
            if isinstance(n_, ast.Assign) and isinstance(n_.targets[0], ast.Subscript) and isinstance(n_.targets[0].value, ast.Name):
                nm = n_.targets[0].value.id
                sl = core.unparse(n_.targets[0].slice).replace(" ", "")
                if nm == "res":
                    continue
                red = red or nm
                if nm == red:
                    if sl in ("0", "1", "2"):
                        stores.append(("rows", int(sl), n_))
                    elif sl in (":,0", ":,1", ":,2"):
                        stores.append(("cols", int(sl[-1]), n_))
                    else:
                        raise AnalysisError("%s.reduce_cell: store `%s` of unrecognised layout" % (short, core.unparse(n_.targets[0])))
        if red is None or sorted(s[1] for s in stores) != [0, 1, 2]:
            raise AnalysisError("%s.reduce_cell: the three stores into the reduced matrix were not found" % short)
        kinds = {s[0] for s in stores}
        if len(kinds) != 1:
            raise AnalysisError("%s.reduce_cell: mixed row/column stores" % short)
        stored = kinds.pop()
        # first pick skips the zero vector: index 1 of the sorted list
        first = [s for s in stores if s[1] == 0][0][2]
        ctx.check("res[1,:3]" in core.unparse(first.value).replace(" ", ""), "C18:vectors:%s.first" % short,
                  "the first vector is not the shortest non-zero candidate (res[1])", core.loc(mod, first))
        # guards
        ifs = [n_ for n_ in ast.walk(fn) if isinstance(n_, ast.If)]
        thr = []
        for n_ in ifs:
            t = n_.test
            if isinstance(t, ast.Compare) and len(t.ops) == 1 and isinstance(t.ops[0], ast.Gt) \
                    and isinstance(t.comparators[0], ast.Constant):
                has_store = any(isinstance(x, ast.Assign) and isinstance(x.targets[0], ast.Subscript)
                                and getattr(x.targets[0].value, "id", "") == red for x in n_.body)
                has_break = any(isinstance(x, ast.Break) for x in n_.body)
                if has_store and has_break:
                    thr.append((core.unparse(t.left).replace(" ", ""), float(t.comparators[0].value)))
        okg = len(thr) == 2 and all(v > 0 for _l, v in thr) and any("cross" in l or "kryds" in l for l, _v in thr) \
            and any("dist" in l for l, _v in thr)
        ctx.check(okg, "C18:guards:%s" % short,
                  "second/third pick are not guarded by positive thresholds on |cross product| and plane distance: %s" % thr, where)
        # layout
        ret = [n_ for n_ in ast.walk(fn) if isinstance(n_, ast.Return)]
        if len(ret) != 1 or not (isinstance(ret[0].value, ast.Call) and getattr(ret[0].value.func, "id", "") == "a_to_cell"):
            raise AnalysisError("%s.reduce_cell: does not return a_to_cell(...)" % short)
        arg = ret[0].value.args[0]
        passed = None
        if isinstance(arg, ast.Name) and arg.id == red:
            passed = stored
        else:
            txt = core.unparse(arg).replace(" ", "")
            if txt in ("%s.T" % red, "%s.transpose()" % red) or any(txt == "%s.transpose(%s)" % (a, red) for a in mod.np_alias):
                passed = "cols" if stored == "rows" else "rows"
        if passed is None:
            raise AnalysisError("%s.reduce_cell: argument of a_to_cell `%s` not understood" % (short, core.unparse(arg)))
        want = a_to_cell_layout(mod)
        ctx.check(passed == want, "C18:layout:%s.reduce_cell:a_to_cell(%s)" % (short, passed),
                  "the reduced lattice vectors are the %s of the matrix handed to a_to_cell, which computes the metric X'X of a "
                  "matrix whose %s are the lattice vectors: the result has the right volume but is the cell of a different lattice"
                  % (passed.upper(), want.upper()), core.loc(mod, ret[0]),
                  sample={"stored_as": stored, "passed_as": passed, "a_to_cell_reads": want})
    ctx.not_decided += ["whether the search range contains the reduced basis of a given cell (real-valued)",
                        "that the three shortest independent vectors form a basis is the paper step"]
    ctx.assumptions += ["C01: columns of form_a_mat are the lattice vectors; a_to_cell as analysed there"]
    return ("reduce_cell decided by data-flow: candidates are integer combinations A.(i,j,k) sorted by length, picks are guarded "
            "by positive collinearity/coplanarity thresholds, and the layout (rows/columns) in which the picked vectors reach "
            "a_to_cell is compared with the layout a_to_cell's own body reads (E3).")
