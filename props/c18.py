"""
C18 -- reduce_cell returns a primitive cell of the same lattice.

reduce_cell is *evaluated* abstractly (E7 with three summaries for its data-dependent parts):
  enumeration  the candidate table is built concretely over the integer indices with A = form_a_mat(cell) symbolic; a length
               |v| is a tagged atom that remembers v
  sort         indexing the table with argsort(<its length column>) yields a *sorted table*: row r is the symbolic integer
               triple S[r,0..2], known to be one of the enumerated rows, lengths ascending
  picks        a loop over the sorted table with a data-dependent guard is summarised as "first index at which the guard
               holds": one iteration is run with the guard false (it must leave no trace) and one with the guard true on a
               symbolic index (it must store and break)
Decided on the resulting normal forms:
  vectors      every table row is [i, j, k, |A.(i,j,k)|]; all index triples with |u|,|v|,|w| <= 2 are present; the three picks
               are A.S[1], A.S[i*], A.S[j*] (S[0] is the zero vector), the second search starts no later than the first hit
  guards       the picks are guarded by |cross(v_i, v_0)| > positive and (cross(v_i, v_0) . v_j)/|cross| > positive
  layout       the picked vectors are the ROWS or COLUMNS of the matrix handed to a_to_cell, whose own body (E3) reads lattice
               vectors from the same layout
"""
import ast
import itertools
from fractions import Fraction

from xfabsa import core, numeric as N
from xfabsa.core import AnalysisError
from xfabsa.poly import Rat, func_atom, single_atom, POSITIVE_SCALE_ATOMS
from xfabsa.symeval import Evaluator, sym_array, Arr, Opaque, scalar, materialise, const_int, _Break, _Continue, _Return, RaiseReached
from xfabsa.objeval import ObjEvaluator


def a_to_cell_layout(mod):
    """'cols' if a_to_cell(X)[0] is the length of column 0 of X, 'rows' if of row 0"""
    X = sym_array("X", (3, 3))
    out = Evaluator(mod, inline=True).call_function("a_to_cell", [X])
    out = out.data if isinstance(out, Arr) else list(out)
    a = scalar(out[0])
    col = N.ref("sqrt(a*a+b*b+c*c)", {"a": Rat.atom("X[0,0]"), "b": Rat.atom("X[1,0]"), "c": Rat.atom("X[2,0]")})
    row = N.ref("sqrt(a*a+b*b+c*c)", {"a": Rat.atom("X[0,0]"), "b": Rat.atom("X[0,1]"), "c": Rat.atom("X[0,2]")})
    if a.equals(col):
        return "cols"
    if a.equals(row):
        return "rows"
    raise AnalysisError("a_to_cell: first result is neither the length of column 0 nor of row 0")


class Perm:
    """argsort(keys): an unknown permutation that makes keys ascending"""

    def __init__(self, keys):
        self.keys = keys


class SortedTable:
    """rows of `source` reordered so that `keys` ascend (keys[r] belongs to source row r; `col` is the column of the table
    the keys are, or None when they are a separate vector); entries of row r are the atoms S[r,c]"""

    def __init__(self, source, col, keys=None):
        self.source = source          # list of rows (lists of Rat)
        self.col = col
        self.keys = keys if keys is not None else [r[col] for r in source]
        self.n = len(source)
        self.width = len(source[0]) if source else 0

    def row(self, r):
        tag = str(r) if isinstance(r, int) else r
        return [Rat.atom("S[%s,%d]" % (tag, c)) for c in range(self.width)]


class TableView:
    """columns lo:hi of a sorted table (all rows)"""

    def __init__(self, base, lo, hi):
        self.base, self.lo, self.hi = base, lo, hi
        self.n = base.n

    def row(self, r):
        return self.base.row(r)[self.lo:self.hi]


class MappedTable:
    """the rows of a sorted table (or of a view of it) multiplied by a constant matrix: row r is view.row(r) . M"""

    def __init__(self, view, M):
        self.view, self.M = view, M
        self.n = view.n

    def row(self, r):
        v = self.view.row(r)
        if len(v) != len(self.M):
            raise AnalysisError("reduce_cell: product of table rows of width %d with a matrix of %d rows" % (len(v), len(self.M)))
        return [sum((v[c] * self.M[c][k] for c in range(len(v))), Rat.const(0)) for k in range(len(self.M[0]))]


class RoundingFilter(Exception):
    def __init__(self, text, node):
        Exception.__init__(self, text)
        self.node = node


class LazySeq:
    """a generator expression over the rows of the sorted table (or over another such expression) that has not been consumed:
    `next()` of it is a search -- the first row at which its filters hold"""

    def __init__(self, node, env, source):
        self.node, self.env, self.source = node, env, source     # source: ("range", start) | ("rows", table, start) | LazySeq


class ReduceEval(ObjEvaluator):
    def __init__(self, mod, cell):
        ObjEvaluator.__init__(self, mod, inline=set(), call_policy=self.cpol, max_depth=8)
        self.cell = cell
        self.A = sym_array("A", (3, 3))
        self.norm_of = {}            # tag atom -> vector
        self.phase = "enumerate"
        self.table = None
        self.mode = None             # "miss" / "hit" inside a summarised loop
        self.guards = []             # (loop number, quantity, operator, literal, node) met in hit mode
        self.loops = []              # dict per summarised loop
        self.handed = None           # (snapshot of the argument of a_to_cell)
        self.form_calls = []
        self.filter_seen = None
        self.lu_values = []          # values obtained from an LU-based routine (linalg.det): not exact even on integer input

    # ---- callees
    def cpol(self, name, args, kwargs, node):
        if name == "form_a_mat":
            self.form_calls.append(args)
            return self.A
        if name == "a_to_cell":
            A = args[0] if isinstance(args[0], Arr) else materialise(args[0])
            if A is None or A.shape != (3, 3):
                raise AnalysisError("reduce_cell: argument of a_to_cell is not an explicit 3x3 array")
            self.handed = [[scalar(x) for x in row] for row in A.data]
            return Opaque("a_to_cell(reduced)", (6,))
        return NotImplemented

    # ---- numpy hooks
    def _np_call(self, name, args, kwargs, node):
        if name == "linalg.norm" and len(args) == 1 and not kwargs:
            V = args[0] if isinstance(args[0], Arr) else materialise(args[0])
            if V is not None and len(V.shape) == 1:
                vec = [scalar(x) for x in V.data]
                for tag, v in self.norm_of.items():
                    if len(v) == len(vec) and all(a.equals(b) for a, b in zip(v, vec)):
                        return Rat.atom(tag)
                tag = "norm#%d" % len(self.norm_of)
                self.norm_of[tag] = vec
                return Rat.atom(tag)
        if name == "linalg.norm" and len(args) == 1 and set(kwargs) == {"axis"} and const_int(kwargs["axis"]) in (1, -1):
            V = args[0] if isinstance(args[0], Arr) else materialise(args[0])
            if V is not None and len(V.shape) == 2:
                return Arr([self._np_call("linalg.norm", [Arr(list(r))], {}, node) for r in V.data])
        if name == "dot" and len(args) == 2 and isinstance(args[0], (SortedTable, TableView, MappedTable)):
            M = args[1] if isinstance(args[1], Arr) else materialise(args[1])
            if M is None or len(M.shape) != 2:
                raise AnalysisError("reduce_cell: product of the sorted table with something else than an explicit matrix (line %d)" % node.lineno)
            view = args[0] if not isinstance(args[0], SortedTable) else TableView(args[0], 0, args[0].width)
            if isinstance(view, MappedTable):
                raise AnalysisError("reduce_cell: repeated product of the sorted table (line %d)" % node.lineno)
            return MappedTable(view, [[scalar(x) for x in r] for r in M.data])
        if name == "any" and len(args) == 1 and not kwargs and self.phase == "picking" and self.mode in ("hit", "miss"):
            V = args[0] if isinstance(args[0], Arr) else materialise(args[0]) if isinstance(args[0], (list, tuple, Opaque)) else None
            if V is not None and V.flat() and not any(isinstance(x, bool) for x in V.flat()) \
                    and not all(scalar(x).is_const() for x in V.flat()):
                # "some entry is not zero": the guard |x_1| + ... + |x_n| > 0
                q = Rat.const(0)
                for x in V.flat():
                    q = q + func_atom("abs", scalar(x))
                if self.mode == "hit":
                    self.guards.append((len(self.loops), q, "Gt", Fraction(0), node))
                return self.mode == "hit"
        if name == "linalg.det" and len(args) == 1 and not kwargs:
            M = args[0] if isinstance(args[0], Arr) else materialise(args[0]) if isinstance(args[0], (list, tuple, Opaque)) else None
            if M is not None and M.shape == (3, 3) and not all(scalar(x).is_const() for x in M.flat()):
                m = [[scalar(x) for x in r] for r in M.data]
                d = (m[0][0] * (m[1][1] * m[2][2] - m[1][2] * m[2][1]) - m[0][1] * (m[1][0] * m[2][2] - m[1][2] * m[2][0])
                     + m[0][2] * (m[1][0] * m[2][1] - m[1][1] * m[2][0]))
                self.lu_values.append(d)
                return d
        if name == "take" and len(args) >= 2 and isinstance(args[1], Perm):
            ax_ = args[2] if len(args) == 3 else kwargs.get("axis")
            A_ = args[0] if isinstance(args[0], Arr) else materialise(args[0])
            if ax_ is None or const_int(ax_) != 0 or A_ is None or len(A_.shape) != 2:
                raise AnalysisError("reduce_cell: take() with a permutation along something else than the rows of a table (line %d)" % node.lineno)
            return self.permute_rows(A_, args[1], node)
        if name == "argsort" and len(args) == 1 and not kwargs:
            K = args[0] if isinstance(args[0], Arr) else materialise(args[0])
            if K is None or len(K.shape) != 1:
                raise AnalysisError("reduce_cell: argsort of a value that is not an explicit vector (line %d)" % node.lineno)
            return Perm([scalar(x) for x in K.data])
        if name in ("concatenate", "vstack") and len(args) == 1 and isinstance(args[0], (list, tuple)):
            parts = []
            for x in args[0]:
                P = x if isinstance(x, Arr) else materialise(x)
                if P is None:
                    raise AnalysisError("reduce_cell: concatenation of a non-explicit array (line %d)" % node.lineno)
                if 0 in P.shape or P.shape == ():
                    continue
                parts.append(P)
            if not parts:
                return Arr([])
            out = []
            for P in parts:
                if len(P.shape) != 2:
                    raise AnalysisError("reduce_cell: concatenation of rank %d (line %d)" % (len(P.shape), node.lineno))
                out.extend([list(r) for r in P.data])
            return Arr(out)
        return ObjEvaluator._np_call(self, name, args, kwargs, node)

    def apply_unary(self, fname, x, node):
        if fname in ("abs", "absolute", "fabs"):
            a_ = single_atom(scalar(x)) if isinstance(x, Rat) else None
            if a_ is not None and a_ in self.norm_of:
                return scalar(x)            # a length is its own absolute value
        return ObjEvaluator.apply_unary(self, fname, x, node)

    def permute_rows(self, base, perm, node):
        """table[argsort(keys)] (or take(table, argsort(keys), axis=0)): the sorted table"""
        rows = [[scalar(x) for x in r] for r in base.data]
        if len(perm.keys) != len(rows):
            raise AnalysisError("reduce_cell: the table is reordered by a permutation of another length (line %d)" % node.lineno)
        cols = [c for c in range(len(rows[0])) if all(k.equals(r[c]) for k, r in zip(perm.keys, rows))]
        self.table = SortedTable(rows, cols[-1] if cols else None, list(perm.keys))
        self.phase = "picking"
        return self.table

    def method_call(self, base, attr, args, kwargs, node):
        if isinstance(base, (SortedTable, TableView, MappedTable)) and attr in ("astype", "copy", "view"):
            return base            # a change of number type of a table of integers and lengths: the same values
        if attr == "any" and not args and not kwargs and isinstance(base, Arr) and self.phase == "picking" and self.mode in ("hit", "miss"):
            return self._np_call("any", [base], {}, node)
        return ObjEvaluator.method_call(self, base, attr, args, kwargs, node)

    def e_GeneratorExp(self, node, env):
        if self.phase == "picking" and len(node.generators) == 1 and not node.generators[0].is_async:
            g = node.generators[0]
            it = self.eval(g.iter, env)
            src = None
            if isinstance(it, LazySeq):
                src = it
            elif isinstance(it, tuple) and it and it[0] == "symbolic-range":
                src = ("range", it[1][0] if len(it[1]) >= 2 else Rat.const(0))
            elif isinstance(it, list) and it and all(const_int(x) is not None for x in it) and len(it) > 8:
                src = ("range", scalar(it[0]))
            elif isinstance(it, tuple) and len(it) == 3 and it[0] == "table-rows":
                src = ("rows", it[1], it[2])
            elif isinstance(it, SortedTable):
                src = ("rows", it, Rat.const(0))
            if src is not None:
                return LazySeq(node, dict(env), src)
            self.hand_down(g.iter, it)
        return ObjEvaluator.e_GeneratorExp(self, node, env)

    def first_hit(self, lazy, node):
        """next(<lazy search>, default): the same summary as a `for` loop that stores and stops at its first hit (the filters
        are the guards; a generator expression stores nothing, so a miss leaves no trace); no hit at all is a degenerate
        lattice, outside the claim"""
        chain, s_ = [], lazy
        while isinstance(s_, LazySeq):
            chain.append(s_)
            s_ = s_.source
        k = len(self.loops)
        idx = Rat.atom("idx%d*" % k)
        start = s_[1] if s_[0] == "range" else s_[2]
        val = idx if s_[0] == "range" else Arr(s_[1].row("idx%d*" % k))
        self.loops.append({"start": start, "index": idx, "node": lazy.node, "broke": True, "trace": []})
        self.mode = "hit"
        try:
            for lz in reversed(chain):
                g = lz.node.generators[0]
                e_ = dict(lz.env)
                self.assign(g.target, val, e_)
                for cond in g.ifs:
                    if not self.decide(cond, e_):
                        raise AnalysisError("reduce_cell: a filter of the lazy search does not hold at its hit (line %d)" % cond.lineno)
                val = self.eval(lz.node.elt, e_)
        finally:
            self.mode = None
        return val

    def builtin(self, name, args, kwargs, node):
        if name == "next" and args and isinstance(args[0], LazySeq):
            return self.first_hit(args[0], node)
        if name == "len" and args and isinstance(args[0], (SortedTable, TableView, MappedTable)):
            return Rat.const(args[0].n)
        if name == "range" and any(const_int(a) is None for a in args):
            return ("symbolic-range", list(args))
        if name == "enumerate" and args and isinstance(args[0], tuple) and len(args[0]) == 3 and args[0][0] == "table-rows":
            start = args[1] if len(args) > 1 else kwargs.get("start", Rat.const(0))
            return ("table-rows-enum", args[0][1], args[0][2], scalar(start))
        if name == "enumerate" and args and isinstance(args[0], (SortedTable, TableView, MappedTable)):
            start = args[1] if len(args) > 1 else kwargs.get("start", Rat.const(0))
            return ("table-rows-enum", args[0], Rat.const(0), scalar(start))
        return ObjEvaluator.builtin(self, name, args, kwargs, node)

    # ---- subscripts: the sort, and rows of the sorted table
    def e_Subscript(self, node, env):
        base = self.eval(node.value, env)
        elts = node.slice.elts if isinstance(node.slice, ast.Tuple) else [node.slice]
        if isinstance(base, Arr) and elts and not isinstance(elts[0], ast.Slice):
            first = self.eval(elts[0], env)
            if isinstance(first, Perm):
                rest = elts[1:]
                if len(rest) == 1 and isinstance(rest[0], ast.Slice) and rest[0].step is None and not (rest[0].lower is None and rest[0].upper is None):
                    # table[order, lo:hi]: the sorted table, some of its columns
                    tab_ = self.permute_rows(base, first, node)
                    lo_ = const_int(self.eval(rest[0].lower, env)) if rest[0].lower is not None else 0
                    hi_ = const_int(self.eval(rest[0].upper, env)) if rest[0].upper is not None else tab_.width
                    if lo_ is None or hi_ is None:
                        raise AnalysisError("reduce_cell: columns of the sorted table selected by a non-constant (line %d)" % node.lineno)
                    return TableView(tab_, lo_, hi_)
                if any(not (isinstance(e, ast.Slice) and e.lower is None and e.upper is None and e.step is None) for e in rest):
                    raise AnalysisError("reduce_cell: permuted table indexed with something else than full slices (line %d)" % node.lineno)
                return self.permute_rows(base, first, node)
        def full_(e):
            return isinstance(e, ast.Slice) and e.lower is None and e.upper is None and e.step is None
        if isinstance(base, SortedTable) and len(elts) == 2 and full_(elts[0]) and isinstance(elts[1], ast.Slice) and elts[1].step is None:
            lo = const_int(self.eval(elts[1].lower, env)) if elts[1].lower is not None else 0
            hi = const_int(self.eval(elts[1].upper, env)) if elts[1].upper is not None else base.width
            if lo is None or hi is None:
                raise AnalysisError("reduce_cell: columns of the sorted table selected by a non-constant (line %d)" % node.lineno)
            return TableView(base, lo, hi)
        if isinstance(base, (TableView, MappedTable)) and len(elts) == 1 and isinstance(elts[0], ast.Slice) \
                and elts[0].upper is None and elts[0].step is None:
            lo = self.eval(elts[0].lower, env) if elts[0].lower is not None else Rat.const(0)
            return ("table-rows", base, scalar(lo))
        if isinstance(base, (TableView, MappedTable)):
            r = self.eval(elts[0], env) if len(elts) in (1, 2) and not isinstance(elts[0], ast.Slice) else None
            if r is None:
                raise AnalysisError("reduce_cell: unsupported subscript of a table derived from the sorted one (line %d)" % node.lineno)
            ri = const_int(r)
            if ri is None:
                a = single_atom(scalar(r)) if isinstance(r, Rat) else None
                if a is None or not a.endswith("*"):
                    raise AnalysisError("reduce_cell: derived table indexed by `%s` (line %d)" % (core.unparse(elts[0]), node.lineno))
                row = base.row(a)
            else:
                if not (0 <= ri < base.n):
                    raise AnalysisError("reduce_cell: row %d of the derived table (line %d)" % (ri, node.lineno))
                row = base.row(ri)
            if len(elts) == 1 or full_(elts[1]):
                return Arr(row)
            ci = const_int(self.eval(elts[1], env)) if not isinstance(elts[1], ast.Slice) else None
            if ci is not None:
                return row[ci]
            raise AnalysisError("reduce_cell: unsupported subscript of a table derived from the sorted one (line %d)" % node.lineno)
        if isinstance(base, SortedTable):
            if not elts:
                raise AnalysisError("reduce_cell: empty subscript")
            if len(elts) == 1 and isinstance(elts[0], ast.Slice) and elts[0].upper is None and elts[0].step is None:
                lo = self.eval(elts[0].lower, env) if elts[0].lower is not None else Rat.const(0)
                return ("table-rows", base, scalar(lo))
            r = self.eval(elts[0], env)
            if isinstance(r, list) and r and len(elts) <= 2:
                # several rows at once: table[[i, 1, j]] or table[[i, 1, j], :3]
                rows_ = []
                for x_ in r:
                    xi_ = const_int(x_)
                    if xi_ is None:
                        a_ = single_atom(scalar(x_)) if isinstance(x_, Rat) else None
                        if a_ is None or not a_.endswith("*"):
                            raise AnalysisError("reduce_cell: sorted table indexed by `%s` (line %d)" % (core.unparse(elts[0]), node.lineno))
                        rows_.append(base.row(a_))
                    else:
                        if not (0 <= xi_ < base.n):
                            raise AnalysisError("reduce_cell: row %d of the sorted table (line %d)" % (xi_, node.lineno))
                        rows_.append(base.row(xi_))
                if len(elts) == 2:
                    e_ = elts[1]
                    if not isinstance(e_, ast.Slice) or e_.step is not None:
                        raise AnalysisError("reduce_cell: unsupported subscript of the sorted table (line %d)" % node.lineno)
                    lo_ = const_int(self.eval(e_.lower, env)) if e_.lower is not None else None
                    hi_ = const_int(self.eval(e_.upper, env)) if e_.upper is not None else None
                    rows_ = [row_[slice(lo_, hi_)] for row_ in rows_]
                return Arr([list(row_) for row_ in rows_])
            ri = const_int(r)
            if ri is None:
                a = single_atom(scalar(r)) if isinstance(r, Rat) else None
                if a is None or not a.endswith("*"):
                    raise AnalysisError("reduce_cell: sorted table indexed by `%s` (line %d)" % (core.unparse(elts[0]), node.lineno))
                row = base.row(a)
            else:
                if not (0 <= ri < base.n):
                    raise AnalysisError("reduce_cell: row %d of the sorted table (line %d)" % (ri, node.lineno))
                row = base.row(ri)
            if len(elts) == 1:
                return Arr(row)
            if len(elts) == 2:
                e = elts[1]
                if isinstance(e, ast.Slice):
                    lo = const_int(self.eval(e.lower, env)) if e.lower is not None else None
                    hi = const_int(self.eval(e.upper, env)) if e.upper is not None else None
                    return Arr(row[slice(lo, hi)])
                ci = const_int(self.eval(e, env))
                if ci is not None:
                    return row[ci]
            raise AnalysisError("reduce_cell: unsupported subscript of the sorted table (line %d)" % node.lineno)
        return ObjEvaluator.e_Subscript(self, node, env, base)

    # ---- comparisons: integer filters fold; real-valued ones are the guards (or a prune of the enumeration)
    def compare(self, op, a, b, node):
        if isinstance(a, (Rat, int, float)) and isinstance(b, (Rat, int, float)) and not isinstance(a, bool) and not isinstance(b, bool):
            sa, sb = scalar(a), scalar(b)
            from xfabsa import domain as _domain
            if not (sa - sb).is_const() and _domain.sign(sa - sb) is not None:
                return ObjEvaluator.compare(self, op, a, b, node)        # an argument check: decided by the input domain
            if not (sa - sb).is_const():
                if self.phase == "enumerate":
                    return self.enumeration_filter(sa, sb, node)
                if self.mode is None:
                    raise AnalysisError("reduce_cell: data-dependent test `%s` outside a search loop (line %d)"
                                        % (core.unparse(node)[:60], node.lineno))
                # orientation: quantity OP literal
                if sb.is_const():
                    q, lit, opn = sa, sb.const_value(), type(op).__name__
                elif sa.is_const():
                    q, lit = sb, sa.const_value()
                    opn = {"Gt": "Lt", "GtE": "LtE", "Lt": "Gt", "LtE": "GtE"}.get(type(op).__name__, type(op).__name__)
                else:
                    raise AnalysisError("reduce_cell: guard `%s` does not compare with a literal (line %d)" % (core.unparse(node)[:60], node.lineno))
                if opn not in ("Gt", "GtE", "Lt", "LtE"):
                    raise AnalysisError("reduce_cell: guard operator %s (line %d)" % (opn, node.lineno))
                if self.mode == "hit":
                    self.guards.append((len(self.loops), q, opn, lit, node))
                # hit: the quantity is large (beyond any tolerance); miss: it is (numerically) zero
                large = self.mode == "hit"
                return large if opn in ("Gt", "GtE") else not large
        return ObjEvaluator.compare(self, op, a, b, node)

    def enumeration_filter(self, sa, sb, node):
        """a real-valued test while the candidates are enumerated: does it compare two mathematically EQUAL quantities for the
        input's own basis vectors (then rounding decides whether a vector of the reduced basis is dropped)?"""
        tags = [a for a in (sa - sb).atoms() if a in self.norm_of]
        if len(tags) != 1:
            raise AnalysisError("reduce_cell: enumeration filter `%s` does not fold on integers (line %d)" % (core.unparse(node)[:60], node.lineno))
        tag = Rat.atom(tags[0])
        other = sb if sa.equals(tag) else sa if sb.equals(tag) else None
        if other is None:
            raise AnalysisError("reduce_cell: enumeration filter `%s` is not a comparison of a candidate's length (line %d)"
                                % (core.unparse(node)[:60], node.lineno))
        edges = ["%s[%d]" % (self.cell.base, q) for q in range(3)]
        added = [a for a in edges if a not in POSITIVE_SCALE_ATOMS]
        POSITIVE_SCALE_ATOMS.extend(added)
        try:
            Aex = Evaluator(self.mod, inline=True).call_function("form_a_mat", [self.cell])
            Aex = Aex if isinstance(Aex, Arr) else materialise(Aex)
            hit = False
            for axis in range(3):
                col = [scalar(Aex.data[r][axis]) for r in range(3)]
                length = N.ref("sqrt(a*a+b*b+c*c)", {"a": col[0], "b": col[1], "c": col[2]})
                if length.equals(other):
                    hit = True
                info = None
                from xfabsa.poly import atom_info
                info = atom_info(other)
                if info is not None and info[0] in ("max", "min") and any(length.equals(x) for x in info[1]):
                    hit = True
        finally:
            for a in added:
                POSITIVE_SCALE_ATOMS.remove(a)
        if hit:
            raise RoundingFilter(core.unparse(node), node)
        raise AnalysisError("reduce_cell: enumeration filter `%s` does not fold on integers (line %d)" % (core.unparse(node)[:60], node.lineno))

    # ---- loops over the sorted table: first-hit summary
    def exec_stmt(self, st, env):
        if isinstance(st, ast.For) and self.phase == "picking":
            it = self.eval(st.iter, env)
            start = None
            if isinstance(it, tuple) and it and it[0] == "symbolic-range":
                start = it[1][0] if len(it[1]) >= 2 else Rat.const(0)
            elif isinstance(it, list) and it and all(const_int(x) is not None for x in it) and len(it) > 8:
                start = scalar(it[0])
            if start is not None:
                return self.summarise_loop(st, env, start)
            if isinstance(it, tuple) and len(it) == 3 and it[0] == "table-rows":
                return self.summarise_loop(st, env, it[2], rows_of=it[1])
            if isinstance(it, tuple) and len(it) == 4 and it[0] == "table-rows-enum":
                return self.summarise_loop(st, env, it[2], rows_of=it[1], count_from=it[3])
            if isinstance(it, SortedTable):
                return self.summarise_loop(st, env, Rat.const(0), rows_of=it)
            self.hand_down(st.iter, it)
        return ObjEvaluator.exec_stmt(self, st, env)

    def summarise_loop(self, st, env, start, rows_of=None, count_from=None):
        k = len(self.loops)
        idx = Rat.atom("idx%d*" % k)
        info = {"start": start, "index": idx, "node": st, "broke": False, "trace": None}
        item = idx if rows_of is None else Arr(rows_of.row("idx%d*" % k))     # the loop variable: an index, or the row itself
        if count_from is not None:
            # enumerate(rows[start:], count_from): the counter of the row number idx is idx - start + count_from
            item = (idx - scalar(start) + scalar(count_from), item)
        # a non-hit iteration must leave no trace in the arrays that outlive the loop
        probe = {n_: (v.copy() if isinstance(v, Arr) else v) for n_, v in env.items()}
        before = {n_: v.key() for n_, v in probe.items() if isinstance(v, Arr)}
        same_obj = {n_: id(v) for n_, v in probe.items() if isinstance(v, Arr)}
        self.mode = "miss"
        try:
            self.assign(st.target, item, probe)
            try:
                self.exec_block(st.body, probe)
            except (_Break, _Continue, _Return):
                pass
        finally:
            self.mode = None
        # (a name that is simply rebound is a temporary of the iteration; a store INTO an array made before the loop is a trace)
        changed = [n_ for n_, key in before.items() if isinstance(probe.get(n_), Arr) and id(probe[n_]) == same_obj[n_]
                   and probe[n_].key() != key]
        info["trace"] = changed
        self.mode = "hit"
        self.loops.append(info)
        try:
            self.assign(st.target, item, env)
            try:
                self.exec_block(st.body, env)
            except _Break:
                info["broke"] = True
            except _Return:
                info["broke"] = True          # leaving the enclosing helper at the hit is the same as break
                raise
            except _Continue:
                pass
        finally:
            self.mode = None
        return None


def lin(A, s):
    """A . s for A the symbolic 3x3 and s three normal forms"""
    return [sum((Rat.atom("A[%d,%d]" % (r, c)) * s[c] for c in range(3)), Rat.const(0)) for r in range(3)]


def cross(a, b):
    return [a[1] * b[2] - a[2] * b[1], a[2] * b[0] - a[0] * b[2], a[0] * b[1] - a[1] * b[0]]


def veq(a, b):
    return len(a) == len(b) and all(x.equals(y) for x, y in zip(a, b))


def run(ctx):
    from xfabsa import numeric as _NA
    _NA.alias_rule(ctx, 'C18', ['xfab/tools.py', 'xfab/laue.py'])
    ctx.rule("vectors", "table rows are [i,j,k,|A.(i,j,k)|] covering |u|,|v|,|w| <= 2; sorted by length; picks are A.S[1], A.S[i*], A.S[j*]")
    ctx.rule("guards", "second and third pick guarded by positive thresholds on |cross| and on the distance to the plane")
    ctx.rule("layout", "layout in which the picked vectors are stored == layout a_to_cell reads")
    for rel, short, two_pi in N.MODULES:
        mod = core.module(rel)
        fn = mod.func("reduce_cell")
        ctx.saw(mod, fn)
        where = core.loc(mod, fn)
        cell = sym_array(fn.args.args[0].arg, (6,))
        ev = ReduceEval(mod, cell)
        try:
            result = ev.call_function("reduce_cell", [cell])
        except RoundingFilter as rf:
            ctx.fail("C18:vectors:%s.coverage" % short,
                     "candidates are pruned by `%s`, which for the input's own basis vectors compares two mathematically equal "
                     "quantities (|A.e_k| and the cell edge it was computed from) without tolerance: rounding decides whether a vector "
                     "of the reduced basis is dropped" % str(rf), core.loc(mod, rf.node))
            continue
        if ev.table is None or ev.handed is None:
            raise AnalysisError("%s.reduce_cell: no sorted candidate table / no call of a_to_cell was met" % short)
        def is_cell(v_):
            A_ = v_ if isinstance(v_, Arr) else materialise(v_) if isinstance(v_, (Opaque, list, tuple)) else None
            C_ = materialise(cell)
            return A_ is not None and A_.shape == (6,) and all(scalar(x_).equals(scalar(y_)) for x_, y_ in zip(A_.data, C_.data))
        ctx.check(len(ev.form_calls) >= 1 and all(is_cell(a[0]) for a in ev.form_calls), "C18:vectors:%s.basis" % short,
                  "the lattice basis is not form_a_mat(unit_cell)", where)
        # what is returned is what a_to_cell makes of the reduced basis, value by value
        R_ = result if isinstance(result, Arr) else materialise(result) if isinstance(result, (Opaque, list, tuple)) else None
        want_ = materialise(Opaque("a_to_cell(reduced)", (6,)))
        ctx.check(R_ is not None and R_.shape == (6,) and all(scalar(x_).equals(scalar(y_)) for x_, y_ in zip(R_.data, want_.data)),
                  "C18:layout:%s.result" % short, "reduce_cell does not return the six values a_to_cell computes from the reduced basis: %s"
                  % (R_.key()[:120] if R_ is not None else result,), where)
        # ---- table rows: [i, j, k, |A.(i,j,k)|], or the vectors A.(i,j,k) themselves sorted by their lengths
        rows = ev.table.source
        # a table of width 3 holds either the vectors A.(i,j,k) themselves or the integer triples, sorted by a separate key array
        vector_table = ev.table.width == 3 and not all(const_int(x_) is not None for r_ in rows for x_ in r_[:3])
        index3 = ev.table.width == 3 and not vector_table
        triples, badrow = set(), None
        # the metric tensor of the cell itself (refs/cell.py): a table may be ordered by the squared length v.G.v just as well
        from refs import cell as RC
        _uc, cenv = N.cell_env(cell_name=cell.base)
        Gref = [[N.ref(RC.G[i_][j_], cenv) for j_ in range(3)] for i_ in range(3)]

        def metric_length_sq(ints_):
            return sum((Rat.const(ints_[i_] * ints_[j_]) * Gref[i_][j_] for i_ in range(3) for j_ in range(3)), Rat.const(0))

        def is_metric_key(key_, ints_):
            """the key is v.G.v or its square root, G the metric tensor of the input cell"""
            try:
                q_ = metric_length_sq(ints_)
                return N.rat_equal(key_, q_) or N.rat_equal(key_ * key_, q_) and not any(a_.startswith("norm#") for a_ in key_.atoms())
            except AnalysisError:
                return False
        if vector_table:
            A_ = [[Rat.atom("A[%d,%d]" % (r_, c_)) for c_ in range(3)] for r_ in range(3)]
            zero_env = {"A[%d,%d]" % (r_, c_): Rat.const(0) for r_ in range(3) for c_ in range(3)}
        for ri, r in enumerate(rows):
            if vector_table:
                # the integer triple is read off the linear form: coefficient of A[0,c] in component 0
                ints = []
                for c_ in range(3):
                    one = dict(zero_env)
                    one["A[0,%d]" % c_] = Rat.const(1)
                    ints.append(const_int(r[0].subs(one)))
                key = ev.table.keys[ri]
                tag = single_atom(key)
                okr = all(i is not None for i in ints) and veq(r, lin(ev.A, [Rat.const(i) for i in ints])) \
                    and ((tag in ev.norm_of and veq(ev.norm_of[tag], r)) or (ints == [0, 0, 0] and key.is_zero()))
            else:
                ints = [const_int(x) for x in r[:3]]
                length = r[3] if len(r) == 4 else ev.table.keys[ri] if index3 else None
                tag = single_atom(length) if length is not None else None
                okr = length is not None and all(i is not None for i in ints)
                if okr:
                    want = lin(ev.A, [Rat.const(i) for i in ints])
                    if ints == [0, 0, 0]:
                        okr = length.is_zero() or (tag in ev.norm_of and veq(ev.norm_of[tag], want))
                    else:
                        okr = (tag in ev.norm_of and veq(ev.norm_of[tag], want)) or is_metric_key(length, ints)
            if not okr and badrow is None:
                badrow = [N.short(x, 40) for x in r]
            if all(i is not None for i in ints):
                triples.add(tuple(ints))
        ctx.check(badrow is None, "C18:vectors:%s.combination" % short,
                  "lattice vectors are not all formed as dot(a_mat, integer triple): a table row is %s, not [i, j, k, |A.(i,j,k)|]" % badrow,
                  where, sample={"rows": len(rows), "row0": [N.short(x, 30) for x in rows[0]]})
        need = set(itertools.product(range(-2, 3), repeat=3))
        dropped = sorted(need - triples)
        ctx.check(not dropped, "C18:vectors:%s.coverage" % short,
                  "the enumeration does not visit every index triple with |u|,|v|,|w| <= 2 for the default search range: "
                  "dropped %d of 125, e.g. %s" % (len(dropped), dropped[:3]), where,
                  sample={"triples_checked": 125, "dropped": len(dropped), "table_rows": len(rows)})
        ctx.check(ev.table.col == 3 if not (vector_table or index3) else True, "C18:vectors:%s.sorted" % short,
                  "the candidate list is not sorted by its length column", where)
        # ---- picks

        def vec_of(r_):
            return lin(ev.A, ev.table.row(r_)[:3]) if not vector_table else ev.table.row(r_)
        v0 = vec_of(1)
        loops = ev.loops
        okl = len(loops) == 2 and all(l["broke"] for l in loops) and not any(l["trace"] for l in loops)
        if not okl:
            ctx.fail("C18:guards:%s" % short,
                     "the two searches over the sorted candidates are not `first index at which the guard holds: store and stop` "
                     "(loops %d, stop on hit %s, arrays changed by a non-hit iteration %s)"
                     % (len(loops), [l["broke"] for l in loops], [l["trace"] for l in loops]), where)
            continue
        i_, j_ = "idx0*", "idx1*"
        v1 = vec_of(i_)
        v2 = vec_of(j_)
        H = ev.handed
        as_rows = all(veq(H[k], v) for k, v in enumerate((v0, v1, v2)))
        as_cols = all(veq([H[r][k] for r in range(3)], v) for k, v in enumerate((v0, v1, v2)))
        first_ok = veq(H[0], v0) or veq([H[r][0] for r in range(3)], v0)
        zero_first = veq(H[0], vec_of(0)) or veq([H[r][0] for r in range(3)], vec_of(0))
        ctx.check(first_ok, "C18:vectors:%s.first" % short,
                  "the first vector is not the shortest non-zero candidate (sorted row 1)%s" % (": it is sorted row 0, the zero vector" if zero_first else ""),
                  where)
        if not (as_rows or as_cols):
            if first_ok:
                ctx.fail("C18:vectors:%s.picks" % short, "the matrix handed to a_to_cell does not hold A.S[1], A.S[i*], A.S[j*] as its rows or columns", where)
            continue
        ctx.ok("C18:vectors:%s.picks" % short)
        # second search starts no later than just after the first hit
        st2 = scalar(loops[1]["start"])
        i_atom = Rat.atom(i_)
        ok_start = st2.equals(i_atom) or st2.equals(i_atom + 1) or (st2.is_const() and st2.const_value() <= 2)
        ctx.check(ok_start, "C18:vectors:%s.search-order" % short,
                  "the search for the third vector starts at sorted row %s: shorter candidates after the second pick are skipped" % N.short(st2), where)
        st1 = scalar(loops[0]["start"])
        ctx.check(st1.is_const() and st1.const_value() <= 2, "C18:vectors:%s.search-start" % short,
                  "the search for the second vector starts at sorted row %s" % N.short(st1), where)
        # ---- guards
        g1 = [g for g in ev.guards if g[0] == 1]
        g2 = [g for g in ev.guards if g[0] == 2]
        k = cross(v1, v0)
        sumabs = func_atom("abs", k[0]) + func_atom("abs", k[1]) + func_atom("abs", k[2])
        sumabs_n = func_atom("abs", -k[0]) + func_atom("abs", -k[1]) + func_atom("abs", -k[2])
        triple = k[0] * v2[0] + k[1] * v2[1] + k[2] * v2[2]

        def is_cross_size(q):
            if q.equals(sumabs) or q.equals(sumabs_n):
                return True
            a = single_atom(q)
            if a in ev.norm_of and (veq(ev.norm_of[a], k) or veq(ev.norm_of[a], [-x for x in k])):
                return True
            return False

        def is_plane_distance(q):
            for tag, vec in ev.norm_of.items():
                if veq(vec, k) or veq(vec, [-x for x in k]):
                    nk = Rat.atom(tag)
                    for cand in (q, func_atom("abs", q) if False else q):
                        if (cand * nk).equals(triple) or (cand * nk).equals(-triple):
                            return True
            # the length of the normal written out: sqrt(k.k)
            from xfabsa.poly import sqrt_of
            nk2 = sqrt_of(k[0] * k[0] + k[1] * k[1] + k[2] * k[2])
            if (q * nk2).equals(triple) or (q * nk2).equals(-triple):
                return True
            info = None
            from xfabsa.poly import atom_info
            info = atom_info(q)
            if info is not None and info[0] == "abs":
                return is_plane_distance(info[1][0])
            return q.equals(triple) or q.equals(-triple)
        # the same two tests on the INDEX triples: A.(s x t) and s x t vanish together, and det[A.s; A.t; A.u] = det(A).det[s; t; u]
        # with det(A) > 0 for a valid cell.  Products and sums of the small integers are exact in binary arithmetic, so a test
        # against 0 is sound there; a determinant from numpy.linalg.det (LU factorisation) is not exact even on integers, it
        # needs a threshold strictly between the rounding noise and 1, the smallest non-zero |det| of an integer matrix
        index_cols = [c_ for c_ in range(min(3, ev.table.width)) if all(r_[c_].is_const() and r_[c_].const_value().denominator == 1
                                                                       for r_ in ev.table.source)] if not vector_table else []
        s0, s1, s2 = (ev.table.row(1)[:3], ev.table.row(i_)[:3], ev.table.row(j_)[:3]) if len(index_cols) == 3 else (None, None, None)
        k_idx = cross(s1, s0) if s0 is not None else None
        sumabs_idx = (func_atom("abs", k_idx[0]) + func_atom("abs", k_idx[1]) + func_atom("abs", k_idx[2])) if k_idx else None
        triple_idx = (k_idx[0] * s2[0] + k_idx[1] * s2[1] + k_idx[2] * s2[2]) if k_idx else None

        def on_indices(q):
            """the quantity is built from the integer index columns alone"""
            from xfabsa.poly import ATOM_ARGS
            def ok_atom(a_):
                if a_ in ATOM_ARGS:
                    return ATOM_ARGS[a_][0] == "abs" and all(ok_atom(b_) for x_ in ATOM_ARGS[a_][1] for b_ in x_.atoms())
                return a_.startswith("S[") and a_.endswith("]") and a_[:-1].rsplit(",", 1)[-1].isdigit() and int(a_[:-1].rsplit(",", 1)[1]) in index_cols
            return bool(index_cols) and all(ok_atom(a_) for a_ in q.atoms())

        def lu_based(q):
            return any(q.equals(v_) or q.equals(-v_) for v_ in ev.lu_values)

        def threshold_ok(g):
            _k, q, opn, lit, _node = g
            if opn not in ("Gt", "GtE"):
                return False
            if on_indices(q) and not lu_based(q):
                return (0 <= lit < 1) if opn == "Gt" else (0 < lit <= 1)        # exact integers: `> 0` is `>= 1`
            if on_indices(q):
                return 0 < lit < 1                                               # integers up to the rounding of the factorisation
            return lit > 0
        cross_ok = len(g1) == 1 and (is_cross_size(g1[0][1]) or (sumabs_idx is not None and g1[0][1].equals(sumabs_idx)))
        plane_ok = len(g2) == 1 and (is_plane_distance(g2[0][1]) or (triple_idx is not None and (g2[0][1].equals(triple_idx) or g2[0][1].equals(-triple_idx))))
        okg = len(g1) == 1 and len(g2) == 1 and threshold_ok(g1[0]) and threshold_ok(g2[0]) and cross_ok and plane_ok
        why_ = ""
        if len(g1) == 1 and len(g2) == 1 and cross_ok and plane_ok and not okg:
            bad_ = [g for g in (g1[0], g2[0]) if not threshold_ok(g)]
            why_ = (" (the threshold %g is not above the rounding error of `%s`%s)"
                    % (float(bad_[0][3]), core.unparse(bad_[0][4])[:50],
                       ": numpy.linalg.det factorises the matrix, its value on a singular integer matrix is a rounding residue of either sign"
                       if lu_based(bad_[0][1]) else ""))
        ctx.check(okg, "C18:guards:%s" % short,
                  "second/third pick are not guarded by positive thresholds on |cross product| and plane distance: %s%s"
                  % ([(N.short(g[1], 60), g[2], float(g[3])) for g in g1 + g2], why_), where,
                  sample={"thresholds": [float(g[3]) for g in g1 + g2]})
        # ---- layout
        passed = "rows" if as_rows else "cols"
        want = a_to_cell_layout(mod)
        ctx.check(passed == want, "C18:layout:%s.reduce_cell:a_to_cell(%s)" % (short, passed),
                  "the reduced lattice vectors are the %s of the matrix handed to a_to_cell, which computes the metric X'X of a "
                  "matrix whose %s are the lattice vectors: the result has the right volume but is the cell of a different lattice"
                  % (passed.upper(), want.upper()), where,
                  sample={"passed_as": passed, "a_to_cell_reads": want})
    ctx.not_decided += ["whether the search range contains the reduced basis of a given cell (real-valued)",
                        "that the three shortest independent vectors form a basis is the paper step"]
    ctx.assumptions += ["C01: columns of form_a_mat are the lattice vectors; a_to_cell as analysed there",
                        "argsort orders ascending; a search loop that finds no candidate (degenerate lattice) is outside the claim"]
    N.hazard_rule(ctx, 'C18')
    return ("reduce_cell evaluated abstractly in both modules: the candidate table concretely over all index triples with a symbolic "
            "basis, the sort as a symbolic sorted table, the two searches as first-hit summaries; decided on the results: rows are "
            "integer combinations with their lengths, coverage of |u|,|v|,|w| <= 2, picks A.S[1], A.S[i*], A.S[j*], positive "
            "collinearity / coplanarity guards on the right quantities, and the layout handed to a_to_cell against the layout its own "
            "body reads.")
