"""
C02 -- orientation U, metric B and UBI convert into each other without loss.

E3 with callees opaque (compositional; the callees' own contracts are C01/C03):
the value each conversion returns is compared, as a normal form, with the
matrix expression the property states (UBI = tau inv(U B); cell of UBI from its
transposed rows; U = (B UBI)'/tau; (U,B) = QR of tau inv(UBI)).  The QR sign
normalisation of ub_to_u_b is decided on all eight sign patterns of the
diagonal: the result must be (Q D, D R) with D the diagonal sign matrix.
"""
import ast
import itertools

from xfabsa import core, numeric as N
from xfabsa.core import AnalysisError
from xfabsa.poly import Rat, single_atom
from xfabsa.symeval import Undecided, monomial_sign, Evaluator, sym_array, Arr, Opaque, scalar, materialise, vkey


def flat(v):
    A = v if isinstance(v, Arr) else materialise(v)
    if A is None:
        raise AnalysisError("value is not an explicit array: %r" % (v,))
    return [scalar(x) for x in A.flat()], A.shape


def same(a, b):
    try:
        fa, sa = flat(a)
        fb, sb = flat(b)
    except AnalysisError:
        return isinstance(a, Opaque) and isinstance(b, Opaque) and a.key() == b.key()
    return sa == sb and all(x.equals(y) for x, y in zip(fa, fb))


def transposed(v):
    A = v if isinstance(v, Arr) else materialise(v)
    if A is None or len(A.shape) != 2:
        return v
    return Arr([[A.data[j][i] for j in range(A.shape[0])] for i in range(A.shape[1])])


def run(ctx):
    from xfabsa import numeric as _N
    _N.alias_rule(ctx, 'C02', ['xfab/tools.py', 'xfab/laue.py'])
    ctx.rule("shape", "returned value == the stated matrix expression (E3, callees opaque)")
    ctx.rule("qr", "ub_to_u_b: for each of the 8 sign patterns of diag(R) the result is (Q D, D R)")
    for rel, short, two_pi in N.MODULES:
        mod = core.module(rel)
        ctx.saw(mod)
        tau = N.tau_of(two_pi)
        U = sym_array("U_matrix", (3, 3))
        ubi = sym_array("ubi_matrix", (3, 3))
        cell = sym_array("unit_cell", (6,))

        def opaque_policy(log):
            def pol(name, args, kwargs, node):
                log.append((name, args))
                if name == "form_b_mat":
                    return Opaque("form_b_mat(%s)" % vkey(args[0]), (3, 3))
                if name == "ubi_to_cell":
                    # one opaque value for ubi_to_cell(X) and a_to_cell(X'): the rule C02:shape:ubi_to_cell below decides that they
                    # are the same function
                    return Opaque("a_to_cell(%s)" % vkey(transposed(args[0])), (6,))
                if name == "a_to_cell":
                    return Opaque("a_to_cell(%s)" % vkey(args[0] if not isinstance(args[0], Opaque) else (materialise(args[0]) or args[0])), (6,))
                if name == "ub_to_u_b":
                    return (Opaque("ub_to_u_b.U(%s)" % vkey(args[0]), (3, 3)), Opaque("ub_to_u_b.B(%s)" % vkey(args[0]), (3, 3)))
                if name in ("ubi_to_u",):
                    return Opaque("ubi_to_u(%s)" % vkey(args[0]), (3, 3))
                if name in ("u_to_rod",):
                    return Opaque("u_to_rod(%s)" % vkey(args[0]), (3,))
                return NotImplemented
            return pol
        # ---- u_to_ubi == tau * inv(U . B(cell))
        fn = mod.func("u_to_ubi"); ctx.saw(mod, fn)
        log = []
        got = Evaluator(mod, inline=set(), call_policy=opaque_policy(log), branch_policy=N.skip_checks_policy) \
            .call_function("u_to_ubi", [U, cell])
        B = Opaque("form_b_mat(%s)" % vkey(cell), (3, 3))
        want = N.ref("inv(dot(U, B))*tau", {"U": U, "B": B, "tau": tau})
        # (the opaque value of form_b_mat carries the argument it was called with: the comparison of values covers the call)
        ctx.check(same(got, want),
                  "C02:shape:%s.u_to_ubi" % short,
                  "u_to_ubi is not tau*inv(dot(U, form_b_mat(unit_cell))): %s" % vkey(got)[:160], core.loc(mod, fn),
                  sample={"function": "%s.u_to_ubi" % short, "value": vkey(got)[:160]})
        # ---- ubi_to_cell == a_to_cell(transpose(ubi))   (rows of UBI are the lattice vectors -> columns)
        fn = mod.func("ubi_to_cell"); ctx.saw(mod, fn)
        got = Evaluator(mod, inline=True).call_function("ubi_to_cell", [ubi])
        want = Evaluator(mod, inline=True).call_function("a_to_cell", [N.ref("transpose(X)", {"X": ubi})])
        ctx.check(same(got, want), "C02:shape:%s.ubi_to_cell" % short,
                  "ubi_to_cell does not return a_to_cell(transpose(ubi)) (lattice vectors are the ROWS of UBI, a_to_cell "
                  "wants them as columns)", core.loc(mod, fn))
        # ---- ubi_to_u == transpose(dot(B(cell(ubi)), ubi))/tau
        fn = mod.func("ubi_to_u"); ctx.saw(mod, fn)
        log = []
        got = Evaluator(mod, inline=set(), call_policy=opaque_policy(log), branch_policy=N.skip_checks_policy) \
            .call_function("ubi_to_u", [ubi])
        c_ = Opaque("a_to_cell(%s)" % vkey(transposed(ubi)), (6,))
        Bc = Opaque("form_b_mat(%s)" % c_.key(), (3, 3))
        want = N.ref("transpose(dot(B, X))/tau", {"B": Bc, "X": ubi, "tau": tau})
        okc = same(got, want)
        ctx.check(okc, "C02:shape:%s.ubi_to_u" % short,
                  "ubi_to_u is not transpose(dot(form_b_mat(ubi_to_cell(ubi)), ubi))/tau", core.loc(mod, fn))
        # ---- ubi_to_u_b == ub_to_u_b(tau * inv(ubi))
        fn = mod.func("ubi_to_u_b"); ctx.saw(mod, fn)
        log = []
        got = Evaluator(mod, inline=set(), call_policy=opaque_policy(log)).call_function("ubi_to_u_b", [ubi])
        argk = vkey(N.ref("inv(X)*tau", {"X": ubi, "tau": tau}))
        ok = isinstance(got, tuple) and len(got) == 2 and isinstance(got[0], Opaque) and got[0].base == "ub_to_u_b.U(%s)" % argk \
            and isinstance(got[1], Opaque) and got[1].base == "ub_to_u_b.B(%s)" % argk
        ctx.check(ok, "C02:shape:%s.ubi_to_u_b" % short, "ubi_to_u_b is not ub_to_u_b(tau*inv(ubi))", core.loc(mod, fn))
        # ---- ubi_to_rod == u_to_rod(ubi_to_u(ubi))
        fn = mod.func("ubi_to_rod"); ctx.saw(mod, fn)
        log = []
        got = Evaluator(mod, inline=set(), call_policy=opaque_policy(log)).call_function("ubi_to_rod", [ubi])
        ok = isinstance(got, Opaque) and got.base == "u_to_rod(%s)" % vkey(Opaque("ubi_to_u(%s)" % vkey(ubi), (3, 3)))
        ctx.check(ok, "C02:shape:%s.ubi_to_rod" % short, "ubi_to_rod is not u_to_rod(ubi_to_u(ubi))", core.loc(mod, fn))
        # ---- ub_to_u_b: QR + sign normalisation
        fn = mod.func("ub_to_u_b"); ctx.saw(mod, fn)
        where = core.loc(mod, fn)
        # conditioning: the property covers matrices up to condition number 1e6.  A factorisation obtained from the
        # Gram matrix X'X (Cholesky / eigen-decomposition of the normal equations) squares the condition number:
        # relative error ~ 1e12 * 1e-16 = 1e-4 in U, far outside the property's accuracy -- a known-bad numerical idiom.
        gram = [n_ for n_ in ast.walk(fn) if isinstance(n_, ast.Call) and isinstance(n_.func, ast.Attribute)
                and n_.func.attr in ("cholesky", "eigh", "eig", "sqrtm")]
        uses_qr = any(isinstance(n_, ast.Call) and isinstance(n_.func, ast.Attribute) and n_.func.attr == "qr" for n_ in ast.walk(fn))
        ctx.check(not gram, "C02:qr:%s.conditioning" % short,
                  "ub_to_u_b factorises through `%s` of a Gram matrix instead of an orthogonal-triangular factorisation: the condition "
                  "number (up to 1e6 in the property's domain) is squared, U loses orthonormality to ~1e-4"
                  % (core.unparse(gram[0].func) if gram else ""), where)
        if gram and not uses_qr:
            continue
        UB = sym_array("UB_matrix", (3, 3))
        Q = sym_array("Q", (3, 3))
        R = sym_array("R", (3, 3))
        special = []        # data-dependent tests other than the sign tests: fast paths / early returns
        for pattern in itertools.product((False, True), repeat=3):
            tests = []

            def signs(d, node=None, pattern=pattern, tests=tests):
                # pattern[k] True: this diagonal entry of the triangular factor is negative (zero excluded: R is non-singular)
                def atom_sign(a):
                    for k in range(3):
                        if a == "R[%d,%d]" % (k, k):
                            tests.append(k)
                            return -1 if pattern[k] else 1
                    return None
                return monomial_sign(d, atom_sign)

            def bpol(test, ev, env):
                if N.skip_checks_policy(test, ev, env) is False:
                    return False
                if isinstance(test, ast.Attribute):
                    return None
                try:
                    v_ = ev.eval(test, env)
                    if isinstance(v_, bool):
                        return v_
                except Undecided:
                    pass
                # a data-dependent test that is not decided by the signs of diag(R): the generic configuration does not
                # satisfy it; the special arm (fast path / early return) is analysed separately below
                if ast.dump(test) not in [ast.dump(t_) for t_ in special]:
                    special.append(test)
                return False
            ev = Evaluator(mod, inline=set(), branch_policy=bpol, sign_policy=signs)
            qr_args = []

            class _E(Evaluator):
                pass
            orig = ev._np_call

            def np_hook(name, args, kwargs, node, orig=orig, qr_args=qr_args):
                if name == "linalg.qr":
                    qr_args.append(args[0])
                    return (materialise(Q), materialise(R))
                return orig(name, args, kwargs, node)
            ev._np_call = np_hook
            out = ev.call_function("ub_to_u_b", [UB])
            key = "C02:qr:%s.%s" % (short, "".join("-" if p else "+" for p in pattern))
            if not (isinstance(out, tuple) and len(out) == 2) or len(qr_args) != 1 or not same(qr_args[0], UB):
                ctx.fail(key, "ub_to_u_b does not return the two factors of one QR factorisation of its argument", where)
                continue
            (fu, _s1), (fb, _s2) = flat(out[0]), flat(out[1])
            ok = sorted(set(tests)) == [0, 1, 2]
            for i in range(3):
                for j in range(3):
                    sj = -1 if pattern[j] else 1
                    si = -1 if pattern[i] else 1
                    ok = ok and fu[3 * i + j].equals(sj * Rat.atom("Q[%d,%d]" % (i, j)))
                    if j >= i:
                        ok = ok and fb[3 * i + j].equals(si * Rat.atom("R[%d,%d]" % (i, j)))
                    else:
                        # below the diagonal R is zero: either sign is the same value
                        e = fb[3 * i + j]
                        ok = ok and (e.equals(Rat.atom("R[%d,%d]" % (i, j))) or e.equals(-Rat.atom("R[%d,%d]" % (i, j))))
            ctx.check(ok, key,
                      "for diag(R) signs %s the result is not (Q.D, D.R) with D = diag(sign): product or positive diagonal is lost"
                      % ["-" if p else "+" for p in pattern], where,
                      sample={"pattern": ["-" if p else "+" for p in pattern], "U[0,0]": N.short(fu[0]), "B[0,1]": N.short(fb[1])}
                      if pattern == (True, False, True) else None)
            # the same sign pattern with the checks switched on (the default): a matrix with det(UB) > 0 must not be rejected, so
            # whatever is handed to the rotation check has to have the determinant of the U that is returned (= +1):
            # the same columns up to an even number of sign changes
            if ok:
                glog = []

                def ipol(name_, a_, kw_, node_, glog=glog):
                    if name_.startswith("xfab.checks."):
                        glog.append((name_.rsplit(".", 1)[1], [x_.copy() if isinstance(x_, Arr) else x_ for x_ in a_]))
                        return None
                    return NotImplemented

                def bpol_on(test, ev_, env_, bpol=bpol):
                    if isinstance(test, ast.Attribute):
                        return None
                    return bpol(test, ev_, env_)
                ev2 = Evaluator(mod, inline=set(), branch_policy=bpol_on, sign_policy=signs, import_policy=ipol)
                ev2.import_values = {"xfab.CHECKS.activated": True}
                ev2.import_values_at_definition = {"xfab.CHECKS.activated": True}
                orig2 = ev2._np_call

                def np_hook2(name_, args_, kwargs_, node_, orig2=orig2):
                    if name_ == "linalg.qr":
                        return (materialise(Q), materialise(R))
                    return orig2(name_, args_, kwargs_, node_)
                ev2._np_call = np_hook2
                ev2.call_function("ub_to_u_b", [UB])
                for cname, cargs in glog:
                    if "rotation" not in cname or not cargs:
                        continue
                    (fa, _s3) = flat(cargs[0])
                    if len(fa) != 9:
                        raise AnalysisError("%s.ub_to_u_b: the value handed to checks.%s is not a 3x3 matrix" % (short, cname))
                    parity = 1
                    for j in range(3):
                        if all(fa[3 * i + j].equals(fu[3 * i + j]) for i in range(3)):
                            continue
                        if all(fa[3 * i + j].equals(-fu[3 * i + j]) for i in range(3)):
                            parity = -parity
                            continue
                        raise AnalysisError("%s.ub_to_u_b: the matrix handed to checks.%s is not the returned U up to column signs; "
                                            "whether it is a proper rotation cannot be decided" % (short, cname))
                    ctx.check(parity == 1, key + ".guard",
                              "for diag(R) signs %s the matrix handed to checks.%s differs from the U that is returned by an odd number of column "
                              "signs: its determinant is -1 for every UB with positive determinant, a valid input is rejected (and a mirrored "
                              "one accepted)" % (["-" if p else "+" for p in pattern], cname), where)
        # special arms (fast paths): whatever they return must still have a provably positive diagonal in B
        for st_ in special:
            def spol(test, ev, env, st_=st_):
                if N.skip_checks_policy(test, ev, env) is False:
                    return False
                if ast.dump(test) == ast.dump(st_):
                    return True
                return None
            ev = Evaluator(mod, inline=set(), branch_policy=spol)
            try:
                out = ev.call_function("ub_to_u_b", [UB])
                (fu, _s1), (fb, _s2) = flat(out[0]), flat(out[1])
                pos = all(N.positive_under(fb[4 * k], {a_ for a_ in fb[4 * k].atoms() if a_.startswith("abs(")}) for k in range(3))
                msg = "B diagonal %s" % [N.short(fb[4 * k], 40) for k in range(3)]
            except (AnalysisError, TypeError, IndexError) as e:
                pos, msg = False, "arm not analysable: %s" % e
            ctx.check(pos, "C02:qr:%s.fast-path" % short,
                      "on the path taken when `%s` holds, ub_to_u_b returns without establishing a positive diagonal of B (%s): "
                      "an upper-triangular UB with a negative diagonal entry (e.g. U = diag(1,-1,-1)) is returned as (I, UB)"
                      % (core.unparse(st_)[:60], msg), core.loc(mod, st_))
    ctx.not_decided += ["accuracy and conditioning of numpy's qr and inv", "the round trip itself is a paper step from these "
                        "shapes: with UBI = tau inv(U B), B.UBI = tau U' and UBI.UBI' = tau^2 inv(B'B) = G (C01)"]
    ctx.assumptions += ["numpy.linalg.qr returns Q orthogonal and R upper triangular with Q R = the argument",
                        "C01 (B is the triangular factor of the reciprocal metric) and C20 (guard sites)"]
    from xfabsa import numeric as _N2
    _N2.hazard_rule(ctx, 'C02')
    return ("The five UBI conversions of both modules are evaluated by E3 with opaque callees and compared with the matrix "
            "expressions the property states, including where the factor tau sits and that the rows of UBI are handed to "
            "a_to_cell as columns; the sign normalisation after QR is verified on all eight sign patterns to produce "
            "(Q D, D R), i.e. the unique factorisation with positive diagonal and unchanged product.")
