"""
C08 -- structure factor equals the explicit sum over the unit-cell contents.

E3 on the symbolic structure of props/sfmodel.py: StructureFactor must equal,
as a normal form, the sum over atoms and operations of
  occ*mult/nsymop * (f(s) + f' + i f'') * DW * exp(2 pi i h.(R x + t))
with s = sintl(ucell, hkl) of the *given* cell, DW = exp(-8 pi^2 U s^2)
(isotropic), exp(-h beta' h) (anisotropic, beta = 2 pi^2 a*_i a*_j U_ij from
cell_invert of the given cell, U index layout 11,22,33,23,13,12) or 1 (no ADP),
dispersion (f', f'') from the table entry of the atom's type, 0 when the table
or the entry is None.
"""
from props import sfmodel as SF
from xfabsa import core, numeric as N
from xfabsa.core import AnalysisError
from xfabsa.poly import Rat
from xfabsa.symeval import Evaluator, sym_array, Arr, Opaque, scalar, materialise, vkey


def run(ctx):
    from xfabsa import numeric as _N
    _N.alias_rule(ctx, 'C08', ['xfab/structure.py', 'xfab/sg.py'])
    ctx.rule("sum", "F == explicit weighted sum (all ADP kinds, dispersion present / None entry / None table)")
    ctx.rule("args", "stl = sintl(ucell, hkl); cell_invert(ucell); FormFactor(type of the atom, stl)")
    ctx.rule("beta", "Uij2betaij == 2 pi^2 a*_i a*_j U_ij with U layout [[11,12,13],[12,22,23],[13,23,33]] from [11,22,33,23,13,12]")
    mod = core.module("xfab/structure.py")
    fn = mod.func("StructureFactor")
    ctx.saw(mod, fn)
    where = core.loc(mod, fn)
    a1, a2, a3 = SF.make_atom("1", "Uiso"), SF.make_atom("2", "Uani"), SF.make_atom("3", None)
    disp_full = {"T1": [Rat.atom("fp1"), Rat.atom("fpp1")], "T2": None, "T3": [Rat.atom("fp3"), Rat.atom("fpp3")]}
    cases = [
        ("no-dispersion-table", [SF.make_atom("1", "Uiso"), SF.make_atom("2", "Uani"), SF.make_atom("3", None)], None),
        ("dispersion-present-and-None-entry", [a1, a2, a3], disp_full),
        ("single-isotropic", [SF.make_atom("1", "Uiso")], {"T1": [Rat.atom("fp1"), Rat.atom("fpp1")]}),
    ]
    for name, atoms, disper in cases:
        (Fr, Fi), log, hkl, ucell = SF.evaluate(mod, atoms, 2, disper)
        Rr, Ri = SF.reference(atoms, 2, disper)
        ctx.check(Fr.equals(Rr) and Fi.equals(Ri), "C08:sum:%s" % name,
                  "F differs from the explicit sum occ*mult/nsymop*(f+f'+if'')*DW*exp(2 pi i h.r) (%s)" % name, where,
                  sample={"case": name, "atoms": [a.attrs["adp_type"] for a in atoms], "terms_in_Freal": len(Fr.num)})
        # argument wiring
        stl_calls = [l for l in log if l[0].endswith(".sintl")]
        ok = len(stl_calls) >= 1 and all(c_[0] == "xfab.tools.sintl" and vkey(c_[1][0]) == vkey(ucell) and vkey(c_[1][1]) == vkey(hkl)
                                         for c_ in stl_calls)
        ctx.check(ok, "C08:args:%s:sintl" % name, "stl is not tools.sintl(ucell, hkl) of the given cell and reflection", where)
        ff = [l for l in log if l[0] == "FormFactor"]
        # (which type each term uses is part of the sum rule: the value of FormFactor carries the type it was asked for)
        okf = {l[1][0] for l in ff} >= {a.attrs["atomtype"] for a in atoms} and all(scalar(l[1][1]).equals(Rat.atom("stl")) for l in ff)
        ctx.check(okf, "C08:args:%s:FormFactor" % name, "FormFactor is not evaluated for every atom type at stl = sintl(ucell, hkl)", where)
        ci = [l for l in log if l[0].endswith(".cell_invert")]
        nani = sum(1 for a in atoms if a.attrs["adp_type"] == "Uani")
        ctx.check((len(ci) >= 1 or not nani) and all(l[0] == "xfab.tools.cell_invert" and vkey(l[1][0]) == vkey(ucell) for l in ci),
                  "C08:args:%s:cell_invert" % name, "reciprocal cell for beta is not tools.cell_invert(ucell)", where)
    # Uij2betaij alone
    fn2 = mod.func("Uij2betaij"); ctx.saw(mod, fn2)
    adp = sym_array("adp", (6,))
    uc = sym_array("ucell", (6,))

    def ipol(name, args, kwargs, node):
        if name.endswith(".cell_invert"):
            return Opaque("cellstar", (6,))
        return NotImplemented
    out = Evaluator(mod, inline=True, import_policy=ipol).call_function("Uij2betaij", [adp, uc])
    B = out if isinstance(out, Arr) else materialise(out)
    layout = [[0, 5, 4], [5, 1, 3], [4, 3, 2]]
    ok = B is not None and B.shape == (3, 3)
    if ok:
        for i in range(3):
            for j in range(3):
                want = 2 * N.PI * N.PI * Rat.atom("cellstar[%d]" % i) * Rat.atom("cellstar[%d]" % j) * Rat.atom("adp[%d]" % layout[i][j])
                ok = ok and scalar(B.data[i][j]).equals(want)
    ctx.check(ok, "C08:beta:Uij2betaij", "beta_ij is not 2 pi^2 a*_i a*_j U_ij with the U11,U22,U33,U23,U13,U12 layout",
              core.loc(mod, fn2), sample={"beta[0][1]": N.short(scalar(B.data[0][1])) if B is not None else ""})
    # mutation of the caller's atom list: the no-ADP branch writes into the atom object
    a = SF.make_atom("9", None)
    SF.evaluate(mod, [a], 1, None)
    if a.stores:
        ctx.note("StructureFactor writes %s into atoms without adp_type (input mutation; does not change F)" %
                 [(k, v) for k, v in a.stores])
    ctx.not_decided += ["floating point; the listed consequences (lattice-shift invariance, linearity in occupancy, isotropic/"
                        "anisotropic equivalence, F(000)) follow on paper from the term identities, C15 (multiplicity) and C04"]
    ctx.assumptions += ["C16 (FormFactor), C01 (sintl, cell_invert), C15 (symmulti)", "numpy exp/cos/sin/dot"]
    from xfabsa import numeric as _N2
    _N2.hazard_rule(ctx, 'C08')
    return ("StructureFactor evaluated by E3 on a symbolic three-atom structure (isotropic, anisotropic, no ADP) with and "
            "without dispersion equals the explicit sum term by term; the wiring of sintl, cell_invert and FormFactor "
            "arguments and the beta tensor formula are decided separately.")
