"""
C04 -- each tabulated space group is a group consistent with its metadata and names.

Everything is decided on the literal tables extracted from xfab/sglib.py and
xfab/sg.py (E0) with exact integer/Fraction arithmetic (E6).  The oracle is the
group axioms and the tables' own metadata; nothing of xfab runs.
"""
import ast
import re
from fractions import Fraction

from xfabsa import core, tables, groupalg as ga
from xfabsa.core import AnalysisError

EXHAUSTIVE = True

LAUE_ORDER = {"-1": 2, "2/m": 4, "mmm": 8, "4/m": 8, "4/mmm": 16, "-3": 6, "-3m": 12,
              "-3m1": 12, "-31m": 12, "6/m": 12, "6/mmm": 24, "m-3": 24, "m-3m": 48}
LAUE_SYSTEM = {"-1": "triclinic", "2/m": "monoclinic", "mmm": "orthorhombic",
               "4/m": "tetragonal", "4/mmm": "tetragonal", "-3": "trigonal", "-3m": "trigonal",
               "-3m1": "trigonal", "-31m": "trigonal", "6/m": "hexagonal", "6/mmm": "hexagonal",
               "m-3": "cubic", "m-3m": "cubic"}
# number ranges of the International Tables per crystal system
SYSTEM_RANGE = [(1, 2, "triclinic"), (3, 15, "monoclinic"), (16, 74, "orthorhombic"),
                (75, 142, "tetragonal"), (143, 167, "trigonal"), (168, 194, "hexagonal"),
                (195, 230, "cubic")]


def normalise(name):
    return re.sub(r"\s+", "", name).lower()


def ops_of(s):
    """-> (ops list[(R, t mod 1)], problems list[str])"""
    probs = []
    rot, trans = s.rot, s.trans
    ops = []
    for i, (R, t) in enumerate(zip(rot, trans)):
        if not ga.is_int_matrix(R):
            probs.append("rot[%d] is not an integer 3x3 matrix: %r" % (i, R))
            continue
        R = ga.tup(R)
        if ga.det(R) not in (1, -1):
            probs.append("rot[%d] has determinant %s" % (i, ga.det(R)))
        if len(t) != 3:
            probs.append("trans[%d] has %d components" % (i, len(t)))
            continue
        ft = []
        for x in t:
            f = tables.frac_of(x)
            if f is None:
                probs.append("trans[%d] component %r is not k/24 within 1e-6" % (i, x))
                f = Fraction(x).limit_denominator(1000)
            ft.append(f)
        ops.append((R, ga.mod1(ft)))
    return ops, probs


def twofold_along(P, axis):
    for R in P:
        if ga.rotation_order(R) == 2 and ga.mvec(R, axis) == tuple(axis):
            return True
    return False


def check_setting(ctx, s, mod):
    k = "%s:%s" % (s.klass, s.arm)
    where = "%s:%d" % (mod.rel, s.lines.get("rot", 0))
    nontriv = s.nsymop > 1
    # rule 1: counts / integrality
    ok = ctx.check(len(s.rot) == s.nsymop and len(s.trans) == s.nsymop,
                   "C04:rows:%s" % k,
                   "nsymop=%s but %d rotations and %d translations are tabulated"
                   % (s.nsymop, len(s.rot), len(s.trans)), where)
    ops, probs = ops_of(s)
    ctx.check(not probs, "C04:entries:%s" % k, "; ".join(probs[:3]), where)
    if probs or not ok:
        return
    # rule 2: identity, duplicates, closure, inverses
    zero = (Fraction(0),) * 3
    ctx.check((ga.I3, zero) in ops, "C04:identity:%s" % k, "identity operation (I, 0) is not tabulated", where)
    dups = len(ops) - len(set(ops))
    ctx.check(dups == 0, "C04:duplicates:%s" % k,
              "%d duplicated (rotation, translation mod 1) pairs" % dups, where)
    missing, noinv = ga.closed_group(ops)
    ctx.check(not missing, "C04:closure:%s" % k,
              "not closed: op%s * op%s = %s is not tabulated" % (missing[0] if missing else (0, 0, 0)),
              where, sample={"setting": k, "nsymop": s.nsymop, "compositions": len(ops) ** 2} if nontriv else None)
    ctx.check(not noinv, "C04:inverses:%s" % k, "operations without inverse: %s" % noinv[:4], where)
    # rule 3: nuniq
    rots = [o[0] for o in ops]
    first = rots[:s.nuniq]
    ctx.check(len(set(first)) == s.nuniq and set(first) == set(rots), "C04:nuniq:%s" % k,
              "the first nuniq=%s rotations are not the %d distinct rotations of the table"
              % (s.nuniq, len(set(rots))), where)
    centring = {t for (R, t) in ops if R == ga.I3}
    ctx.check(s.nsymop == s.nuniq * len(centring), "C04:centring:%s" % k,
              "nsymop=%s != nuniq=%s x %d centring translations" % (s.nsymop, s.nuniq, len(centring)), where)
    # rule 4: Laue class
    L = set(rots) | {ga.neg(R) for R in rots}
    lname, det_ = ga.classify_laue(rots)
    declared = s.Laue
    want = LAUE_ORDER.get(declared)
    good = want is not None and len(L) == want
    if good:
        base = declared if declared not in ("-3m1", "-31m") else "-3m"
        good = (lname == base)
        if good and declared in ("-3m1", "-31m"):
            # hexagonal axes: -3m1 has its two-fold axes along <100>, -31m along <1-10>
            a100 = twofold_along(det_["proper"], (1, 0, 0))
            a110 = twofold_along(det_["proper"], (1, -1, 0))
            good = (a100 and not a110) if declared == "-3m1" else (a110 and not a100)
    ctx.check(good, "C04:laue:%s" % k,
              "declared Laue class %r (order %s) but rotations+inversion have order %d and element-order "
              "signature of %r" % (declared, want, len(L), lname), "%s:%d" % (mod.rel, s.lines.get("Laue", 0)))
    # rule 5: crystal system / setting metric
    setting = "rhombohedral" if s.arm == "rhombohedral" else "standard"
    basis = ga.conforming_metric_basis(s.crystal_system, setting)
    if basis is None:
        ctx.fail("C04:system:%s" % k, "unknown crystal system %r" % (s.crystal_system,),
                 "%s:%d" % (mod.rel, s.lines.get("crystal_system", 0)))
    else:
        bad = [(i, name) for i, R in enumerate(rots[:s.nuniq]) for name, G in basis.items()
               if not ga.preserves(R, G)]
        ctx.check(not bad, "C04:metric:%s" % k,
                  "rotation %s does not preserve the metric of every %s (%s) cell (basis element %s)"
                  % (bad[0][0] if bad else "", s.crystal_system, setting, bad[0][1] if bad else ""),
                  "%s:%d" % (mod.rel, s.lines.get("crystal_system", 0)))
        ctx.check(LAUE_SYSTEM.get(declared) == s.crystal_system, "C04:laue-system:%s" % k,
                  "Laue class %r belongs to the %s system, table says %r"
                  % (declared, LAUE_SYSTEM.get(declared), s.crystal_system),
                  "%s:%d" % (mod.rel, s.lines.get("crystal_system", 0)))
    # number <-> class name <-> system range
    n = int(s.klass[2:])
    rng = [sysn for lo, hi, sysn in SYSTEM_RANGE if lo <= n <= hi]
    ctx.check(s.no == n, "C04:number:%s" % k, "class %s declares no=%r" % (s.klass, s.no),
              "%s:%d" % (mod.rel, s.lines.get("no", 0)))
    ctx.check(rng and rng[0] == s.crystal_system, "C04:system-range:%s" % k,
              "space group %d lies in the %s range, table says %r" % (n, rng[0] if rng else "?", s.crystal_system),
              "%s:%d" % (mod.rel, s.lines.get("crystal_system", 0)))
    # cell_choice attribute agrees with the arm
    want_cc = {"rhombohedral": ("rhombohedral",), "standard": ("standard", "hexagonal")}[s.arm]
    ctx.check(s.cell_choice in want_cc, "C04:cell_choice:%s" % k,
              "arm %s sets cell_choice=%r" % (s.arm, s.cell_choice), "%s:%d" % (mod.rel, s.lines.get("cell_choice", 0)))


# ---------------------------------------------------------------------------
# look-up model of sg.sg.__init__ (verified by pattern, not run)
# ---------------------------------------------------------------------------

def _norm_expr(node):
    """matches  sub("\\s+", "", sgname).lower()"""
    return (isinstance(node, ast.Call) and isinstance(node.func, ast.Attribute) and node.func.attr == "lower"
            and isinstance(node.func.value, ast.Call)
            and isinstance(node.func.value.func, (ast.Name, ast.Attribute))
            and (getattr(node.func.value.func, "id", None) == "sub" or getattr(node.func.value.func, "attr", None) == "sub")
            and len(node.func.value.args) == 3
            and isinstance(node.func.value.args[0], ast.Constant) and node.func.value.args[0].value in ("\\s+", r"\s+", "\s+")
            and isinstance(node.func.value.args[1], ast.Constant) and node.func.value.args[1].value == ""
            and isinstance(node.func.value.args[2], ast.Name) and node.func.value.args[2].id == "sgname")


MARKERS = {"rot": (7, -11), "syscond": (3, 5), "trans": (Fraction(1, 4), Fraction(3, 4))}


def check_lookup_model(ctx):
    m = core.module("xfab/sg.py")
    ctx.saw(m, "sg.__init__")
    init = m.method("sg", "__init__")
    where = core.loc(m, init)
    args = [a.arg for a in init.args.args]
    if args != ["self", "sgno", "sgname", "cell_choice"]:
        raise AnalysisError("sg.__init__ signature changed: %s" % args)
    defaults = [tables.literal(d) for d in init.args.defaults]
    # sg.sg is evaluated (E7) for every number in both settings and for every key of the dictionary in five spellings:
    # which table class it requests, with which cell_choice, and that the nine attributes come from that table object.
    from xfabsa.poly import Rat
    from xfabsa.symeval import Arr, RaiseReached
    from xfabsa.objeval import ObjEvaluator, PyRaise, Sym, okey, exc_name_of
    dic = {k: v for k, v, _ln in tables.extract_sgdic()}
    node = ast.Constant(value=0)
    node.lineno = init.lineno
    requests = []

    def ipol(name, args, kwargs, node_):
        if name.startswith("xfab.sglib.Sg"):
            cname = name.rsplit(".", 1)[1]
            o = ev.new_obj("table:" + cname)
            bound = dict(kwargs)
            if args:
                bound["cell_choice"] = args[0]
            requests.append((cname, bound))
            for a in tables.SG_ATTRS:
                if a in ("syscond", "rot", "trans"):
                    # marker VALUES (what is copied from where); the tables' own values are decided by props/sgobject.py
                    o.attrs[a] = [Rat.const(v_) for v_ in MARKERS[a]]
                else:
                    o.attrs[a] = Sym("%s@" % a, "other")
            return o
        return NotImplemented
    ev = ObjEvaluator(m, inline=set(), import_policy=ipol, max_depth=8)

    def lookup(sgno, sgname, cell_choice):
        """-> (class requested, cell_choice handed to it, attributes that are NOT the table's own) | ('<Error>', name, None);
        cell_choice None: not passed (the constructor's own default)"""
        del requests[:]
        try:
            kw_ = {"sgno": sgno, "sgname": sgname}
            if cell_choice is not None:
                kw_["cell_choice"] = cell_choice
            o = ev.instantiate("sg", [], kw_, node)
        except (PyRaise, RaiseReached) as e:
            return "<%s>" % exc_name_of(e), None, None
        if len(requests) != 1:
            return "<%d table objects>" % len(requests), None, None
        cname, bound = requests[0]
        wrong = []
        for a in tables.SG_ATTRS:
            got = o.attrs.get(a)
            if a in ("syscond", "rot", "trans"):
                G = got if isinstance(got, Arr) else None
                ok = G is not None and len(G.flat()) == 2 and all(isinstance(x, Rat) and x.is_const() and x.const_value() == v_
                                                                   for x, v_ in zip(G.flat(), MARKERS[a]))
            else:
                ok = isinstance(got, Sym) and got.name == "%s@" % a
            if not ok:
                wrong.append(a)
        return cname, bound.get("cell_choice", "<default>"), wrong
    badno, badcopy = [], {}
    for n_ in range(1, 231):
        for cc in ("standard", "rhombohedral"):
            got = lookup(Rat.const(n_), None, cc)
            if got[:2] != ("Sg%d" % n_, cc):
                badno.append((n_, cc, got[:2]))
            for a in got[2] or []:
                badcopy.setdefault(a, (n_, cc))
    okno = ctx.check(not badno, "C04:lookup:by-number", "by-number look-up does not give ('Sg<n>', the caller's cell_choice): %s" % badno[:2], where)
    badname, badr = [], []
    nvar = 0
    for key, cname in dic.items():
        spaced = " ".join(key)
        for spelling in (key, key.upper(), key.capitalize(), spaced, " " + key[:1].upper() + key[1:] + " "):
            nvar += 1
            got = lookup(None, spelling, None)
            want_cc = "rhombohedral" if (key[0] == "r" and key[-1] == "r") else "standard"
            if got[0] != cname:
                badname.append((spelling, got[0]))
            elif got[1] != want_cc and not (want_cc == "standard" and got[1] == "<default>"):
                badr.append((spelling, got[1]))
            for a in got[2] or []:
                badcopy.setdefault(a, (spelling,))
    ctx.extra["name_spellings_evaluated"] = nvar
    okname = ctx.check(not badname, "C04:lookup:by-name",
                       "by-name look-up does not resolve white-space / case variants to sgdic[normalised name]: %s" % badname[:3], where,
                       sample={"spellings_evaluated": nvar, "example": ["R -3 C R", "r-3cr", "R-3cr"]})
    okr = ctx.check(not badr, "C04:lookup:r-suffix",
                    "cell_choice is not 'rhombohedral' exactly when the normalised name starts and ends with 'r': %s" % badr[:3], where)
    # a number without a setting is the standard setting (whatever the spelling of the default)
    dflt = lookup(Rat.const(146), None, None)
    ctx.check(dflt[0] == "Sg146" and dflt[1] in ("standard", "<default>"), "C04:lookup:defaults",
              "sg.sg(sgno=146) without a cell_choice requests %s" % (dflt[:2],), where)
    none = lookup(None, None, None)
    ctx.check(none[0].startswith("<"), "C04:lookup:neither", "sg.sg() without number and name does not raise (%s)" % (none[:2],), where)
    for a in tables.SG_ATTRS:
        ctx.check(a not in badcopy, "C04:lookup:copy:%s" % a,
                  "sg.%s is not copied from the requested table object's %s (e.g. for %s)" % (a, a, badcopy.get(a)), where)
    return okno and okname and okr


def run(ctx):
    from xfabsa import numeric as _N
    _N.alias_rule(ctx, 'C04', ['xfab/sg.py'])
    from props import sgobject
    sgobject.rule(ctx, "C04", "the tables sg.sg hands on are the tables checked here")
    ctx.rule("rows", "len(rot) == len(trans) == nsymop")
    ctx.rule("entries", "rotations integer with det +-1; translations k/24 within 1e-6")
    ctx.rule("closure", "closed under composition modulo lattice translations (all pairs)")
    ctx.rule("laue", "|{R} u {-R}| and element-order signature equal the declared Laue class")
    ctx.rule("metric", "R^T G R = G for every basis element G of the conforming metric tensors")
    ctx.rule("name", "every sgdic key resolves, by the look-up model of sg.__init__, to a setting whose name normalises to the key")
    mod = core.module("xfab/sglib.py")
    ctx.saw(mod)
    settings, info = tables.extract_sglib()
    ctx.floor("sglib classes", len(info), 230)
    ctx.floor("sglib settings", len(settings), 237)
    nops = 0
    for s in settings:
        check_setting(ctx, s, mod)
        nops += len(s.rot)
    ctx.extra["operations"] = nops
    ctx.extra["settings"] = len(settings)
    # numbers 1..230 all present exactly once
    nums = sorted(int(c[2:]) for c in info if c[2:].isdigit())
    ctx.check(nums == list(range(1, 231)), "C04:numbers:1..230",
              "classes Sg1..Sg230 are not all present exactly once (%d found)" % len(nums), mod.rel)
    # look-up model
    model_ok = check_lookup_model(ctx)
    sgm = core.module("xfab/sg.py")
    ctx.saw(sgm)
    dic = tables.extract_sgdic()
    ctx.floor("sgdic names", len(dic), 244)
    by = {(s.klass, s.arm): s for s in settings}
    keys = [k for k, v, ln in dic]
    ctx.check(len(keys) == len(set(keys)), "C04:name:unique-keys",
              "sgdic has duplicated keys: %s" % sorted({k for k in keys if keys.count(k) > 1})[:5], sgm.rel)
    reached = set()
    for key, cname, ln in dic:
        where = "%s:%d" % (sgm.rel, ln)
        ik = "C04:name:%s" % key
        if key != normalise(key):
            ctx.fail(ik, "key %r is not in normalised form (lower case, no white space): unreachable" % key, where)
            continue
        if cname not in info:
            ctx.fail(ik, "sgdic[%r] names %s which is not a class of sglib" % (key, cname), where)
            continue
        rh = key[0] == "r" and key[-1] == "r"
        if rh and not info[cname]["has_r_arm"]:
            ctx.fail(ik, "name %r selects the rhombohedral setting but %s has none" % (key, cname), where)
            continue
        arm = "rhombohedral" if rh else "standard"
        s = by[(cname, arm)]
        reached.add((cname, arm))
        nm = normalise(s.name)
        okk = key == nm or (info[cname]["has_r_arm"] and arm == "standard" and key == nm + "h")
        ctx.check(okk, ik, "sgdic[%r] -> %s (%s) whose name is %r" % (key, cname, arm, s.name), where,
                  sample={"key": key, "class": cname, "arm": arm, "table_name": s.name} if rh else None)
        # by-number with this setting reaches the same table: 'Sg%i' % no
        ctx.check("Sg%d" % s.no == cname, "C04:name-number:%s" % key,
                  "by name %r reaches %s but its number %s reaches Sg%s" % (key, cname, s.no, s.no), where)
    for (cname, arm), s in by.items():
        ctx.check((cname, arm) in reached, "C04:reachable:%s:%s" % (cname, arm),
                  "no accepted name reaches setting %s (%s) named %r" % (cname, arm, s.name),
                  "%s:%d" % (mod.rel, s.lines.get("name", 0)))
    # rhombohedral names exist only for classes with a rhombohedral arm: done above (rh and not has_r_arm)
    ctx.assumptions += ["the group named by a table is the group the tables define (C04 states consistency, "
                        "not agreement with International Tables A)",
                        "hasattr/getattr on xfab.sglib resolve the class of that name"]
    return ("All clauses of C04 decided exactly on the literal tables of sglib.py (%d settings, %d operations) "
            "and sg.py (%d names): counts, integrality, identity, duplicates, closure over all pairs, inverses, "
            "nuniq/centring factorisation, Laue class by order and element-order signature, metric invariance "
            "on a basis of the conforming metric tensors, numbering, and the name dictionary through the "
            "pattern-verified look-up model of sg.__init__." % (len(settings), nops, len(dic)))
