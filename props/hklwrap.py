"""
genhkl_unique and genhkl_all, *evaluated* (E7) on a model space group and a model list of unique reflections.

The model group has three tabulated rotations with nuniq = 2 (the third stands for a centring copy), all entries symbolic;
genhkl_base is replaced by a two-row table [h, k, l, stl] of symbols; numpy.unique(..., return_index=True) is an oracle
that returns a chosen index list (a permutation for the rotation set, a proper subset for one family -- "two members
coincide") so that the selection through its result is observable.  Shared by C05 (expansion) and C06 (unique list).
"""
import ast

from xfabsa import core, numeric as N
from xfabsa.core import AnalysisError
from xfabsa.poly import Rat
from xfabsa.symeval import Arr, Obj, Opaque, RaiseReached, scalar, materialise, sym_array, const_int
from xfabsa.objeval import ObjEvaluator, PyRaise, Sym, okey, exc_name_of

NODE = ast.Constant(value=0)
NODE.lineno = 0


DEFAULT_ROTATIONS = [[[1, 0, 0], [0, 1, 0], [0, 0, 1]], [[0, -1, 0], [1, -1, 0], [0, 0, 1]], [[1, 0, 0], [0, 1, 0], [0, 0, 1]]]


class Wrap(ObjEvaluator):
    def __init__(self, mod, family_subset=None, rotations=None):
        ObjEvaluator.__init__(self, mod, inline=set(), call_policy=self.cpol, import_policy=self.ipol, max_depth=8)
        self.rotations = rotations if rotations is not None else DEFAULT_ROTATIONS
        self.sg_calls = []
        self.base_calls = []
        self.unique_calls = []
        self.family_subset = family_subset          # indices unique() reports for a family (None: all, reversed)
        self.group = None

    def ipol(self, name, args, kwargs, node):
        if name == "xfab.sg.sg":
            self.sg_calls.append((list(args), dict(kwargs)))
            g = self.new_obj("spg")
            g.attrs.update(syscond=sym_array("syscond", (26,)), crystal_system=Sym("crystal_system@", "other"),
                           Laue=Sym("Laue@", "other"), cell_choice=Sym("cell_choice@", "other"), nuniq=Rat.const(2),
                           nsymop=Rat.const(3),
                           rot=materialise(sym_array("rot", (3, 3, 3))) if self.rotations is None
                           else Arr([[[Rat.const(x) for x in row] for row in R] for R in self.rotations]),
                           trans=materialise(sym_array("trans", (3, 3))),
                           name=Sym("name@", "other"), no=Sym("no@", "other"))
            self.group = g
            return g
        return NotImplemented

    def cpol(self, name, args, kwargs, node):
        if name == "genhkl_base":
            fn = self.mod.func("genhkl_base")
            params = [a.arg for a in fn.args.args]
            bound = dict(zip(params, args))
            bound.update(kwargs)
            self.base_calls.append(bound)
            return materialise(sym_array("Hu", (2, 4)))
        return NotImplemented

    def _np_call(self, name, args, kwargs, node):
        if name == "unique" and len(args) == 1 and kwargs.get("return_index") is True:
            V = args[0] if isinstance(args[0], Arr) else materialise(args[0])
            if V is None or len(V.shape) != 1:
                raise AnalysisError("unique() of a value that is not an explicit vector (line %d)" % node.lineno)
            n_ = V.shape[0]
            self.unique_calls.append(([scalar(x) for x in V.data], node))
            if len(self.unique_calls) == 1 or self.family_subset is None:
                idx = list(range(n_))[::-1]
            else:
                idx = [i for i in self.family_subset if i < n_]
            return (Opaque("unique-values#%d" % len(self.unique_calls)), Arr([Rat.const(i) for i in idx]))
        return ObjEvaluator._np_call(self, name, args, kwargs, node)


def same_rows(A, rows):
    M = A if isinstance(A, Arr) else materialise(A) if isinstance(A, (list, tuple, Opaque)) else None
    if M is None or len(M.shape) != 2 or M.shape[0] != len(rows):
        return False
    for r, want in zip(M.data, rows):
        if len(r) != len(want) or not all(scalar(x).equals(y) for x, y in zip(r, want)):
            return False
    return True


def group_request_ok(ev, fname, where_key, ctx, where, what):
    """sg.sg must receive the caller's name / number and cell_choice (three requests + the ValueError without either)"""
    ok = True
    why = ""
    for kw in (dict(sgname="P21/c", cell_choice="ccX"), dict(sgno=Rat.const(14), cell_choice="ccY")):
        e = ev()
        try:
            e.call_function(fname, [sym_array("unit_cell", (6,)), Rat.atom("sintlmin"), Rat.atom("sintlmax")], dict(kw))
        except (PyRaise, RaiseReached) as x:
            ok, why = False, "raises %s for %s" % (exc_name_of(x), {a: okey(b) for a, b in kw.items()})
            continue
        except AnalysisError:
            raise
        if len(e.sg_calls) != 1:
            ok, why = False, "%d space-group look-ups" % len(e.sg_calls)
            continue
        a, k = e.sg_calls[0]
        init = core.module("xfab/sg.py").method("sg", "__init__")
        params = [x.arg for x in init.args.args][1:]
        bound = dict(zip(params, a))
        bound.update(k)
        sel = "sgname" if "sgname" in kw else "sgno"
        other = "sgno" if sel == "sgname" else "sgname"
        if okey(bound.get(sel)) != okey(kw[sel]) or okey(bound.get("cell_choice")) != okey(kw["cell_choice"]) or bound.get(other) is not None:
            ok, why = False, "called with %s, sg.sg received %s" % ({a_: okey(b_) for a_, b_ in kw.items()}, {a_: okey(b_) for a_, b_ in bound.items()})
    e = ev()
    try:
        e.call_function(fname, [sym_array("unit_cell", (6,)), Rat.atom("sintlmin"), Rat.atom("sintlmax")], {})
        ok, why = False, "no exception without sgname and sgno"
    except (PyRaise, RaiseReached) as x:
        if exc_name_of(x) != "ValueError" and ok:
            ok, why = False, "raises %s, not ValueError, without sgname and sgno" % exc_name_of(x)
    ctx.check(ok, where_key, "the group is not sg.sg(sgname=.., cell_choice=..) / sg.sg(sgno=.., cell_choice=..)%s: %s" % (what, why), where)
    # end to end: what the caller forwards (its own defaults included), read by the real constructor, is the table the user names
    from props import sgobject
    init = core.module("xfab/sg.py").method("sg", "__init__")
    params = [x.arg for x in init.args.args][1:]

    def run_caller(user):
        e_ = ev()
        try:
            e_.call_function(fname, [sym_array("unit_cell", (6,)), Rat.atom("sintlmin"), Rat.atom("sintlmax")], dict(user))
        except (PyRaise, RaiseReached):
            pass
        if not e_.sg_calls:
            return None
        a_, k_ = e_.sg_calls[0]
        bound_ = dict(zip(params, a_))
        bound_.update(k_)
        return bound_
    pid_ = where_key.split(":")[0]
    sgobject.dispatch_rule(ctx, pid_, "%s.%s" % (getattr(ev(), "mod").rel.split("/")[-1][:-3], fname), run_caller, where)
    return ok


def base_call_ok(e):
    if len(e.base_calls) != 1 or e.group is None:
        return False, "%d calls of genhkl_base" % len(e.base_calls)
    b, g = e.base_calls[0], e.group.attrs
    want = {"sysconditions": g["syscond"], "crystal_system": g["crystal_system"], "Laue_class": g["Laue"], "cell_choice": g["cell_choice"]}
    for k, v in want.items():
        if okey(b.get(k)) != okey(v):
            return False, "%s receives %s" % (k, okey(b.get(k)))
    if okey(b.get("unit_cell")) != okey(sym_array("unit_cell", (6,))) or not scalar(b.get("sintlmin")).equals(Rat.atom("sintlmin")) \
            or not scalar(b.get("sintlmax")).equals(Rat.atom("sintlmax")):
        return False, "cell / shell bounds are not the caller's"
    if b.get("output_stl") is not True:
        return False, "output_stl is %s" % okey(b.get("output_stl"))
    return True, ""


def analyse_unique(ctx, mod, short):
    fu = mod.func("genhkl_unique")
    where = core.loc(mod, fu)
    args = [sym_array("unit_cell", (6,)), Rat.atom("sintlmin"), Rat.atom("sintlmax")]
    group_request_ok(lambda: Wrap(mod), "genhkl_unique", "C06:unique:%s:group" % short, ctx, where, " in genhkl_unique")
    Hu = [[Rat.atom("Hu[%d,%d]" % (r, c)) for c in range(4)] for r in range(2)]
    okc, why, oks = True, "", True
    for flag in (False, True, "default"):
        e = Wrap(mod)
        kw = dict(sgname="P21/c")
        if flag != "default":
            kw["output_stl"] = flag
        out = e.call_function("genhkl_unique", list(args), kw)
        o2, w2 = base_call_ok(e)
        if not o2:
            okc, why = False, w2
        want = Hu if flag is True else [r[:3] for r in Hu]
        if not same_rows(out, want):
            oks = False
    ctx.check(okc, "C06:unique:%s:base-call" % short,
              "genhkl_unique does not call genhkl_base with the looked-up group's syscond/crystal_system/Laue/cell_choice and output_stl=True (%s)" % why,
              where)
    ctx.check(oks, "C06:unique:%s:slice" % short, "the stl column is not removed exactly when output_stl == False", where)


def analyse_expand(ctx, mod, short, pid="C05"):
    fn = mod.func("genhkl_all")
    where = core.loc(mod, fn)
    args = [sym_array("unit_cell", (6,)), Rat.atom("sintlmin"), Rat.atom("sintlmax")]
    group_request_ok(lambda: Wrap(mod), "genhkl_all", "%s:expand:%s.group" % (pid, short), ctx, where, "")
    Hu = [[Rat.atom("Hu[%d,%d]" % (r, c)) for c in range(4)] for r in range(2)]
    E3x3 = [[1, 0, 0], [0, 1, 0], [0, 0, 1]]
    SHEAR = [[0, -1, 0], [1, -1, 0], [0, 0, 1]]        # 3-fold of the hexagonal frame: not symmetric, so h.R != R.h
    MIRROR = [[1, 0, 0], [0, 1, 0], [0, 0, -1]]        # improper, and the group {1, m} has no inversion
    for gname, rots_c in (("proper", [E3x3, SHEAR, E3x3]), ("mirror", [E3x3, MIRROR, E3x3])):
        _expand_on(ctx, mod, short, pid, fn, where, args, Hu, gname, rots_c)
    if any(isinstance(n_, ast.Attribute) and n_.attr == "rand" for n_ in ast.walk(fn)):
        ctx.note("%s.genhkl_all draws from numpy's global RNG for its de-duplication projections (side effect on the global state)" % short)


def _expand_on(ctx, mod, short, pid, fn, where, args, Hu, gname, rots_c):
    rot = [[[Rat.const(x) for x in row] for row in R] for R in rots_c]
    sfx = "" if gname == "proper" else ":" + gname

    def member(h, R, left=False):
        if left:
            return [sum((R[i][j] * h[j] for j in range(3)), Rat.const(0)) for i in range(3)]
        return [sum((h[i] * R[i][j] for i in range(3)), Rat.const(0)) for j in range(3)]

    def neg(R):
        return [[-x for x in row] for row in R]

    def expected(rots, subset, left=False, stl=True):
        rows = []
        for h in Hu:
            fam = [member(h[:3], R, left) + ([h[3]] if stl else []) for R in rots]
            rows += [fam[i] for i in subset if i < len(fam)]
        return rows
    good_rots = [rot[0], rot[1], neg(rot[0]), neg(rot[1])]
    results = {}
    for label, subset in (("all", None), ("subset", [2, 0, 3])):
        e = Wrap(mod, family_subset=subset, rotations=rots_c)
        try:
            out = e.call_function("genhkl_all", list(args), dict(sgname="P21/c", output_stl=True))
        except (PyRaise, RaiseReached) as x:
            raise AnalysisError("%s.genhkl_all raises %s on the model group" % (short, exc_name_of(x)))
        results[label] = (out, e)
    out, e = results["all"]
    okb, whyb = base_call_ok(e)
    ctx.check(okb, "%s:expand:%s.base-call%s" % (pid, short, sfx),
              "genhkl_base is not called with the looked-up group's syscond, crystal_system, Laue, cell_choice and output_stl=True (%s)" % whyb, where)
    full = list(range(4))[::-1]
    ok_all = same_rows(out, expected(good_rots, full))
    # diagnosis of a wrong expansion
    alt = {
        "rotations": [("all three tabulated rotations instead of the first nuniq", [rot[0], rot[1], rot[2], neg(rot[0]), neg(rot[1]), neg(rot[2])], False),
                      ("no negatives", [rot[0], rot[1]], False)],
        "right-action": [("R.h (rotation on the left) instead of h.R", good_rots, True)],
    }
    which, detail = None, ""
    if not ok_all:
        for key, cands in alt.items():
            for text, rots, left in cands:
                idx = list(range(len(rots)))[::-1]
                if same_rows(out, expected(rots, idx, left)):
                    which, detail = key, text
        if which is None:
            O = out if isinstance(out, Arr) else materialise(out) if isinstance(out, (list, tuple, Opaque)) else None
            if O is not None and len(O.shape) == 2 and O.shape == (8, 4) and same_rows(Arr([r[:3] for r in O.data]), [r[:3] for r in expected(good_rots, full)]):
                which, detail = "stl", "the fourth column is not the family's sin(theta)/lambda"
            else:
                which, detail = "right-action", "rows are %s" % (okey(out)[:160])
    ctx.check(which != "rotations", "%s:expand:%s.rotations%s" % (pid, short, sfx),
              "the expansion set is not concatenate((rot[:nuniq], -rot[:nuniq])) of the looked-up group: %s" % detail, where)
    ctx.check(which != "right-action", "%s:expand:%s.right-action%s" % (pid, short, sfx),
              "family members are not dot(hkl_row[:3], R) for every R of the expansion set (hkl row on the left): %s" % detail, where)
    ctx.check(which != "stl", "%s:expand:%s.stl%s" % (pid, short, sfx),
              "the family's sin(theta)/lambda (column 3 of the unique row) is not copied to each member: %s" % detail, where)
    out2, e2 = results["subset"]
    ok_sub = same_rows(out2, expected(good_rots, [2, 0, 3])) if ok_all else True
    ctx.check(ok_sub, "%s:expand:%s.dedupe%s" % (pid, short, sfx),
              "duplicates within a family are not removed by selecting rows through unique(..., return_index=True): with members 2, 0, 3 "
              "reported distinct the family rows are %s" % okey(out2)[:120], where)
    # without the stl column
    e3 = Wrap(mod, rotations=rots_c)
    out3 = e3.call_function("genhkl_all", list(args), dict(sgname="P21/c"))
    ctx.check(not ok_all or same_rows(out3, [r[:3] for r in expected(good_rots, full)]), "%s:expand:%s.slice%s" % (pid, short, sfx),
              "without output_stl the rows are not the hkl columns of the expanded list", where)
