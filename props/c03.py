"""
C03 -- every orientation parametrisation yields a proper rotation and inverts exactly.

E3: every constructor's nine entries are compared, as trigonometric-polynomial
normal forms (canonical under sin^2 = 1 - cos^2), with the checker-side product
of elementary rotations the property documents; the references are verified to
be proper rotations in the same algebra, so code == reference gives
orthonormality and det = +1 for ALL real arguments.  The inverse maps are
decided as reader/writer agreement: the writer's entry expressions are
substituted for the reader's subscripts.
"""
import ast

from xfabsa import core, numeric as N, rotref as RR
from xfabsa.core import AnalysisError
from xfabsa.poly import Rat, func_atom, single_atom
from xfabsa.symeval import monomial_sign, Evaluator, sym_array, Arr, Opaque, scalar, materialise, RaiseReached

SNAP_RATIO_MAX = 1e-6      # tol(_arctan2) / tol(gimbal) must not exceed the rebuild accuracy the property demands


def matrix_of(v, what):
    A = v if isinstance(v, Arr) else materialise(v)
    if A is None or A.shape != (3, 3):
        raise AnalysisError("%s does not evaluate to an explicit 3x3 array" % what)
    return [[scalar(x) for x in row] for row in A.data]


def compare(ctx, key, got, want, where, what, sample=False):
    bad = [(i, j) for i in range(3) for j in range(3) if not got[i][j].equals(want[i][j])]
    ctx.check(not bad, key,
              "%s: entry %s is %s ; documented composition gives %s"
              % (what, bad[0] if bad else "", N.short(got[bad[0][0]][bad[0][1]]) if bad else "",
                 N.short(want[bad[0][0]][bad[0][1]]) if bad else ""), where,
              sample={"constructor": what, "entry[0][1]": N.short(got[0][1], 200)} if sample else None)
    return not bad


def exc_name(r):
    from xfabsa.symeval import raised_name
    return raised_name(r)


def analyse_arctan2(ctx, mod, short):
    """_arctan2 must be the two-argument arctangent.  The function is evaluated (E3) on every sign case of (x, y) -- the signs
    answer whatever comparisons it makes, in whatever order or nesting -- and on the cases where one argument lies inside an
    absolute zero-snap band.  -> {argument: snap threshold}"""
    fn = mod.func("_arctan2"); ctx.saw(mod, fn)
    where = core.loc(mod, fn)
    if len(fn.args.args) != 2:
        raise AnalysisError("_arctan2 does not take (y, x)")
    PI = N.PI
    X, Y = Rat.atom("x"), Rat.atom("y")
    at = N.ref("arctan(q)", {"q": Y / X})
    snaps = {}

    def run_case(sx, sy, tiny=None):
        def thr(q, t, node):
            for nm, v in (("x", X), ("y", Y)):
                if q.equals(func_atom("abs", v)):
                    snaps[nm] = max(snaps.get(nm, 0.0), float(t))
                    return tiny == nm
            return None

        def signs(d, node=None):
            return monomial_sign(d, lambda a_: sx if a_ == "x" else sy if a_ == "y" else None)
        ev = Evaluator(mod, inline=set(), sign_policy=signs)
        ev.threshold_policy = thr
        try:
            return "value", ev.call_function("_arctan2", [Y if sy else Rat.const(0), X if sx else Rat.const(0)])
        except RaiseReached as r:
            return "raise", exc_name(r)

    def exact(sx, sy):
        a0 = at if (sy and sx) else Rat.const(0)
        if sx > 0:
            return a0
        if sx < 0:
            return a0 + PI if sy >= 0 else a0 - PI
        return PI / 2 if sy > 0 else -PI / 2
    for sx in (-1, 0, 1):
        for sy in (-1, 0, 1):
            case = "x%s0,y%s0" % ("<=>"[sx + 1], "<=>"[sy + 1])
            key = "C03:arctan2:%s.%s" % (short, case)
            kind, got = run_case(sx, sy)            # an unreadable idiom is an ANALYSIS-ERROR, not a verdict
            if sx == 0 and sy == 0:
                ctx.check(kind == "raise" and got == "ValueError", key, "(0,0) does not raise ValueError", where)
                continue
            if kind != "value" or got is None:
                ctx.fail(key, "no value is returned for the sign case %s (falls through / raises)" % case, where)
                continue
            got = scalar(got)
            want = exact(sx, sy)
            ctx.check(got.equals(want), key,
                      "sign case %s returns %s, the two-argument arctangent is %s there" % (case, N.short(got), N.short(want)), where)
    # inside a snap band the result must be the value at zero (or still the exact formula): same angle modulo 2 pi
    for nm in sorted(snaps):
        for st_ in (-1, 1):
            for so in (-1, 1):
                sx, sy = (st_, so) if nm == "x" else (so, st_)
                key = "C03:arctan2:%s.snap-%s%s,other%s" % (short, nm, "<>"[st_ > 0], "<>"[so > 0])
                kind, got = run_case(sx, sy, tiny=nm)
                at0 = exact(0, sy) if nm == "x" else exact(sx, 0)
                ok = kind == "value" and got is not None and any(scalar(got).equals(w + k * 2 * PI) for w in (at0, exact(sx, sy)) for k in (-1, 0, 1))
                ctx.check(ok, key, "with |%s| inside the snap band the result is %s, neither the value at %s = 0 (%s) nor the exact formula"
                          % (nm, N.short(scalar(got)) if kind == "value" and got is not None else (kind, got), nm, N.short(at0)), where)
    return snaps


def run(ctx):
    from xfabsa import numeric as _N
    _N.alias_rule(ctx, 'C03', ['xfab/tools.py', 'xfab/laue.py'])
    ctx.rule("ctor", "constructor entries == documented product of elementary rotations (E3), which is a proper rotation")
    ctx.rule("rod", "u_to_rod applied to the reference Rodrigues matrix returns r")
    ctx.rule("euler-inv", "u_to_euler reads the entries euler_to_u writes: (y, x) = p*(sin, cos) with p = sin(PHI) > 0")
    ctx.rule("arctan2", "_arctan2 is the two-argument arctangent on each of the nine sign cases of (x, y); (0,0) raises ValueError")
    ctx.rule("range", "wraps and arccos give [0,2pi] x [0,pi] x [0,2pi]")
    ctx.rule("snap", "absolute zero-snap of _arctan2 vs gimbal threshold: tol_z / tol_g <= 1e-6")
    for rel, short, two_pi in N.MODULES:
        mod = core.module(rel)
        ctx.saw(mod)

        def ev(**kw):
            return Evaluator(mod, inline=True, branch_policy=N.skip_checks_policy, **kw)
        A = {n_: Rat.atom(n_) for n_ in ("omega", "chi", "wedge", "tx", "ty", "tz", "phi1", "PHI", "phi2", "w", "wx", "wy")}
        # --- form_omega_mat
        fn = mod.func("form_omega_mat"); ctx.saw(mod, fn)
        got = matrix_of(ev().call_function("form_omega_mat", [A["omega"]]), "form_omega_mat")
        want = RR.elementary("z", A["omega"])
        compare(ctx, "C03:ctor:%s.form_omega_mat" % short, got, want, core.loc(mod, fn), "form_omega_mat = Rz(omega)")
        # --- form_omega_mat_general
        fn = mod.func("form_omega_mat_general"); ctx.saw(mod, fn)
        got = matrix_of(ev().call_function("form_omega_mat_general", [A["omega"], A["chi"], A["wedge"]]), "form_omega_mat_general")
        want = RR.mmul(RR.elementary("x", A["chi"]), RR.mmul(RR.elementary("y", A["wedge"]), RR.elementary("z", A["omega"])))
        if not RR.is_proper_rotation(want):
            raise AnalysisError("reference Rx Ry Rz is not a proper rotation (checker bug)")
        compare(ctx, "C03:ctor:%s.form_omega_mat_general" % short, got, want, core.loc(mod, fn),
                "form_omega_mat_general = Rx(chi) Ry(wedge) Rz(omega)", sample=True)
        # --- detect_tilt
        fn = mod.func("detect_tilt"); ctx.saw(mod, fn)
        got = matrix_of(ev().call_function("detect_tilt", [A["tx"], A["ty"], A["tz"]]), "detect_tilt")
        want = RR.mmul(RR.elementary("x", A["tx"]), RR.mmul(RR.elementary("y", A["ty"]), RR.elementary("z", A["tz"])))
        compare(ctx, "C03:ctor:%s.detect_tilt" % short, got, want, core.loc(mod, fn), "detect_tilt = Rx Ry Rz")
        # --- euler_to_u
        fn = mod.func("euler_to_u"); ctx.saw(mod, fn)
        Ue = matrix_of(ev().call_function("euler_to_u", [A["phi1"], A["PHI"], A["phi2"]]), "euler_to_u")
        want = RR.mmul(RR.elementary("z", A["phi1"]), RR.mmul(RR.elementary("x", A["PHI"]), RR.elementary("z", A["phi2"])))
        if not RR.is_proper_rotation(want):
            raise AnalysisError("reference Rz Rx Rz is not a proper rotation (checker bug)")
        compare(ctx, "C03:ctor:%s.euler_to_u" % short, Ue, want, core.loc(mod, fn),
                "euler_to_u = Rz(phi1) Rx(PHI) Rz(phi2)", sample=True)
        # --- quart_to_omega: P Rz(theta) P', theta = w*pi/180, in half-angle atoms
        fn = mod.func("quart_to_omega"); ctx.saw(mod, fn)
        got = matrix_of(ev().call_function("quart_to_omega", [A["w"], A["wx"], A["wy"]]), "quart_to_omega")
        ch, sh = RR.cs(A["w"] * N.PI / 360)
        env = {"c": ch * ch - sh * sh, "s": 2 * sh * ch}
        from refs import rotations as RF
        Rzt = RR.mat(RF.Rz("c", "s"), env)
        P = RR.mmul(RR.elementary("x", A["wx"]), RR.elementary("y", A["wy"]))
        want = RR.mmul(P, RR.mmul(Rzt, RR.transpose(P)))
        if not RR.is_proper_rotation(want):
            raise AnalysisError("reference P Rz P' is not a proper rotation (checker bug)")
        compare(ctx, "C03:ctor:%s.quart_to_omega" % short, got, want, core.loc(mod, fn),
                "quart_to_omega = P Rz(w deg) P', P = Rx(w_x) Ry(w_y)")
        # --- rod_to_u
        fn = mod.func("rod_to_u"); ctx.saw(mod, fn)
        r = sym_array("r", (3,))
        got = matrix_of(ev().call_function("rod_to_u", [r]), "rod_to_u")
        ratoms = [Rat.atom("r[%d]" % i) for i in range(3)]
        want = RR.rodrigues_passive(ratoms)
        if not RR.is_proper_rotation(want):
            raise AnalysisError("reference Rodrigues matrix is not a proper rotation (checker bug)")
        compare(ctx, "C03:ctor:%s.rod_to_u" % short, got, want, core.loc(mod, fn),
                "rod_to_u = transpose of the active rotation by 2 atan|r| about r")
        # --- u_to_rod inverts it (reader/writer)
        fn = mod.func("u_to_rod"); ctx.saw(mod, fn)

        Uarr = Arr([[x for x in row] for row in want])

        def rod_run(inside):
            seen = []

            def thr(q, t, node):
                seen.append((q, float(t)))
                return inside
            e_ = Evaluator(mod, inline=True, branch_policy=N.skip_checks_policy)
            e_.threshold_policy = thr
            return e_, seen
        e_, _seen = rod_run(False)       # generic rotation (angle != 180 deg): outside the trace band
        back = e_.call_function("u_to_rod", [Uarr.copy()])
        B = back if isinstance(back, Arr) else materialise(back)
        okb = B is not None and B.shape == (3,) and all(scalar(B.data[i]).equals(ratoms[i]) for i in range(3))
        ctx.check(okb, "C03:rod:%s.u_to_rod" % short,
                  "u_to_rod(rod_to_u(r)) is %s, not r" % (B.key()[:160] if B is not None else back), core.loc(mod, fn),
                  sample={"reader": "u_to_rod", "writer": "reference Rodrigues matrix", "result": B.key()[:80] if B is not None else ""})
        # every tolerance band the generic run passed by: rotations further than 1e-6 deg from 180 deg (1 + tr U = 4 sin^2(d/2)
        # > 3.05e-16) are inside the property's domain, so a wider band must not change the value
        EXCLUDED = 3.05e-16
        for q_, t_ in list(_seen):
            if t_ <= EXCLUDED:
                continue

            def thr_in(q2, t2, node, q_=q_, t_=t_):
                return q2.equals(q_) and float(t2) == t_
            e2 = Evaluator(mod, inline=True, branch_policy=N.skip_checks_policy)
            e2.threshold_policy = thr_in
            try:
                inside_val = e2.call_function("u_to_rod", [Uarr.copy()])
                Bi = inside_val if isinstance(inside_val, Arr) else materialise(inside_val)
                same_val = Bi is not None and B is not None and Bi.shape == B.shape and all(scalar(x).equals(scalar(y)) for x, y in zip(Bi.data, B.data))
                what = "returns %s" % (Bi.key()[:100] if Bi is not None else inside_val)
            except RaiseReached as r_:
                same_val, what = False, "raises %s" % exc_name(r_)
            ctx.check(same_val, "C03:rod:%s.u_to_rod:band" % short,
                      "when %s < %g -- which includes rotations up to %.2g deg away from 180 deg, inside the property's domain (only 1e-6 deg is "
                      "excluded) -- u_to_rod %s instead of the Rodrigues vector" % (N.short(q_, 60), t_, 2 * (t_ ** 0.5) * 90 / 3.141592653589793, what),
                      core.loc(mod, fn))
        # inside the band of a vanishing 1 + tr U: ValueError
        e_, seen = rod_run(True)
        try:
            e_.call_function("u_to_rod", [sym_array("U", (3, 3))])
            raised = None
        except RaiseReached as r_:
            raised = exc_name(r_)
        Us = [[Rat.atom("U[%d,%d]" % (i, j)) for j in range(3)] for i in range(3)]
        tr1 = 1 + Us[0][0] + Us[1][1] + Us[2][2]
        on_trace = bool(seen) and (seen[0][0].equals(func_atom("abs", tr1)) or seen[0][0].equals(tr1))
        ctx.check(raised == "ValueError" and on_trace, "C03:rod:%s.trace-guard" % short,
                  "vanishing 1 + tr U does not raise ValueError (raised: %s, band test on %s)"
                  % (raised, N.short(seen[0][0]) if seen else "nothing"), core.loc(mod, fn))
        # --- u_to_euler
        fn = mod.func("u_to_euler"); ctx.saw(mod, fn)
        where = core.loc(mod, fn)
        c1, s1 = RR.cs(A["phi1"]); cP, sP = RR.cs(A["PHI"]); c2, s2 = RR.cs(A["phi2"])

        def run_branch(U, neg=()):
            """-> (arguments of the _arctan2 calls, result, band tests met).  Band tests (`quantity < small literal`) are
            answered 'outside' for a symbolic quantity and fold by themselves when the quantity is a constant; the sign of an
            _arctan2 result is negative exactly for the atoms in `neg`."""
            calls, bands = [], []

            def cpol(name, args, kwargs, node):
                if name == "_arctan2":
                    # (an atom per distinct pair of arguments: which call comes first, or how often, does not matter)
                    y_, x_ = scalar(args[0]), scalar(args[1])
                    for k_, (yy_, xx_) in enumerate(calls):
                        if yy_.equals(y_) and xx_.equals(x_):
                            return Rat.atom("_arctan2#%d" % (k_ + 1))
                    calls.append((y_, x_))
                    return Rat.atom("_arctan2#%d" % len(calls))
                return NotImplemented

            def thr(q, t, node):
                bands.append((q, float(t), node))
                return False

            def signs(d, node=None):
                return monomial_sign(d, lambda a_: (-1 if a_ in neg else 1) if a_.startswith("_arctan2#") else None)
            e_ = Evaluator(mod, inline=True, branch_policy=N.skip_checks_policy, call_policy=cpol, sign_policy=signs)
            e_.threshold_policy = thr
            out = e_.call_function("u_to_euler", [U])
            O = out if isinstance(out, Arr) else materialise(out)
            return calls, O, bands
        Uw = Arr([[x for x in row] for row in Ue])
        calls, O, bands = run_branch(Uw.copy())
        def call_of(v_):
            """(index, (y, x)) of the _arctan2 call whose result v_ is, or None"""
            a_ = single_atom(scalar(v_)) if v_ is not None else None
            if a_ is None or not a_.startswith("_arctan2#"):
                return None
            k_ = int(a_.split("#")[1])
            return k_, calls[k_ - 1]
        ok = O is not None and O.shape == (3,) and call_of(O.data[0]) is not None and call_of(O.data[2]) is not None \
            and call_of(O.data[0])[0] != call_of(O.data[2])[0]
        k1 = k2 = None
        if ok:
            PHIv = scalar(O.data[1])
            okPHI = PHIv.equals(N.ref("arccos(x)", {"x": cP}))
            ctx.check(okPHI, "C03:euler-inv:%s.PHI" % short,
                      "PHI is %s, not arccos of the entry where euler_to_u writes cos(PHI)" % N.short(PHIv), where)
            (k1, (y1, x1)), (k2, (y2, x2)) = call_of(O.data[0]), call_of(O.data[2])
            ctx.check(y1.equals(sP * s1) and x1.equals(sP * c1),
                      "C03:euler-inv:%s.phi1" % short,
                      "phi1 = _arctan2(%s, %s): not sin(PHI)*(sin phi1, cos phi1)" % (N.short(y1), N.short(x1)), where,
                      sample={"reader": "u_to_euler general branch", "phi1 args": [N.short(y1), N.short(x1)]})
            ctx.check(y2.equals(sP * s2) and x2.equals(sP * c2),
                      "C03:euler-inv:%s.phi2" % short,
                      "phi2 = _arctan2(%s, %s): not sin(PHI)*(sin phi2, cos phi2)" % (N.short(y2), N.short(x2)), where)
        else:
            ctx.fail("C03:euler-inv:%s.shape" % short, "u_to_euler general branch does not return [phi1, PHI, phi2] from two _arctan2 calls", where)
        # gimbal branches: substitute PHI = 0 / pi into the writer's entries (the band tests then fold: arccos(+-1) is exact)
        for which, cval, sign in (("zero", 1, +1), ("pi", -1, -1)):
            sub = {"cos(PHI)": Rat.const(cval), "sin(PHI)": Rat.const(0)}
            Ug = Arr([[x.subs(sub) for x in row] for row in Ue])
            gcalls, Og, _b = run_branch(Ug)
            a0_ = single_atom(scalar(Og.data[0])) if Og is not None and Og.shape == (3,) else None
            okg = a0_ is not None and a0_.startswith("_arctan2#") and scalar(Og.data[2]).is_zero()
            if okg:
                y, x = gcalls[int(a0_.split("#")[1]) - 1]
                # sin/cos of (phi1 + sign*phi2)
                want_y = s1 * c2 + sign * c1 * s2
                want_x = c1 * c2 - sign * s1 * s2
                okg = y.equals(want_y) and x.equals(want_x)
            ctx.check(okg, "C03:euler-inv:%s.gimbal-%s" % (short, which),
                      "at PHI = %s the branch does not return (phi1 %s phi2, PHI, 0) from (sin, cos) of that sum"
                      % ("0" if which == "zero" else "pi", "+" if sign > 0 else "-"), where)
        # wraps: a negative arctangent is returned increased by 2 pi
        okw, detail = True, []
        if ok:
            for k, other, pos in ((k1, k2, 0), (k2, k1, 2)):
                _c, On, _b = run_branch(Uw.copy(), neg={"_arctan2#%d" % k})
                good = On is not None and On.shape == (3,) and scalar(On.data[pos]).equals(Rat.atom("_arctan2#%d" % k) + 2 * N.PI) \
                    and scalar(On.data[2 - pos]).equals(Rat.atom("_arctan2#%d" % other))
                detail.append(N.short(scalar(On.data[pos])) if On is not None and On.shape == (3,) else "?")
                okw = okw and good
        ctx.check(bool(ok and okw), "C03:range:%s.wraps" % short,
                  "phi1 and phi2 are not wrapped by +2pi when negative before being returned (negative results give %s)" % detail, where)
        snaps = analyse_arctan2(ctx, mod, short)
        # thresholds: the band tests met on the general path, classified by the quantity they bound
        import math
        acos = N.ref("arccos(x)", {"x": cP})
        widths, tols = [], []
        for q, t, node in bands:
            if q.equals(func_atom("abs", acos)) or q.equals(func_atom("abs", acos - N.PI)) or q.equals(func_atom("abs", N.PI - acos)) \
                    or q.equals(acos) or q.equals(N.PI - acos):
                widths.append(t); tols.append(t)
            elif q.equals(1 - cP) or q.equals(1 + cP) or q.equals(func_atom("abs", 1 - cP)) or q.equals(func_atom("abs", 1 + cP)):
                widths.append(math.sqrt(2 * t)); tols.append(t)
            else:
                raise AnalysisError("u_to_euler: band test on `%s` is neither on the angle PHI nor on its cosine" % N.short(q))
        if not tols:
            raise AnalysisError("u_to_euler: no gimbal threshold test met on the general path")
        tol_g = max(tols)
        afn = mod.func("_arctan2")
        tol_z = max(snaps.values(), default=None)
        if tol_z is None:
            ctx.ok("C03:snap:%s.u_to_euler" % short)      # no absolute snap: rule has no instance
        else:
            key = "C03:snap:%s.u_to_euler" % short
            ctx.check(tol_z / tol_g <= SNAP_RATIO_MAX * (1 + 1e-9), key,
                      "_arctan2 zeroes arguments below %.3g absolutely while the general branch is entered from "
                      "sin(PHI) >= %.3g: an entry sin(PHI)*sin(phi) is snapped to 0 while its partner is not whenever "
                      "|sin phi| < %.3g, an angle error of up to that size (property demands 1e-6)"
                      % (tol_z, tol_g, min(1.0, tol_z / tol_g)), core.loc(mod, afn),
                      sample={"tol_arctan2": tol_z, "tol_gimbal": tol_g})
            ctx.check(0 < tol_g <= 1e-6, "C03:snap:%s.gimbal-threshold" % short,
                      "gimbal threshold %.3g: inside it phi2 is set to 0, a rebuild error of up to the threshold" % tol_g,
                      core.loc(mod, fn))
        # width of the gimbal band in PHI: the test may be on the angle (|PHI| < tol) or on its cosine (1 - cos PHI < tol,
        # i.e. PHI < sqrt(2 tol)); inside the band phi2 is forced to 0 and the rebuilt matrix is off by up to the band width
        wmax = max(widths)
        ctx.check(wmax <= 1e-6 * (1 + 1e-9), "C03:snap:%s.gimbal-band" % short,
                  "the gimbal branches are taken for PHI within %.3g of 0 / pi (threshold %.3g applied to %s): there phi2 is forced "
                  "to 0 and the rebuilt matrix is off by up to that width; the property demands 1e-6"
                  % (wmax, tol_g, "1 -+ cos(PHI), i.e. a band of sqrt(2 tol)" if wmax > tol_g else "the angle"), core.loc(mod, fn))
    ctx.not_decided += ["accuracy of the inverse maps beyond the threshold rule (cancellation in 1 + tr U near 180 deg, "
                        "arccos near +-1)"]
    ctx.assumptions += ["numpy's cos, sin, arccos, arctan, dot, transpose",
                        "sin(PHI) >= 0 on [0, pi] (so the common factor of the arctangent arguments is non-negative)"]
    from xfabsa import numeric as _N2
    _N2.hazard_rule(ctx, 'C03')
    return ("Six constructors per module compared entry-wise, as canonical trigonometric polynomials, with the documented "
            "products of elementary rotations (themselves verified proper rotations in the same algebra): holds for all "
            "real arguments. u_to_rod and u_to_euler decided as reader/writer agreement on the writers' entries in all "
            "three branches; _arctan2 by its six sign cases; output ranges by the wraps; snap/gimbal thresholds by their literals.")
