"""
C03 -- every orientation parametrisation yields a proper rotation and inverts exactly.

E3: every constructor's nine entries are compared, as trigonometric-polynomial
normal forms (canonical under sin^2 = 1 - cos^2), with the checker-side product
of elementary rotations the property documents; the references are verified to
be proper rotations in the same algebra, so code == reference gives
orthonormality and det = +1 for ALL real arguments.  The inverse maps are
decided as reader/writer agreement: the writer's entry expressions are
substituted for the reader's subscripts.
"""
import ast

from xfabsa import core, numeric as N, rotref as RR
from xfabsa.core import AnalysisError
from xfabsa.poly import Rat
from xfabsa.symeval import Evaluator, sym_array, Arr, Opaque, scalar, materialise

SNAP_RATIO_MAX = 1e-6      # tol(_arctan2) / tol(gimbal) must not exceed the rebuild accuracy the property demands


def matrix_of(v, what):
    A = v if isinstance(v, Arr) else materialise(v)
    if A is None or A.shape != (3, 3):
        raise AnalysisError("%s does not evaluate to an explicit 3x3 array" % what)
    return [[scalar(x) for x in row] for row in A.data]


def compare(ctx, key, got, want, where, what, sample=False):
    bad = [(i, j) for i in range(3) for j in range(3) if not got[i][j].equals(want[i][j])]
    ctx.check(not bad, key,
              "%s: entry %s is %s ; documented composition gives %s"
              % (what, bad[0] if bad else "", N.short(got[bad[0][0]][bad[0][1]]) if bad else "",
                 N.short(want[bad[0][0]][bad[0][1]]) if bad else ""), where,
              sample={"constructor": what, "entry[0][1]": N.short(got[0][1], 200)} if sample else None)
    return not bad


def elif_chain(fn):
    """first top-level `if .. elif .. else` with two tests -> (if node, test1, test2)"""
    for st in core.body_wo_doc(fn):
        if isinstance(st, ast.If) and len(st.orelse) == 1 and isinstance(st.orelse[0], ast.If) and st.orelse[0].orelse:
            return st, st.test, st.orelse[0].test
    raise AnalysisError("u_to_euler: gimbal if/elif/else chain not found")


def literal_assign(fn, name):
    for st in core.body_wo_doc(fn):
        if isinstance(st, ast.Assign) and isinstance(st.targets[0], ast.Name) and st.targets[0].id == name \
                and isinstance(st.value, ast.Constant) and isinstance(st.value.value, (int, float)):
            return float(st.value.value), st
    return None, None


def analyse_arctan2(ctx, mod, short):
    """_arctan2 must be the two-argument arctangent: branch table by signs"""
    fn = mod.func("_arctan2"); ctx.saw(mod, fn)
    where = core.loc(mod, fn)
    py, px = [a.arg for a in fn.args.args]
    body = core.body_wo_doc(fn)
    # snaps: `if n.abs(v) < tol: v = 0`
    tol, tolst = literal_assign(fn, "tol")
    snaps = {}
    chain = None
    for st in body:
        if isinstance(st, ast.If):
            t = st.test
            if (isinstance(t, ast.Compare) and len(t.ops) == 1 and isinstance(t.ops[0], ast.Lt)
                    and isinstance(t.left, ast.Call) and getattr(t.left.func, "attr", getattr(t.left.func, "id", "")) in ("abs", "absolute")
                    and isinstance(t.left.args[0], ast.Name)):
                v = t.left.args[0].id
                okb = (len(st.body) == 1 and isinstance(st.body[0], ast.Assign) and st.body[0].targets[0].id == v
                       and isinstance(st.body[0].value, ast.Constant) and st.body[0].value.value == 0 and not st.orelse)
                if not okb:
                    raise AnalysisError("_arctan2: snap statement of unexpected form")
                thr = t.comparators[0]
                thr = tol if isinstance(thr, ast.Name) and thr.id == "tol" else (thr.value if isinstance(thr, ast.Constant) else None)
                snaps[v] = thr
            else:
                chain = st
    if chain is None:
        raise AnalysisError("_arctan2: branch chain not found")
    # walk the if/elif chain
    arms = []
    node = chain
    while True:
        arms.append((node.test, node.body))
        if len(node.orelse) == 1 and isinstance(node.orelse[0], ast.If):
            node = node.orelse[0]
        else:
            tail = node.orelse
            break
    PI = N.PI
    yx = Rat.atom("y") / Rat.atom("x")
    at = N.ref("arctan(q)", {"q": yx})

    def truth(t, sx, sy):
        """evaluate a condition over comparisons of x / y with 0 on a sign case (-1, 0, +1)"""
        if isinstance(t, ast.BoolOp):
            vals = [truth(v, sx, sy) for v in t.values]
            return all(vals) if isinstance(t.op, ast.And) else any(vals)
        if isinstance(t, ast.UnaryOp) and isinstance(t.op, ast.Not):
            return not truth(t.operand, sx, sy)
        if isinstance(t, ast.Compare) and len(t.ops) == 1 and isinstance(t.left, ast.Name) \
                and isinstance(t.comparators[0], ast.Constant) and t.comparators[0].value == 0 \
                and t.left.id in (px, py):
            v = sx if t.left.id == px else sy
            return {ast.Gt: v > 0, ast.Lt: v < 0, ast.GtE: v >= 0, ast.LtE: v <= 0, ast.Eq: v == 0,
                    ast.NotEq: v != 0}[type(t.ops[0])]
        raise AnalysisError("_arctan2: condition `%s` is not a sign test of the arguments" % core.unparse(t))
    for sx in (-1, 0, 1):
        for sy in (-1, 0, 1):
            case = "x%s0,y%s0" % ("<=>"[sx + 1], "<=>"[sy + 1])
            body_ = None
            for t, b in arms:
                if truth(t, sx, sy):
                    body_ = b
                    break
            if body_ is None:
                body_ = tail
            key = "C03:arctan2:%s.%s" % (short, case)
            st = body_[0] if len(body_) == 1 else None
            if sx == 0 and sy == 0:
                ok = isinstance(st, ast.Raise) and isinstance(st.exc, ast.Call) and getattr(st.exc.func, "id", "") == "ValueError"
                ctx.check(ok, key, "(0,0) does not raise ValueError", where)
                continue
            if not isinstance(st, ast.Return) or st.value is None:
                ctx.fail(key, "no value is returned for the sign case %s (falls through / raises)" % case, where)
                continue
            env = {py: Rat.atom("y") if sy else Rat.const(0), px: Rat.atom("x") if sx else Rat.const(0)}
            try:
                got = scalar(Evaluator(mod, inline=set()).eval(st.value, env))
            except AnalysisError as e:
                ctx.fail(key, "return expression cannot be evaluated in the sign case %s: %s" % (case, e), core.loc(mod, st))
                continue
            a0 = at if sy else Rat.const(0)
            if sx > 0:
                want = a0
            elif sx < 0:
                want = a0 + PI if sy >= 0 else a0 - PI
            else:
                want = PI / 2 if sy > 0 else -PI / 2
            ctx.check(got.equals(want), key,
                      "sign case %s returns %s, the two-argument arctangent is %s there" % (case, N.short(got), N.short(want)),
                      core.loc(mod, st))
    return snaps


def run(ctx):
    from xfabsa import numeric as _N
    _N.alias_rule(ctx, 'C03', ['xfab/tools.py', 'xfab/laue.py'])
    ctx.rule("ctor", "constructor entries == documented product of elementary rotations (E3), which is a proper rotation")
    ctx.rule("rod", "u_to_rod applied to the reference Rodrigues matrix returns r")
    ctx.rule("euler-inv", "u_to_euler reads the entries euler_to_u writes: (y, x) = p*(sin, cos) with p = sin(PHI) > 0")
    ctx.rule("arctan2", "_arctan2 is the two-argument arctangent on each of the nine sign cases of (x, y); (0,0) raises ValueError")
    ctx.rule("range", "wraps and arccos give [0,2pi] x [0,pi] x [0,2pi]")
    ctx.rule("snap", "absolute zero-snap of _arctan2 vs gimbal threshold: tol_z / tol_g <= 1e-6")
    for rel, short, two_pi in N.MODULES:
        mod = core.module(rel)
        ctx.saw(mod)

        def ev(**kw):
            return Evaluator(mod, inline=True, branch_policy=N.skip_checks_policy, **kw)
        A = {n_: Rat.atom(n_) for n_ in ("omega", "chi", "wedge", "tx", "ty", "tz", "phi1", "PHI", "phi2", "w", "wx", "wy")}
        # --- form_omega_mat
        fn = mod.func("form_omega_mat"); ctx.saw(mod, fn)
        got = matrix_of(ev().call_function("form_omega_mat", [A["omega"]]), "form_omega_mat")
        want = RR.elementary("z", A["omega"])
        compare(ctx, "C03:ctor:%s.form_omega_mat" % short, got, want, core.loc(mod, fn), "form_omega_mat = Rz(omega)")
        # --- form_omega_mat_general
        fn = mod.func("form_omega_mat_general"); ctx.saw(mod, fn)
        got = matrix_of(ev().call_function("form_omega_mat_general", [A["omega"], A["chi"], A["wedge"]]), "form_omega_mat_general")
        want = RR.mmul(RR.elementary("x", A["chi"]), RR.mmul(RR.elementary("y", A["wedge"]), RR.elementary("z", A["omega"])))
        if not RR.is_proper_rotation(want):
            raise AnalysisError("reference Rx Ry Rz is not a proper rotation (checker bug)")
        compare(ctx, "C03:ctor:%s.form_omega_mat_general" % short, got, want, core.loc(mod, fn),
                "form_omega_mat_general = Rx(chi) Ry(wedge) Rz(omega)", sample=True)
        # --- detect_tilt
        fn = mod.func("detect_tilt"); ctx.saw(mod, fn)
        got = matrix_of(ev().call_function("detect_tilt", [A["tx"], A["ty"], A["tz"]]), "detect_tilt")
        want = RR.mmul(RR.elementary("x", A["tx"]), RR.mmul(RR.elementary("y", A["ty"]), RR.elementary("z", A["tz"])))
        compare(ctx, "C03:ctor:%s.detect_tilt" % short, got, want, core.loc(mod, fn), "detect_tilt = Rx Ry Rz")
        # --- euler_to_u
        fn = mod.func("euler_to_u"); ctx.saw(mod, fn)
        Ue = matrix_of(ev().call_function("euler_to_u", [A["phi1"], A["PHI"], A["phi2"]]), "euler_to_u")
        want = RR.mmul(RR.elementary("z", A["phi1"]), RR.mmul(RR.elementary("x", A["PHI"]), RR.elementary("z", A["phi2"])))
        if not RR.is_proper_rotation(want):
            raise AnalysisError("reference Rz Rx Rz is not a proper rotation (checker bug)")
        compare(ctx, "C03:ctor:%s.euler_to_u" % short, Ue, want, core.loc(mod, fn),
                "euler_to_u = Rz(phi1) Rx(PHI) Rz(phi2)", sample=True)
        # --- quart_to_omega: P Rz(theta) P', theta = w*pi/180, in half-angle atoms
        fn = mod.func("quart_to_omega"); ctx.saw(mod, fn)
        got = matrix_of(ev().call_function("quart_to_omega", [A["w"], A["wx"], A["wy"]]), "quart_to_omega")
        ch, sh = RR.cs(A["w"] * N.PI / 360)
        env = {"c": ch * ch - sh * sh, "s": 2 * sh * ch}
        from refs import rotations as RF
        Rzt = RR.mat(RF.Rz("c", "s"), env)
        P = RR.mmul(RR.elementary("x", A["wx"]), RR.elementary("y", A["wy"]))
        want = RR.mmul(P, RR.mmul(Rzt, RR.transpose(P)))
        if not RR.is_proper_rotation(want):
            raise AnalysisError("reference P Rz P' is not a proper rotation (checker bug)")
        compare(ctx, "C03:ctor:%s.quart_to_omega" % short, got, want, core.loc(mod, fn),
                "quart_to_omega = P Rz(w deg) P', P = Rx(w_x) Ry(w_y)")
        # --- rod_to_u
        fn = mod.func("rod_to_u"); ctx.saw(mod, fn)
        r = sym_array("r", (3,))
        got = matrix_of(ev().call_function("rod_to_u", [r]), "rod_to_u")
        ratoms = [Rat.atom("r[%d]" % i) for i in range(3)]
        want = RR.rodrigues_passive(ratoms)
        if not RR.is_proper_rotation(want):
            raise AnalysisError("reference Rodrigues matrix is not a proper rotation (checker bug)")
        compare(ctx, "C03:ctor:%s.rod_to_u" % short, got, want, core.loc(mod, fn),
                "rod_to_u = transpose of the active rotation by 2 atan|r| about r")
        # --- u_to_rod inverts it (reader/writer)
        fn = mod.func("u_to_rod"); ctx.saw(mod, fn)

        def pol(test, e, env):
            if N.skip_checks_policy(test, e, env) is False:
                return False
            if isinstance(test, ast.Compare) and "abs" in core.unparse(test.left):
                return False        # trace guard: generic rotation (angle != 180 deg)
            return None
        Uarr = Arr([[x for x in row] for row in want])
        back = Evaluator(mod, inline=True, branch_policy=pol).call_function("u_to_rod", [Uarr])
        B = back if isinstance(back, Arr) else materialise(back)
        okb = B is not None and B.shape == (3,) and all(scalar(B.data[i]).equals(ratoms[i]) for i in range(3))
        ctx.check(okb, "C03:rod:%s.u_to_rod" % short,
                  "u_to_rod(rod_to_u(r)) is %s, not r" % (B.key()[:160] if B is not None else back), core.loc(mod, fn),
                  sample={"reader": "u_to_rod", "writer": "reference Rodrigues matrix", "result": B.key()[:80] if B is not None else ""})
        # trace guard raises ValueError
        tg = [st for st in core.body_wo_doc(fn) if isinstance(st, ast.If) and any(isinstance(x, ast.Raise) for x in st.body)]
        ctx.check(len(tg) == 1 and getattr(tg[0].body[0].exc.func, "id", "") == "ValueError", "C03:rod:%s.trace-guard" % short,
                  "vanishing 1 + tr U does not raise ValueError", core.loc(mod, fn))
        # --- u_to_euler
        fn = mod.func("u_to_euler"); ctx.saw(mod, fn)
        where = core.loc(mod, fn)
        chain, t1, t2 = elif_chain(fn)
        c1, s1 = RR.cs(A["phi1"]); cP, sP = RR.cs(A["PHI"]); c2, s2 = RR.cs(A["phi2"])

        def run_branch(which, U):
            calls = []

            def cpol(name, args, kwargs, node):
                if name == "_arctan2":
                    calls.append((scalar(args[0]), scalar(args[1])))
                    return Rat.atom("_arctan2#%d" % len(calls))
                return NotImplemented

            def bpol(test, e, env):
                if N.skip_checks_policy(test, e, env) is False:
                    return False
                if test is t1:
                    return which == "zero"
                if test is t2:
                    return which == "pi"
                if isinstance(test, ast.Compare) and len(test.ops) == 1 and isinstance(test.ops[0], ast.Lt) \
                        and isinstance(test.comparators[0], ast.Constant) and test.comparators[0].value == 0:
                    return False
                return None
            out = Evaluator(mod, inline=True, branch_policy=bpol, call_policy=cpol).call_function("u_to_euler", [U])
            O = out if isinstance(out, Arr) else materialise(out)
            return calls, O
        Uw = Arr([[x for x in row] for row in Ue])
        calls, O = run_branch("general", Uw)
        ok = O is not None and O.shape == (3,) and len(calls) == 2
        if ok:
            PHIv = scalar(O.data[1])
            okPHI = PHIv.equals(N.ref("arccos(x)", {"x": cP}))
            ctx.check(okPHI, "C03:euler-inv:%s.PHI" % short,
                      "PHI is %s, not arccos of the entry where euler_to_u writes cos(PHI)" % N.short(PHIv), where)
            (y1, x1), (y2, x2) = calls
            ctx.check(y1.equals(sP * s1) and x1.equals(sP * c1) and scalar(O.data[0]).equals(Rat.atom("_arctan2#1")),
                      "C03:euler-inv:%s.phi1" % short,
                      "phi1 = _arctan2(%s, %s): not sin(PHI)*(sin phi1, cos phi1)" % (N.short(y1), N.short(x1)), where,
                      sample={"reader": "u_to_euler general branch", "phi1 args": [N.short(y1), N.short(x1)]})
            ctx.check(y2.equals(sP * s2) and x2.equals(sP * c2) and scalar(O.data[2]).equals(Rat.atom("_arctan2#2")),
                      "C03:euler-inv:%s.phi2" % short,
                      "phi2 = _arctan2(%s, %s): not sin(PHI)*(sin phi2, cos phi2)" % (N.short(y2), N.short(x2)), where)
        else:
            ctx.fail("C03:euler-inv:%s.shape" % short, "u_to_euler general branch does not return [phi1, PHI, phi2] from two _arctan2 calls", where)
        # gimbal branches: substitute PHI = 0 / pi into the writer's entries
        for which, cval, sign in (("zero", 1, +1), ("pi", -1, -1)):
            sub = {"cos(PHI)": Rat.const(cval), "sin(PHI)": Rat.const(0)}
            Ug = Arr([[x.subs(sub) for x in row] for row in Ue])
            calls, O = run_branch(which, Ug)
            okg = O is not None and O.shape == (3,) and len(calls) == 1 and scalar(O.data[2]).is_zero() \
                and scalar(O.data[0]).equals(Rat.atom("_arctan2#1"))
            if okg:
                y, x = calls[0]
                # sin/cos of (phi1 + sign*phi2)
                want_y = s1 * c2 + sign * c1 * s2
                want_x = c1 * c2 - sign * s1 * s2
                okg = y.equals(want_y) and x.equals(want_x)
            ctx.check(okg, "C03:euler-inv:%s.gimbal-%s" % (short, which),
                      "at PHI = %s the branch does not return (phi1 %s phi2, PHI, 0) from (sin, cos) of that sum"
                      % ("0" if which == "zero" else "pi", "+" if sign > 0 else "-"), where)
        # wraps and result
        body = core.body_wo_doc(fn)
        wraps = {}
        for st in body:
            if isinstance(st, ast.If) and isinstance(st.test, ast.Compare) and isinstance(st.test.left, ast.Name) \
                    and isinstance(st.test.ops[0], ast.Lt) and isinstance(st.test.comparators[0], ast.Constant) \
                    and st.test.comparators[0].value == 0 and len(st.body) == 1 and isinstance(st.body[0], ast.Assign):
                v = st.test.left.id
                e = Evaluator(mod, inline=set())
                val = scalar(e.eval(st.body[0].value, {v: Rat.atom(v)}))
                wraps[v] = val.equals(Rat.atom(v) + 2 * N.PI) and st.body[0].targets[0].id == v and not st.orelse
        ret = [st for st in body if isinstance(st, ast.Return)]
        names = []
        if ret and isinstance(ret[-1].value, ast.Call) and ret[-1].value.args and isinstance(ret[-1].value.args[0], (ast.List, ast.Tuple)):
            names = [getattr(x, "id", None) for x in ret[-1].value.args[0].elts]
        okw = len(names) == 3 and wraps.get(names[0]) and wraps.get(names[2])
        ctx.check(bool(okw), "C03:range:%s.wraps" % short,
                  "phi1 and phi2 are not wrapped by +2pi when negative before being returned (%s, %s)" % (names, wraps), where)
        # PHI assignment is arccos (range [0, pi])
        snaps = analyse_arctan2(ctx, mod, short)
        # thresholds
        tol_g, st_g = literal_assign(fn, "tol")
        afn = mod.func("_arctan2")
        tol_z = max([v for v in snaps.values() if v is not None], default=None)
        uses_tol = all("tol" in core.unparse(t) for t in (t1, t2))
        if tol_g is None or not uses_tol:
            raise AnalysisError("u_to_euler: gimbal threshold literal `tol` not found")
        if tol_z is None:
            ctx.ok("C03:snap:%s.u_to_euler" % short)      # no absolute snap: rule has no instance
        else:
            key = "C03:snap:%s.u_to_euler" % short
            ctx.check(tol_z / tol_g <= SNAP_RATIO_MAX * (1 + 1e-9), key,
                      "_arctan2 zeroes arguments below %.3g absolutely while the general branch is entered from "
                      "sin(PHI) >= %.3g: an entry sin(PHI)*sin(phi) is snapped to 0 while its partner is not whenever "
                      "|sin phi| < %.3g, an angle error of up to that size (property demands 1e-6)"
                      % (tol_z, tol_g, min(1.0, tol_z / tol_g)), core.loc(mod, afn),
                      sample={"tol_arctan2": tol_z, "tol_gimbal": tol_g})
            ctx.check(0 < tol_g <= 1e-6, "C03:snap:%s.gimbal-threshold" % short,
                      "gimbal threshold %.3g: inside it phi2 is set to 0, a rebuild error of up to the threshold" % tol_g,
                      core.loc(mod, fn))
        # width of the gimbal band in PHI: the test may be on the angle (|PHI| < tol) or on its cosine (1 - cos PHI < tol,
        # i.e. PHI < sqrt(2 tol)); inside the band phi2 is forced to 0 and the rebuilt matrix is off by up to the band width
        import math
        Usym = sym_array("U", (3, 3))
        u22 = Rat.atom("U[2,2]")
        acos = N.ref("arccos(x)", {"x": u22})
        widths = []
        for t_ in (t1, t2):
            if not (isinstance(t_, ast.Compare) and len(t_.ops) == 1 and isinstance(t_.ops[0], (ast.Lt, ast.LtE))):
                raise AnalysisError("u_to_euler: gimbal test `%s` is not `<expr> < tol`" % core.unparse(t_))
            e_ = Evaluator(mod, inline=set())
            env_ = {}
            # bind every name the test mentions by evaluating the statements before the chain
            for st_ in core.body_wo_doc(fn):
                if st_ is chain:
                    break
                if isinstance(st_, ast.Assign) and isinstance(st_.targets[0], ast.Name):
                    try:
                        env_[st_.targets[0].id] = e_.eval(st_.value, dict(env_, **{fn.args.args[0].arg: Usym}))
                    except AnalysisError:
                        pass
            left = scalar(e_.eval(t_.left, env_))
            form = None
            from xfabsa.poly import func_atom
            if left.equals(func_atom("abs", acos)) or left.equals(func_atom("abs", acos - N.PI)):
                form = "angle"
            elif left.equals(1 - u22) or left.equals(1 + u22):
                form = "cosine"
            if form is None:
                raise AnalysisError("u_to_euler: gimbal test `%s` is neither on the angle nor on its cosine" % core.unparse(t_))
            widths.append(tol_g if form == "angle" else math.sqrt(2 * tol_g))
        wmax = max(widths)
        ctx.check(wmax <= 1e-6 * (1 + 1e-9), "C03:snap:%s.gimbal-band" % short,
                  "the gimbal branches are taken for PHI within %.3g of 0 / pi (threshold %.3g applied to %s): there phi2 is forced "
                  "to 0 and the rebuilt matrix is off by up to that width; the property demands 1e-6"
                  % (wmax, tol_g, "1 -+ cos(PHI), i.e. a band of sqrt(2 tol)" if wmax > tol_g else "the angle"), core.loc(mod, fn))
    ctx.not_decided += ["accuracy of the inverse maps beyond the threshold rule (cancellation in 1 + tr U near 180 deg, "
                        "arccos near +-1)"]
    ctx.assumptions += ["numpy's cos, sin, arccos, arctan, dot, transpose",
                        "sin(PHI) >= 0 on [0, pi] (so the common factor of the arctangent arguments is non-negative)"]
    from xfabsa import numeric as _N2
    _N2.hazard_rule(ctx, 'C03')
    return ("Six constructors per module compared entry-wise, as canonical trigonometric polynomials, with the documented "
            "products of elementary rotations (themselves verified proper rotations in the same algebra): holds for all "
            "real arguments. u_to_rod and u_to_euler decided as reader/writer agreement on the writers' entries in all "
            "three branches; _arctan2 by its six sign cases; output ranges by the wraps; snap/gimbal thresholds by their literals.")
