"""
C05 -- genhkl_all returns exactly the reflections the space group allows in the shell.

Table half (exact, exhaustive over the 237 settings) plus data-flow templates:

 syscond    for every hkl in the setting's traversal cones inside a box, the 26-slot model of
            sysabs_unique (re-extracted from the source on every run) with the setting's syscond
            vector and sysabs's index-permutation schedule says "absent" exactly when some tabulated
            operation (R,t) has hR = h and h.t not an integer
 earlyexit  the traversal leaves a row / plane at the first point beyond the cut-off; that is complete
            for every conforming cell iff apex and generators of each cone are pairwise non-obtuse in
            every conforming reciprocal metric (decided exactly per metric family)
 expand     genhkl_all expands each unique reflection with rot[:nuniq] and their negatives acting on the
            right of the hkl row, copies sin(theta)/lambda, and removes duplicates by a unique()-selection
 rsetting   for the seven R groups the hexagonal table conjugated by the obverse transformation is the
            rhombohedral table
"""
import ast
import os
from multiprocessing import Pool

from props import hklmodel as H
from xfabsa import core, tables, groupalg as ga, numeric as N
from xfabsa.core import AnalysisError

OBVERSE = ((1, 0, 1), (-1, 1, 1), (0, -1, 1))      # columns: a_h, b_h, c_h in rhombohedral coordinates

_G = {}


def _setting_job(args):
    (key, residual, ops, cone_rows, Nbox) = args
    absent = H.absent_fn(residual)
    bad_extra, bad_missing, npts, nabs = [], [], 0, 0
    seen = set()
    for rows in cone_rows:
        cone = H.Cone(rows)
        for h in cone.points(Nbox):
            if h == (0, 0, 0) or h in seen:
                continue
            seen.add(h)
            npts += 1
            m = absent(h)
            g = H.group_extinct(ops, h)
            nabs += 1 if g else 0
            if m and not g:
                if len(bad_missing) < 5:
                    bad_missing.append(h)
            elif g and not m:
                if len(bad_extra) < 5:
                    bad_extra.append(h)
    return key, npts, nabs, bad_missing, bad_extra


def visit_rules(ctx, mod, short):
    """how genhkl_base consults sysabs and which visited points it never tests.
    -> {'crystal_system': ('param'|'literal', value), 'cell_choice': (...)}"""
    fn = mod.func("genhkl_base")
    where = core.loc(mod, fn)
    callee = mod.func("sysabs")
    cparams = [a.arg for a in callee.args.args]
    cdefaults = dict(zip(cparams[len(cparams) - len(callee.args.defaults):], [tables.literal(d) for d in callee.args.defaults]))
    params = {a.arg for a in fn.args.args}
    calls = [n_ for n_ in ast.walk(fn) if isinstance(n_, ast.Call) and getattr(n_.func, "id", "") == "sysabs"]
    if not calls:
        raise AnalysisError("%s.genhkl_base: no call of sysabs" % short)
    # the call whose result decides acceptance: `if sysabs(...) == 0` or `x = sysabs(...)` ... `if x == 0`
    deciding = None
    guard_if = None
    for n_ in ast.walk(fn):
        if isinstance(n_, ast.If) and isinstance(n_.test, ast.Compare) and len(n_.test.ops) == 1 and isinstance(n_.test.ops[0], ast.Eq) \
                and isinstance(n_.test.comparators[0], ast.Constant) and n_.test.comparators[0].value == 0:
            l_ = n_.test.left
            if isinstance(l_, ast.Call) and l_ in calls:
                deciding, guard_if = l_, n_
            elif isinstance(l_, ast.Name):
                for c_ in calls:
                    for a_ in ast.walk(fn):
                        if isinstance(a_, ast.Assign) and a_.value is c_ and isinstance(a_.targets[0], ast.Name) and a_.targets[0].id == l_.id:
                            deciding, guard_if = c_, n_
    if deciding is None:
        raise AnalysisError("%s.genhkl_base: the test `sysabs(...) == 0` that accepts a reflection was not found" % short)
    amap = dict(zip(cparams, deciding.args))
    for k in deciding.keywords:
        amap[k.arg] = k.value
    out = {}
    for p_ in ("crystal_system", "cell_choice"):
        if p_ not in amap:
            out[p_] = ("literal", cdefaults.get(p_))
        elif isinstance(amap[p_], ast.Name) and amap[p_].id in params:
            out[p_] = ("param", amap[p_].id)
        elif isinstance(amap[p_], ast.Constant):
            out[p_] = ("literal", amap[p_].value)
        else:
            raise AnalysisError("%s.genhkl_base: argument `%s` of sysabs is neither a parameter nor a literal" % (short, core.unparse(amap[p_])))
    ok_args = all(out[p_] == ("param", p_) for p_ in out)
    ok_sys = isinstance(amap.get(cparams[1]), ast.Name) and amap[cparams[1]].id == "sysconditions"
    # the vector tested is the vector appended
    appended = [b_["M_X"] for st_ in ast.walk(guard_if) if isinstance(st_, ast.Assign)
                for b_ in [core.match_stmt("M_H = NP.concatenate((M_H, [M_X]))", st_, {}, mod.np_alias)] if b_]
    tested = amap.get(cparams[0])
    ok_vec = isinstance(tested, ast.Name) and appended and tested.id == appended[0]
    ctx.check(ok_sys and ok_vec, "C05:visit:%s.sysabs-vector" % short,
              "the reflection-condition test is not sysabs(<the row that is appended>, sysconditions, ...)", where)
    if not ok_args:
        ctx.note("%s.genhkl_base consults sysabs with crystal_system=%s, cell_choice=%s (the table analysis uses exactly these)"
                 % (short, out["crystal_system"], out["cell_choice"]))
    # origin skip: `if c != 1` with c a visit counter initialised once, outside every loop
    skip = None
    parents = {}
    for n_ in ast.walk(fn):
        for ch in ast.iter_child_nodes(n_):
            parents[ch] = n_
    p_ = guard_if
    while p_ in parents:
        p_ = parents[p_]
        if isinstance(p_, ast.If) and isinstance(p_.test, ast.Compare) and isinstance(p_.test.left, ast.Name) \
                and isinstance(p_.test.ops[0], ast.NotEq) and isinstance(p_.test.comparators[0], ast.Constant) and p_.test.comparators[0].value == 1:
            skip = p_
            break
    if skip is None:
        raise AnalysisError("%s.genhkl_base: the guard that leaves the first visited point (000) untested was not found" % short)
    cv = skip.test.left.id
    inits, incs, decs, others = [], [], [], []
    for n_ in ast.walk(fn):
        if isinstance(n_, (ast.Assign, ast.AugAssign)):
            tg = n_.targets[0] if isinstance(n_, ast.Assign) else n_.target
            if isinstance(tg, ast.Name) and tg.id == cv:
                if core.match_stmt("%s = 0" % cv, n_):
                    inits.append(n_)
                elif core.match_stmt("%s = %s + 1" % (cv, cv), n_) or core.match_stmt("%s += 1" % cv, n_):
                    incs.append(n_)
                elif core.match_stmt("%s = %s - 1" % (cv, cv), n_) or core.match_stmt("%s -= 1" % cv, n_):
                    decs.append(n_)
                else:
                    others.append(n_)
    def in_loop(n_):
        q = n_
        while q in parents:
            q = parents[q]
            if isinstance(q, (ast.For, ast.While)):
                return True
        return False
    def inside(n_, anc):
        q = n_
        while q in parents:
            q = parents[q]
            if q is anc:
                return True
        return False
    blk = parents.get(skip)
    sib = getattr(blk, "body", [])
    prev_is_inc = skip in sib and sib.index(skip) > 0 and sib[sib.index(skip) - 1] in incs
    ok_once = (len(inits) == 1 and not in_loop(inits[0]) and len(incs) == 1 and prev_is_inc
               and all(inside(d_, skip) for d_ in decs) and not others)
    ctx.check(ok_once, "C05:visit:%s.origin-only" % short,
              "the counter `%s` that exempts the first visited point from the test is not initialised exactly once before the cone "
              "loop / incremented once per visit: apexes of later cones (real reflections such as 1 2 0) are skipped too" % cv,
              core.loc(mod, inits[0]) if inits else where, sample={"counter": cv, "initialised_in_loop": [in_loop(i_) for i_ in inits]})
    return out


def run(ctx):
    from xfabsa import numeric as _N
    _N.alias_rule(ctx, 'C05', ['xfab/tools.py', 'xfab/laue.py', 'xfab/sg.py'])
    ctx.rule("syscond", "slot model x syscond x permutation schedule == extinction by the tabulated operators, on every cone point in the box")
    ctx.rule("earlyexit", "cone apex/generators pairwise non-obtuse in every conforming reciprocal metric")
    ctx.rule("expand", "genhkl_all: Rots = rot[:nuniq] and negatives, dot(hkl_row, R), stl copied, unique() de-duplication")
    ctx.rule("visit", "sysabs is consulted on the appended row with the group's own crystal_system / cell_choice; only the very first visited point (000) is exempt")
    ctx.rule("rsetting", "hexagonal table conjugated by the obverse transformation == rhombohedral table (7 R groups)")
    ctx.rule("model", "slot model, schedules and cone tables are extracted from both modules; analysed once when identical, else per module")
    Nbox = 8 if ctx.tier == "quick" else 24
    sgl = core.module("xfab/sglib.py")
    ctx.saw(sgl)
    settings, info = tables.extract_sglib()
    ctx.floor("settings", len(settings), 237)
    models = {}
    for rel, short, _tp in N.MODULES:
        mod = core.module(rel)
        ctx.saw(mod, "sysabs_unique"); ctx.saw(mod, "sysabs"); ctx.saw(mod, "genhkl_base"); ctx.saw(mod, "genhkl_all")
        am = H.AbsenceModel(rel)
        seg = tables.extract_segm(rel)
        models[short] = (am, None, seg, visit_rules(ctx, mod, short))
        ctx.floor("%s condition slots" % short, len(am.slots_read()), 26)
        ctx.floor("%s cone tables" % short, seg.count(settings), 13)

    def eff(visit, s):
        return (s.crystal_system if visit["crystal_system"][0] == "param" else visit["crystal_system"][1],
                s.cell_choice if visit["cell_choice"][0] == "param" else visit["cell_choice"][1])

    def same_rules_for(s):
        a, b = models["tools"], models["laue"]
        return a[3] == b[3] and a[0].residual(s.syscond, *eff(a[3], s)) == b[0].residual(s.syscond, *eff(b[3], s))
    combos_all = sorted({(s.Laue, s.cell_choice, s.crystal_system) for s in settings})
    same_model = all(len(s.syscond) != 26 or same_rules_for(s) for s in settings) \
        and all(models["tools"][2].table_key(*c) == models["laue"][2].table_key(*c) for c in combos_all)
    total_pts = 0
    jobs = []
    todo = [("tools", "xfab/tools.py", "")] if same_model else [("tools", "xfab/tools.py", ""), ("laue", "xfab/laue.py", ":laue")]
    if same_model:
        ctx.note("slot model, schedules and cone tables of laue are identical to those of tools: the table verdicts hold for both")
    for which, relname, sfx in todo:
        am, _unused, segm, visit = models[which]
        # in the second pass only what differs from tools is analysed again (same keys otherwise)

        def same_cones(laue_, cc_, cs_=None):
            if which == "tools":
                return False
            return segm.table_key(laue_, cc_, cs_) == models["tools"][2].table_key(laue_, cc_, cs_)
        # ---- syscond vs operators, per setting
        jobs = []
        by_key = {}
        for s in settings:
            if len(s.syscond) != 26:
                ctx.fail("C05:syscond:%s:length%s" % (s.key, sfx), "syscond has %d entries" % len(s.syscond), "%s:%d" % (sgl.rel, s.lines.get("syscond", 0)))
                continue
            if which != "tools" and same_rules_for(s) and same_cones(s.Laue, s.cell_choice, s.crystal_system):
                continue
            hits = tables.select_segm(segm, s.Laue, s.cell_choice, s.crystal_system)
            if len(hits) != 1:
                # dispatch problems are C06's rule; here the setting cannot be analysed
                ctx.fail("C05:syscond:%s:cones%s" % (s.key, sfx), "Laue class %r / cell_choice %r selects %d cone tables" % (s.Laue, s.cell_choice, len(hits)),
                         "%s:%d" % (sgl.rel, s.lines.get("Laue", 0)))
                continue
            by_key[s.key] = s
            cs_eff, cc_eff = eff(visit, s)
            jobs.append((s.key, am.residual(s.syscond, cs_eff, cc_eff), H.int_ops(s), hits[0]["table"], Nbox))
        nproc = min(16, os.cpu_count() or 1)
        too_big = [j[0] for j in jobs if len(j[1]) > 3000000]
        if too_big:
            raise AnalysisError("the residual reflection-condition expression of %s is too large to evaluate (%d settings)" % (too_big[0], len(too_big)))
        with Pool(nproc) as pool:
            try:
                results = pool.map_async(_setting_job, jobs, chunksize=4).get(timeout=900)
            except Exception as e:            # a worker that died (or a time-out) must not hang the check
                raise AnalysisError("evaluation of the residual expressions on the cone points failed: %s" % type(e).__name__)
        for key, npts, nabs, missing, extra in results:
            s = by_key[key]
            total_pts += npts
            where = "%s:%d" % (sgl.rel, s.lines.get("syscond", 0))
            msg = ""
            if missing:
                msg += "allowed reflections declared absent, e.g. %s; " % missing[:3]
            if extra:
                msg += "reflections extinguished by the group's own operations are accepted, e.g. %s" % extra[:3]
            ctx.check(not missing and not extra, "C05:syscond:%s%s" % (key, sfx), "%s (%s, syscond %s)" % (msg, s.name, [i for i, c in enumerate(s.syscond) if c]),
                      where, sample={"setting": key, "name": s.name, "cone_points": npts, "extinct": nabs} if key in ("Sg227:standard", "Sg167:rhombohedral", "Sg14:standard") else None)
        ctx.extra["box"] = Nbox
        ctx.extra["cone_points_checked"] = total_pts
        # ---- early-exit precondition per (Laue, cell_choice, crystal system)
        combos = {}
        for s in settings:
            combos.setdefault((s.Laue, s.cell_choice, s.crystal_system), s)
        for (laue, cc, csys), s in sorted(combos.items()):
            hits = tables.select_segm(segm, laue, cc, csys)
            if len(hits) != 1 or same_cones(laue, cc, csys):
                continue
            fam = H.metric_family(csys, cc)
            for ci, rows in enumerate(hits[0]["table"]):
                vecs = [tuple(r) for r in rows]
                labels = ["apex", "g1", "g2", "g3"]
                for a in range(4):
                    for b in range(a + 1, 4):
                        u, v = vecs[a], vecs[b]
                        if not any(u) or not any(v):
                            continue
                        ok = H.nonobtuse(u, v, fam)
                        key = "C05:earlyexit:%s:%s:cone%d:%s.%s%s" % (laue, "rhombohedral" if cc == "rhombohedral" else "standard", ci, labels[a], labels[b], sfx)
                        ctx.check(ok, key,
                                  "%s %s and %s %s of cone %d can be obtuse in a conforming %s reciprocal metric: the walk stops at the "
                                  "first point beyond sintlmax although later points of the row/plane come back inside the shell"
                                  % (labels[a], u, labels[b], v, ci, fam), "%s:%d" % (relname, hits[0]["line"]))
    # the stopping tests themselves
    for rel, short, _tp in N.MODULES:
        mod = core.module(rel)
        fn = mod.func("genhkl_base")
        from props.hklwalk import analyse_tests
        analyse_tests(ctx, mod, short, emit=("stops",))
        analyse_expand(ctx, mod, short)
    # ---- R settings
    P = OBVERSE
    Pinv = ga.inverse(P)
    rgroups = [c for c, i in info.items() if i["has_r_arm"]]
    ctx.floor("R groups", len(rgroups), 7)
    bys = {(s.klass, s.arm): s for s in settings}
    for c in sorted(rgroups, key=lambda x: int(x[2:])):
        hexs, rho = bys[(c, "standard")], bys[(c, "rhombohedral")]
        conj = set()
        okint = True
        for R, t in H.int_ops(hexs):
            Rr = ga.mmul(P, ga.mmul(R, Pinv))
            if any(x.denominator != 1 for r in Rr for x in r):
                okint = False
                break
            Rr = tuple(tuple(int(x) for x in r) for r in Rr)
            tr = tuple(sum(P[i][k] * t[k] for k in range(3)) % 24 for i in range(3))
            conj.add((Rr, tr))
        rset = set(H.int_ops(rho))
        ctx.check(okint and conj == rset, "C05:rsetting:%s" % c,
                  "hexagonal setting of %s conjugated by the obverse transformation gives %d operations, the rhombohedral table has %d; "
                  "only in conjugate: %s" % (hexs.name, len(conj), len(rset), sorted(conj - rset)[:1]), "%s:%d" % (sgl.rel, info[c]["line"]),
                  sample={"group": hexs.name, "hex_ops": len(hexs.rot), "rhombohedral_ops": len(rho.rot)})
    ctx.not_decided += ["for one given real cell that violates the early-exit precondition, which reflections are lost",
                        "collision of two distinct rows under the random projection used for unique() (measure zero); "
                        "genhkl_all consumes numpy's global random state (recorded, not a violation of the returned set)",
                        "the factor 1.1 on sintlmax for rhombohedral -3"]
    ctx.assumptions += ["C04 (tables are groups)", "numpy unique/concatenate/dot"]
    return ("Slot model of sysabs_unique and the permutation schedules of sysabs extracted from both modules and compared with "
            "extinction by the tabulated operators on every cone point of the box |h|,|k|,|l| <= %d for all %d settings "
            "(%d points); non-obtuseness of every cone's apex/generator pairs over the whole family of conforming reciprocal "
            "metrics; expansion template of genhkl_all; conjugacy of the seven R settings." % (Nbox, len(jobs), total_pts))


from props.hklwrap import analyse_expand  # noqa: E402  (E7 evaluation of genhkl_all on a model group)
