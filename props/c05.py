"""
C05 -- genhkl_all returns exactly the reflections the space group allows in the shell.

Table half (exact, exhaustive over the 237 settings) plus data-flow templates:

 syscond    for every hkl in the setting's traversal cones inside a box, the 26-slot model of
            sysabs_unique (re-extracted from the source on every run) with the setting's syscond
            vector and sysabs's index-permutation schedule says "absent" exactly when some tabulated
            operation (R,t) has hR = h and h.t not an integer
 earlyexit  the traversal leaves a row / plane at the first point beyond the cut-off; that is complete
            for every conforming cell iff apex and generators of each cone are pairwise non-obtuse in
            every conforming reciprocal metric (decided exactly per metric family)
 expand     genhkl_all expands each unique reflection with rot[:nuniq] and their negatives acting on the
            right of the hkl row, copies sin(theta)/lambda, and removes duplicates by a unique()-selection
 rsetting   for the seven R groups the hexagonal table conjugated by the obverse transformation is the
            rhombohedral table
"""
import ast
import os
from multiprocessing import Pool

from props import hklmodel as H
from xfabsa import core, tables, groupalg as ga, numeric as N
from xfabsa.core import AnalysisError

OBVERSE = ((1, 0, 1), (-1, 1, 1), (0, -1, 1))      # columns: a_h, b_h, c_h in rhombohedral coordinates

_G = {}


def _setting_job(args):
    (key, residual, ops, cone_rows, Nbox) = args
    absent = H.absent_fn(residual)
    bad_extra, bad_missing, npts, nabs = [], [], 0, 0
    seen = set()
    for rows in cone_rows:
        cone = H.Cone(rows)
        for h in cone.points(Nbox):
            if h == (0, 0, 0) or h in seen:
                continue
            seen.add(h)
            npts += 1
            m = absent(h)
            g = H.group_extinct(ops, h)
            nabs += 1 if g else 0
            if m and not g:
                if len(bad_missing) < 5:
                    bad_missing.append(h)
            elif g and not m:
                if len(bad_extra) < 5:
                    bad_extra.append(h)
    return key, npts, nabs, bad_missing, bad_extra


# (Laue class, cell choice) for which the walk must be extended beyond sintlmax: frozen from the tree, one reason each
EXTENDED_CUTOFF = {
    ("-3", "rhombohedral"): "the 2013 fix: on rhombohedral axes g1 = (1,0,0) and g3 = (-1,-1,-1) of the lower cones are obtuse in every "
                            "metric; rows and planes that start just outside sintlmax come back inside (e.g. 0 -5 -6 of R-3)",
}


def walk_rules(ctx, results, rel, short, pid="C05"):
    """the whole genhkl_base evaluated on band models (props/hklrun.py) -> how sysabs is consulted"""
    from props import hklrun
    mod = core.module(rel)
    where = core.loc(mod, mod.func("genhkl_base"))
    by = hklrun.verdicts(results, rel)
    if not by:
        raise AnalysisError("%s.genhkl_base: no combination of sglib could be evaluated on a band model" % short)
    for (L, cc, cs), v in sorted(by.items()):
        tag = "%s:%s:%s" % (short, L, "rhombohedral" if cc == "rhombohedral" else cc)
        ctx.check(v["ok_set"], "%s:walk:%s" % (pid, tag),
                  "genhkl_base does not return exactly the accepted points of the cones (in the shell, not extinct, each once): %s" % v["msg"],
                  where, sample={"Laue": L, "cell_choice": cc, "models": v["runs"], "accepted_points": v["rows"]} if (L, cc) in (("-1", "standard"), ("-3", "rhombohedral")) else None)
        if pid == "C05":
            ctx.check(v["syscond_ok"] and v["cell_ok"], "C05:visit:%s.arguments" % tag,
                      "sysabs is not consulted with the caller's sysconditions / sintl not with the caller's unit cell", where)
            if (L, cc) in EXTENDED_CUTOFF:
                ctx.check(v["scaled"], "C05:earlyexit:%s.extended-cutoff" % tag,
                          "the walk is no longer extended beyond sintlmax for this class (%s)" % EXTENDED_CUTOFF[(L, cc)], where)
    return hklrun.consult_policy(by)


def run(ctx):
    from xfabsa import numeric as _N
    _N.alias_rule(ctx, 'C05', ['xfab/tools.py', 'xfab/laue.py', 'xfab/sg.py'])
    ctx.rule("syscond", "slot model x syscond x permutation schedule == extinction by the tabulated operators, on every cone point in the box")
    ctx.rule("earlyexit", "cone apex/generators pairwise non-obtuse in every conforming reciprocal metric")
    ctx.rule("expand", "genhkl_all: Rots = rot[:nuniq] and negatives, dot(hkl_row, R), stl copied, unique() de-duplication")
    ctx.rule("walk", "genhkl_base evaluated on band models returns exactly the accepted cone points (in the shell, not extinct, each once)")
    ctx.rule("visit", "sysabs is consulted with the caller's sysconditions; the crystal_system / cell_choice it receives are the ones the table analysis uses")
    ctx.rule("rsetting", "hexagonal table conjugated by the obverse transformation == rhombohedral table (7 R groups)")
    ctx.rule("model", "slot model, schedules and cone tables are extracted from both modules; analysed once when identical, else per module")
    Nbox = 8 if ctx.tier == "quick" else 24
    sgl = core.module("xfab/sglib.py")
    ctx.saw(sgl)
    settings, info = tables.extract_sglib()
    ctx.floor("settings", len(settings), 237)
    models = {}
    for rel, short, _tp in N.MODULES:
        mod = core.module(rel)
        ctx.saw(mod, "sysabs_unique"); ctx.saw(mod, "sysabs"); ctx.saw(mod, "genhkl_base"); ctx.saw(mod, "genhkl_all")
        am = H.AbsenceModel(rel)
        seg = tables.extract_segm(rel)
        models[short] = [am, None, seg, None]
        ctx.floor("%s condition slots" % short, len(am.slots_read()), 26)
        ctx.floor("%s cone tables" % short, seg.count(settings), 13)

    # the walk itself: every combination of sglib, both modules, on band models
    from props import hklrun
    walk_results = hklrun.run_all([(rel, hklrun.rows_of(models[short][2], settings)) for rel, short, _tp in N.MODULES], ctx.tier)
    nwalk = 0
    for rel, short, _tp in N.MODULES:
        models[short][3] = walk_rules(ctx, walk_results, rel, short)
        if models[short][3] != {"crystal_system": ("param", "crystal_system"), "cell_choice": ("param", "cell_choice")}:
            ctx.note("%s.genhkl_base consults sysabs with crystal_system=%s, cell_choice=%s (the table analysis uses exactly these)"
                     % (short, models[short][3]["crystal_system"], models[short][3]["cell_choice"]))
    ctx.extra["band_model_runs"] = len(walk_results)
    ctx.floor("band model runs", len(walk_results), 2 * 13 * 2)

    def eff(visit, s):
        return (s.crystal_system if visit["crystal_system"][0] == "param" else visit["crystal_system"][1],
                s.cell_choice if visit["cell_choice"][0] == "param" else visit["cell_choice"][1])

    def same_rules_for(s):
        a, b = models["tools"], models["laue"]
        return a[3] == b[3] and a[0].residual(s.syscond, *eff(a[3], s)) == b[0].residual(s.syscond, *eff(b[3], s))
    combos_all = sorted({(s.Laue, s.cell_choice, s.crystal_system) for s in settings})
    same_model = all(len(s.syscond) != 26 or same_rules_for(s) for s in settings) \
        and all(models["tools"][2].table_key(*c) == models["laue"][2].table_key(*c) for c in combos_all)
    total_pts = 0
    jobs = []
    todo = [("tools", "xfab/tools.py", "")] if same_model else [("tools", "xfab/tools.py", ""), ("laue", "xfab/laue.py", ":laue")]
    if same_model:
        ctx.note("slot model, schedules and cone tables of laue are identical to those of tools: the table verdicts hold for both")
    for which, relname, sfx in todo:
        am, _unused, segm, visit = models[which]
        # in the second pass only what differs from tools is analysed again (same keys otherwise)

        def same_cones(laue_, cc_, cs_=None):
            if which == "tools":
                return False
            return segm.table_key(laue_, cc_, cs_) == models["tools"][2].table_key(laue_, cc_, cs_)
        # ---- syscond vs operators, per setting
        jobs = []
        by_key = {}
        for s in settings:
            if len(s.syscond) != 26:
                ctx.fail("C05:syscond:%s:length%s" % (s.key, sfx), "syscond has %d entries" % len(s.syscond), "%s:%d" % (sgl.rel, s.lines.get("syscond", 0)))
                continue
            if which != "tools" and same_rules_for(s) and same_cones(s.Laue, s.cell_choice, s.crystal_system):
                continue
            hits = tables.select_segm(segm, s.Laue, s.cell_choice, s.crystal_system)
            if len(hits) != 1:
                # dispatch problems are C06's rule; here the setting cannot be analysed
                ctx.fail("C05:syscond:%s:cones%s" % (s.key, sfx), "Laue class %r / cell_choice %r selects %d cone tables" % (s.Laue, s.cell_choice, len(hits)),
                         "%s:%d" % (sgl.rel, s.lines.get("Laue", 0)))
                continue
            by_key[s.key] = s
            cs_eff, cc_eff = eff(visit, s)
            jobs.append((s.key, am.residual(s.syscond, cs_eff, cc_eff), H.int_ops(s), hits[0]["table"], Nbox))
        nproc = min(16, os.cpu_count() or 1)
        too_big = [j[0] for j in jobs if len(j[1]) > 3000000]
        if too_big:
            raise AnalysisError("the residual reflection-condition expression of %s is too large to evaluate (%d settings)" % (too_big[0], len(too_big)))
        with Pool(nproc) as pool:
            try:
                results = pool.map_async(_setting_job, jobs, chunksize=4).get(timeout=900)
            except Exception as e:            # a worker that died (or a time-out) must not hang the check
                raise AnalysisError("evaluation of the residual expressions on the cone points failed: %s" % type(e).__name__)
        for key, npts, nabs, missing, extra in results:
            s = by_key[key]
            total_pts += npts
            where = "%s:%d" % (sgl.rel, s.lines.get("syscond", 0))
            msg = ""
            if missing:
                msg += "allowed reflections declared absent, e.g. %s; " % missing[:3]
            if extra:
                msg += "reflections extinguished by the group's own operations are accepted, e.g. %s" % extra[:3]
            ctx.check(not missing and not extra, "C05:syscond:%s%s" % (key, sfx), "%s (%s, syscond %s)" % (msg, s.name, [i for i, c in enumerate(s.syscond) if c]),
                      where, sample={"setting": key, "name": s.name, "cone_points": npts, "extinct": nabs} if key in ("Sg227:standard", "Sg167:rhombohedral", "Sg14:standard") else None)
        ctx.extra["box"] = Nbox
        ctx.extra["cone_points_checked"] = total_pts
        # ---- early-exit precondition per (Laue, cell_choice, crystal system)
        combos = {}
        for s in settings:
            combos.setdefault((s.Laue, s.cell_choice, s.crystal_system), s)
        for (laue, cc, csys), s in sorted(combos.items()):
            hits = tables.select_segm(segm, laue, cc, csys)
            if len(hits) != 1 or same_cones(laue, cc, csys):
                continue
            fam = H.metric_family(csys, cc)
            for ci, rows in enumerate(hits[0]["table"]):
                vecs = [tuple(r) for r in rows]
                labels = ["apex", "g1", "g2", "g3"]
                for a in range(4):
                    for b in range(a + 1, 4):
                        u, v = vecs[a], vecs[b]
                        if not any(u) or not any(v):
                            continue
                        ok = H.nonobtuse(u, v, fam)
                        key = "C05:earlyexit:%s:%s:cone%d:%s.%s%s" % (laue, "rhombohedral" if cc == "rhombohedral" else "standard", ci, labels[a], labels[b], sfx)
                        ctx.check(ok, key,
                                  "%s %s and %s %s of cone %d can be obtuse in a conforming %s reciprocal metric: the walk stops at the "
                                  "first point beyond sintlmax although later points of the row/plane come back inside the shell"
                                  % (labels[a], u, labels[b], v, ci, fam), "%s:%d" % (relname, hits[0]["line"]))
    # expansion over the point group (genhkl_all)
    for rel, short, _tp in N.MODULES:
        mod = core.module(rel)
        fn = mod.func("genhkl_base")
        analyse_expand(ctx, mod, short)
    # ---- R settings
    P = OBVERSE
    Pinv = ga.inverse(P)
    rgroups = [c for c, i in info.items() if i["has_r_arm"]]
    ctx.floor("R groups", len(rgroups), 7)
    bys = {(s.klass, s.arm): s for s in settings}
    for c in sorted(rgroups, key=lambda x: int(x[2:])):
        hexs, rho = bys[(c, "standard")], bys[(c, "rhombohedral")]
        conj = set()
        okint = True
        for R, t in H.int_ops(hexs):
            Rr = ga.mmul(P, ga.mmul(R, Pinv))
            if any(x.denominator != 1 for r in Rr for x in r):
                okint = False
                break
            Rr = tuple(tuple(int(x) for x in r) for r in Rr)
            tr = tuple(sum(P[i][k] * t[k] for k in range(3)) % 24 for i in range(3))
            conj.add((Rr, tr))
        rset = set(H.int_ops(rho))
        ctx.check(okint and conj == rset, "C05:rsetting:%s" % c,
                  "hexagonal setting of %s conjugated by the obverse transformation gives %d operations, the rhombohedral table has %d; "
                  "only in conjugate: %s" % (hexs.name, len(conj), len(rset), sorted(conj - rset)[:1]), "%s:%d" % (sgl.rel, info[c]["line"]),
                  sample={"group": hexs.name, "hex_ops": len(hexs.rot), "rhombohedral_ops": len(rho.rot)})
    ctx.not_decided += ["for one given real cell that violates the early-exit precondition, which reflections are lost",
                        "collision of two distinct rows under the random projection used for unique() (measure zero); "
                        "genhkl_all consumes numpy's global random state (recorded, not a violation of the returned set)",
                        "the size of the factor (1.1) by which the walk is extended for rhombohedral -3"]
    ctx.assumptions += ["C04 (tables are groups)", "numpy unique/concatenate/dot"]
    return ("Slot model of sysabs_unique and the permutation schedules of sysabs extracted from both modules and compared with "
            "extinction by the tabulated operators on every cone point of the box |h|,|k|,|l| <= %d for all %d settings "
            "(%d points); non-obtuseness of every cone's apex/generator pairs over the whole family of conforming reciprocal "
            "metrics; expansion template of genhkl_all; conjugacy of the seven R settings." % (Nbox, len(jobs), total_pts))


from props.hklwrap import analyse_expand  # noqa: E402  (E7 evaluation of genhkl_all on a model group)
