"""
Rules on the walk of genhkl_base that are decided by *evaluating fragments* of the function (E7) instead of matching
their text:

 tail    the statements after the loop nest, with the two accumulators replaced by symbolic tables (two accepted
         reflections h_r and their stl_r): the value returned must be the rows [h_r | stl_r] reordered by argsort of the
         stl_r, without the stl column when output_stl is None
 steps   inside the loop nest every statement `X = Y + <step>` is evaluated with a symbolic cone: the steps are exactly the
         three generators of the current cone, the row step forming a new point, the plane / cone steps accumulating
 tests   every test of the loop nest on the running sin(theta)/lambda is evaluated on the seven regions of its value
         relative to sintlmin, sintlmax and the (scaled) cut-off: the acceptance test is true exactly on (min, max], the
         three loop exits treat the cut-off itself as inside
"""
import ast

from xfabsa import core, tables
from xfabsa.core import AnalysisError
from xfabsa.poly import Rat, single_atom
from xfabsa.symeval import Arr, Opaque, RaiseReached, scalar, materialise, sym_array, const_int, _Return
from xfabsa.objeval import ObjEvaluator, PyRaise


class Perm:
    def __init__(self, keys):
        self.keys = keys


class PermTable:
    """argsort(A, 0): one permutation per column"""

    def __init__(self, cols):
        self.cols = cols


class Sorted:
    """rows reordered by an unknown permutation that makes `keys` ascending"""

    def __init__(self, rows, keys):
        self.rows, self.keys = rows, keys


class TailEval(ObjEvaluator):
    def _np_call(self, name, args, kwargs, node):
        if name == "argsort":
            A = args[0] if isinstance(args[0], Arr) else materialise(args[0])
            if A is None:
                raise AnalysisError("genhkl_base: argsort of a value that is not explicit (line %d)" % node.lineno)
            axis = const_int(args[1]) if len(args) > 1 else const_int(kwargs["axis"]) if "axis" in kwargs else -1
            if len(A.shape) == 1:
                return Perm([scalar(x) for x in A.data])
            if len(A.shape) == 2 and axis == 0:
                return PermTable([[scalar(r[c]) for r in A.data] for c in range(A.shape[1])])
            raise AnalysisError("genhkl_base: argsort along axis %s of a rank-%d array (line %d)" % (axis, len(A.shape), node.lineno))
        return ObjEvaluator._np_call(self, name, args, kwargs, node)

    def e_Subscript(self, node, env):
        base = self.eval(node.value, env)
        elts = node.slice.elts if isinstance(node.slice, ast.Tuple) else [node.slice]

        def full(e):
            return isinstance(e, ast.Slice) and e.lower is None and e.upper is None and e.step is None
        if isinstance(base, PermTable):
            if len(elts) == 2 and full(elts[0]):
                c = const_int(self.eval(elts[1], env))
                if c is not None and -len(base.cols) <= c < len(base.cols):
                    return Perm(base.cols[c])
            raise AnalysisError("genhkl_base: unsupported subscript of argsort(., 0) (line %d)" % node.lineno)
        if isinstance(base, Arr) and elts and not isinstance(elts[0], ast.Slice):
            first = self.eval(elts[0], env)
            if isinstance(first, Perm):
                if any(not full(e) for e in elts[1:]):
                    raise AnalysisError("genhkl_base: permuted table indexed with something else than full slices (line %d)" % node.lineno)
                rows = [[scalar(x) for x in r] if isinstance(r, list) else [scalar(r)] for r in base.data]
                if len(rows) != len(first.keys):
                    raise AnalysisError("genhkl_base: permutation and table have different lengths (line %d)" % node.lineno)
                return Sorted(rows, first.keys)
        if isinstance(base, Sorted):
            if len(elts) == 2 and full(elts[0]) and isinstance(elts[1], ast.Slice):
                lo = const_int(self.eval(elts[1].lower, env)) if elts[1].lower is not None else None
                hi = const_int(self.eval(elts[1].upper, env)) if elts[1].upper is not None else None
                return Sorted([r[slice(lo, hi)] for r in base.rows], base.keys)
            raise AnalysisError("genhkl_base: unsupported subscript of the sorted table (line %d)" % node.lineno)
        return ObjEvaluator.e_Subscript(self, node, env, base)


def _bind_params(ev, fn, given):
    from xfabsa.poly import Rat as _R
    env = {}
    params = [a.arg for a in fn.args.args]
    nd = len(fn.args.defaults)
    for i, p in enumerate(params):
        if p in given:
            env[p] = given[p]
        else:
            j = i - (len(params) - nd)
            env[p] = ev.eval(fn.args.defaults[j], {}) if j >= 0 else _R.atom(p)
    return env


def run_prefix(mod, evcls=ObjEvaluator, Laue="-3", cc="rhombohedral", csys="trigonal", output_stl=None, sign=1):
    """-> (evaluator, environment when the first loop is reached, that loop, the statements after it)"""
    fn = mod.func("genhkl_base")
    ev = evcls(mod, inline=set(), max_depth=8, sign_policy=lambda d, node=None: sign)
    env = _bind_params(ev, fn, {"Laue_class": Laue, "cell_choice": cc, "crystal_system": csys, "unit_cell": sym_array("unit_cell", (6,)),
                                "sysconditions": sym_array("sysconditions", (26,)), "sintlmin": Rat.atom("sintlmin"),
                                "sintlmax": Rat.atom("sintlmax"), "output_stl": output_stl})
    body = core.body_wo_doc(fn)
    for i, st in enumerate(body):
        if isinstance(st, (ast.For, ast.While)):
            # a loop that can be evaluated (a scan of a static table) belongs to the prefix; the walk cannot be evaluated
            trial = {k_: (v_.copy() if isinstance(v_, Arr) else v_) for k_, v_ in env.items()}
            try:
                ev.exec_stmt(st, trial)
                env.clear()
                env.update(trial)
                continue
            except (PyRaise, RaiseReached, _Return):
                raise AnalysisError("genhkl_base rejects Laue class %r / %r before the walk" % (Laue, cc))
            except AnalysisError:
                return ev, env, st, body[i + 1:]
        try:
            ev.exec_stmt(st, env)
        except (PyRaise, RaiseReached, _Return):
            raise AnalysisError("genhkl_base rejects Laue class %r / %r before the walk" % (Laue, cc))
    raise AnalysisError("genhkl_base: no loop over the cones found")


def stored_names(node):
    out = set()
    for n_ in ast.walk(node):
        if isinstance(n_, ast.Name) and isinstance(n_.ctx, ast.Store):
            out.add(n_.id)
    return out


def analyse_tail(ctx, mod, short):
    fn = mod.func("genhkl_base")
    where = core.loc(mod, fn)
    ok, why = True, ""
    for flag, ncols in ((None, 3), (True, 4)):
        ev, env, loop, rest = run_prefix(mod, TailEval, output_stl=flag)
        # accumulators: arrays that are empty when the walk starts and assigned inside it
        acc = [n_ for n_ in stored_names(loop) if isinstance(env.get(n_), Arr) and 0 in (getattr(env[n_], "zshape", None) or env[n_].shape)]
        hkl_rows = [[Rat.atom("hkl%d[%d]" % (r, c)) for c in range(3)] for r in range(2)]
        stl_vals = [Rat.atom("stl%d" % r) for r in range(2)]
        roles = {}
        for n_ in acc:
            shp = getattr(env[n_], "zshape", None) or env[n_].shape
            if tuple(shp) == (0, 3):
                env[n_] = Arr([list(r) for r in hkl_rows]); roles[n_] = "hkl"
            elif tuple(shp) == (0,):
                env[n_] = Arr(list(stl_vals)); roles[n_] = "stl"
            elif tuple(shp) == (0, 4):
                env[n_] = Arr([list(r) + [s_] for r, s_ in zip(hkl_rows, stl_vals)]); roles[n_] = "both"
        if sorted(roles.values()) not in (["hkl", "stl"], ["both"]):
            raise AnalysisError("%s.genhkl_base: the accumulators of the walk were not recognised (%s)" % (short, roles))
        try:
            ev.exec_block(rest, env)
            out = None
        except _Return as r:
            out = r.value
        except (PyRaise, RaiseReached) as e:
            raise AnalysisError("%s.genhkl_base: the statements after the walk raise on a two-row table" % short)
        if not isinstance(out, Sorted):
            ok, why = False, "the value returned is not the table reordered by an argsort (%s)" % type(out).__name__
            continue
        good = len(out.rows) == 2 and all(len(r) == ncols for r in out.rows)
        if good:
            for r in range(2):
                good = good and all(out.rows[r][c].equals(hkl_rows[r][c]) for c in range(3)) and out.keys[r].equals(stl_vals[r])
                if ncols == 4:
                    good = good and out.rows[r][3].equals(stl_vals[r])
        if not good:
            ok, why = False, "with output_stl=%r the rows are %s sorted by %s" % (flag, [[x.key() for x in r] for r in out.rows], [k.key() for k in out.keys])
    ctx.check(ok, "C06:sort:%s" % short,
              "the rows are not [hkl | stl] sorted by the stl column (argsort over column 3) before being returned: %s" % why, where)


def analyse_steps(ctx, mod, short):
    fn = mod.func("genhkl_base")
    where = core.loc(mod, fn)
    ev, env, loop, _rest = run_prefix(mod)
    if not isinstance(loop, ast.For):
        raise AnalysisError("%s.genhkl_base: the cones are not visited by a for loop" % short)
    cone = [[Rat.atom("cone[%d,%d]" % (r, c)) for c in range(3)] for r in range(4)]
    # the table that is iterated: replace every (n,4,3) table of the environment by one symbolic cone
    for n_, v in list(env.items()):
        A = v if isinstance(v, Arr) else None
        if A is not None and len(A.shape) == 3 and A.shape[1:] == (4, 3):
            env[n_] = Arr([[list(r) for r in cone]])
    it = ev.eval(loop.iter, env)
    if isinstance(it, Arr):
        it = [Arr(x) if isinstance(x, list) else x for x in it.data]
    if not isinstance(it, (list, tuple)) or len(it) != 1:
        raise AnalysisError("%s.genhkl_base: the loop over the cones does not run once per cone of the table" % short)
    ev.assign(loop.target, it[0], env)
    # statements of the loop body up to the first inner loop initialise the running points
    inner = None
    for st in loop.body:
        if isinstance(st, (ast.While, ast.For)):
            inner = st
            break
        try:
            ev.exec_stmt(st, env)
        except AnalysisError:
            pass
    if inner is None:
        raise AnalysisError("%s.genhkl_base: no loop nest inside the loop over the cones" % short)
    start_ok = []
    steps = {}
    for n_ in ast.walk(inner):
        if isinstance(n_, ast.Assign) and len(n_.targets) == 1 and isinstance(n_.targets[0], ast.Name) and isinstance(n_.value, ast.BinOp) \
                and isinstance(n_.value.op, ast.Add):
            for base_node, step_node in ((n_.value.left, n_.value.right), (n_.value.right, n_.value.left)):
                if not isinstance(base_node, ast.Name):
                    continue
                try:
                    sv = ev.eval(step_node, env)
                except AnalysisError:
                    continue
                S = sv if isinstance(sv, Arr) else materialise(sv) if isinstance(sv, (list, tuple, Opaque)) else None
                if S is None or S.shape != (3,):
                    continue
                for k in (1, 2, 3):
                    if all(scalar(S.data[c]).equals(cone[k][c]) for c in range(3)):
                        steps.setdefault(k, []).append((n_.targets[0].id, base_node.id))
    ok_steps = sorted(steps) == [1, 2, 3] and all(len(v) == 1 for v in steps.values()) \
        and steps[2][0][0] == steps[2][0][1] and steps[3][0][0] == steps[3][0][1]
    # every running point starts at the apex of the cone
    def vec3(v):
        A = v if isinstance(v, Arr) else (materialise(v) if isinstance(v, (list, tuple)) and len(v) == 3 else None)
        return A if A is not None and A.shape == (3,) else None
    starts = [n_ for n_, v in env.items() if vec3(v) is not None and all(scalar(vec3(v).data[c]).equals(cone[0][c]) for c in range(3))]
    ok_start = ok_steps and all(steps[k][0][1] in starts for k in (1, 2, 3))
    ctx.check(ok_steps and ok_start, "C06:sort:%s:steps" % short,
              "the walk does not advance by the cone generators g1 (row), g2 (plane), g3 (cone) of the current table from its apex: "
              "steps %s, points starting at the apex %s" % (steps, sorted(starts)), where)


REGIONS = ("below-min", "at-min", "in-shell", "at-max", "between", "at-cutoff", "beyond")


def analyse_tests(ctx, mod, short, emit=("shell", "stops")):
    """-> the acceptance tests (AST nodes) and the names holding sin(theta)/lambda"""
    fn = mod.func("genhkl_base")
    where = core.loc(mod, fn)
    ev, env, loop, _rest = run_prefix(mod)           # Laue -3 / rhombohedral: the cut-off is scaled, so it differs from sintlmax
    # names that hold sin(theta)/lambda of a point: assigned from a call of sintl
    svars = set()
    for n_ in ast.walk(fn):
        if isinstance(n_, ast.Assign) and isinstance(n_.value, ast.Call) and getattr(n_.value.func, "id", "") == "sintl":
            svars |= {t.id for t in n_.targets if isinstance(t, ast.Name)}
    if not svars:
        raise AnalysisError("%s.genhkl_base: no value is obtained from sintl()" % short)
    s = Rat.atom("s")
    lo, hi = Rat.atom("sintlmin"), Rat.atom("sintlmax")
    # the cut-off: whatever multiple of sintlmax the tests compare with, found from the differences asked
    asked = []
    tests = []
    for n_ in ast.walk(loop):
        t = n_.test if isinstance(n_, (ast.If, ast.While, ast.IfExp)) else None
        if t is not None and {x.id for x in ast.walk(t) if isinstance(x, ast.Name)} & svars:
            tests.append(t)

    def thresholds_of(d):
        """d = a*s - T with T a combination of sintlmin / sintlmax -> (sign of a, T/a)"""
        a = d.subs({"s": Rat.const(1), "sintlmin": Rat.const(0), "sintlmax": Rat.const(0)})
        if not a.is_const() or a.const_value() == 0:
            return None
        T = (s * a - d) / a
        if not (T.atoms() <= {"sintlmin", "sintlmax"}):
            return None
        return (1 if a.const_value() > 0 else -1), T
    cutoffs = set()
    for t in tests:
        def probe(d, node=None):
            th = thresholds_of(d)
            if th is not None:
                asked.append(th[1])
            return 1
        e2 = ObjEvaluator(mod, inline=set(), sign_policy=probe)
        env2 = dict(env)
        for v in svars:
            env2[v] = s
        try:
            e2.eval(t, env2)
        except AnalysisError:
            pass
    cut = [T for T in asked if not T.equals(lo) and not T.equals(hi)]
    cutoff = cut[0] if cut else hi
    if any(not T.equals(cutoff) for T in cut):
        raise AnalysisError("%s.genhkl_base: the loop exits compare with different cut-offs" % short)
    ratio = cutoff / hi
    if not (ratio.is_const() and ratio.const_value() >= 1):
        raise AnalysisError("%s.genhkl_base: the cut-off of the walk is not a multiple >= 1 of sintlmax" % short)
    order = [lo, hi, cutoff]        # lo < hi <= cutoff

    def oracle(region):
        pos = {"below-min": -1, "at-min": 0, "in-shell": 1, "at-max": 2, "between": 3, "at-cutoff": 4, "beyond": 5}[region]
        # position of s on the scale  min=0, max=2, cutoff=4 (odd numbers are the open intervals)
        def signs(d, node=None):
            th = thresholds_of(d)
            if th is None:
                return None
            sa, T = th
            tp = 0 if T.equals(lo) else 2 if T.equals(hi) else 4 if T.equals(cutoff) else None
            if tp is None:
                return None
            if cutoff.equals(hi) and tp == 2:
                tp = 2
            rel = (pos > tp) - (pos < tp)
            return sa * rel
        return signs
    regions = list(REGIONS)
    if cutoff.equals(hi):
        regions = ["below-min", "at-min", "in-shell", "at-max", "beyond"]
    shell, stops, odd = [], [], []
    for t in tests:
        vec = []
        for reg in regions:
            e2 = ObjEvaluator(mod, inline=set(), sign_policy=oracle(reg))
            env2 = dict(env)
            for v in svars:
                env2[v] = s
            try:
                r = e2.eval(t, env2)
            except AnalysisError:
                r = None
            vec.append(r if isinstance(r, bool) else None)
        if any(v is None for v in vec):
            raise AnalysisError("%s.genhkl_base: the test `%s` on the running sin(theta)/lambda cannot be evaluated on the regions %s"
                                % (short, core.unparse(t)[:60], [r_ for r_, v in zip(regions, vec) if v is None]))
        names = {x.id for x in ast.walk(t) if isinstance(x, ast.Name)}
        if vec == [False] * len(vec) or vec == [True] * len(vec):
            continue
        inside_shell = [reg in ("in-shell", "at-max") for reg in regions]
        upto_cutoff = [reg != "beyond" for reg in regions]
        if vec == inside_shell and len(regions) == 7:
            shell.append(t)
        elif vec == upto_cutoff or vec == [not x for x in upto_cutoff]:
            stops.append(t)
        elif vec == inside_shell:
            shell.append(t)
        else:
            odd.append((core.unparse(t)[:60], vec))
    if cutoff.equals(hi):
        raise AnalysisError("%s.genhkl_base: acceptance and cut-off tests cannot be told apart (no scaling for -3 rhombohedral)" % short)
    ok_shell = len(shell) == 1 and not [o for o in odd if "sintlmin" in o[0]]
    if "shell" in emit:
      ctx.check(ok_shell, "C06:shell:%s" % short,
              "acceptance is not `s > sintlmin and s <= sintlmax` (exclusive lower, inclusive upper bound): tests true exactly on (min, max]: %d; "
              "other tests on the value: %s" % (len(shell), odd[:2]), where, sample={"regions": regions, "acceptance_tests": len(shell)})
    ok_stops = len(stops) == 3 and not odd
    if "stops" in emit:
      ctx.check(ok_stops, "C05:earlyexit:%s.stop-tests" % short,
              "the three loop exits are not `sintlH <= sintlmax*scale` (continue row) / `sintlH > sintlmax*scale` (leave plane, leave cone): "
              "%d tests treat the cut-off itself as inside; other tests on the value: %s" % (len(stops), odd[:2]), where)
    return shell, svars
