"""
Values and evaluator used when genhkl_base is evaluated as a whole (props/hklrun.py): an argsort is a permutation that makes
its keys ascending, a table indexed by it is `Sorted(rows, keys)` -- the rows in the order they were accumulated together with
the key each of them is ordered by.
"""
import ast

from xfabsa import core, tables
from xfabsa.core import AnalysisError
from xfabsa.poly import Rat, single_atom
from xfabsa.symeval import Arr, Opaque, RaiseReached, scalar, materialise, sym_array, const_int, _Return
from xfabsa.objeval import ObjEvaluator, PyRaise


class Perm:
    def __init__(self, keys):
        self.keys = keys


class PermTable:
    """argsort(A, 0): one permutation per column"""

    def __init__(self, cols):
        self.cols = cols


class Sorted:
    """rows reordered by an unknown permutation that makes `keys` ascending"""

    def __init__(self, rows, keys):
        self.rows, self.keys = rows, keys


class TailEval(ObjEvaluator):
    def _np_call(self, name, args, kwargs, node):
        if name == "argsort":
            A = args[0] if isinstance(args[0], Arr) else materialise(args[0])
            if A is None:
                raise AnalysisError("genhkl_base: argsort of a value that is not explicit (line %d)" % node.lineno)
            axis = const_int(args[1]) if len(args) > 1 else const_int(kwargs["axis"]) if "axis" in kwargs else -1
            if len(A.shape) == 1:
                return Perm([scalar(x) for x in A.data])
            if len(A.shape) == 2 and axis == 0:
                return PermTable([[scalar(r[c]) for r in A.data] for c in range(A.shape[1])])
            raise AnalysisError("genhkl_base: argsort along axis %s of a rank-%d array (line %d)" % (axis, len(A.shape), node.lineno))
        if name == "lexsort" and len(args) == 1 and isinstance(args[0], (list, tuple)) and args[0] and not kwargs:
            # the LAST key is the primary one; the others only order rows whose primary keys are equal
            K = args[0][-1]
            K = K if isinstance(K, Arr) else materialise(K)
            if K is None or len(K.shape) != 1:
                raise AnalysisError("genhkl_base: lexsort with a primary key that is not an explicit vector (line %d)" % node.lineno)
            return Perm([scalar(x) for x in K.data])
        return ObjEvaluator._np_call(self, name, args, kwargs, node)

    def e_Subscript(self, node, env):
        base = self.eval(node.value, env)
        elts = node.slice.elts if isinstance(node.slice, ast.Tuple) else [node.slice]

        def full(e):
            return isinstance(e, ast.Slice) and e.lower is None and e.upper is None and e.step is None
        if isinstance(base, PermTable):
            if len(elts) == 2 and full(elts[0]):
                c = const_int(self.eval(elts[1], env))
                if c is not None and -len(base.cols) <= c < len(base.cols):
                    return Perm(base.cols[c])
            raise AnalysisError("genhkl_base: unsupported subscript of argsort(., 0) (line %d)" % node.lineno)
        if isinstance(base, Arr) and elts and not isinstance(elts[0], ast.Slice):
            first = self.eval(elts[0], env)
            if isinstance(first, Perm):
                if any(not full(e) for e in elts[1:]):
                    raise AnalysisError("genhkl_base: permuted table indexed with something else than full slices (line %d)" % node.lineno)
                rows = [[scalar(x) for x in r] if isinstance(r, list) else [scalar(r)] for r in base.data]
                if len(rows) != len(first.keys):
                    raise AnalysisError("genhkl_base: permutation and table have different lengths (line %d)" % node.lineno)
                return Sorted(rows, first.keys)
        if isinstance(base, Sorted):
            if len(elts) == 2 and full(elts[0]) and isinstance(elts[1], ast.Slice):
                lo = const_int(self.eval(elts[1].lower, env)) if elts[1].lower is not None else None
                hi = const_int(self.eval(elts[1].upper, env)) if elts[1].upper is not None else None
                return Sorted([r[slice(lo, hi)] for r in base.rows], base.keys)
            raise AnalysisError("genhkl_base: unsupported subscript of the sorted table (line %d)" % node.lineno)
        return ObjEvaluator.e_Subscript(self, node, env, base)


def _bind_params(ev, fn, given):
    from xfabsa.poly import Rat as _R
    env = {}
    params = [a.arg for a in fn.args.args]
    nd = len(fn.args.defaults)
    for i, p in enumerate(params):
        if p in given:
            env[p] = given[p]
        else:
            j = i - (len(params) - nd)
            env[p] = ev.eval(fn.args.defaults[j], {}) if j >= 0 else _R.atom(p)
    return env
