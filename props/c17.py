"""
C17 -- CIF and PDB ingestion reproduces what the file states.

Mapping half, decided by a provenance data-flow over the readers: every field
handed to add_atom / stored in the atom list is traced back to the CIF key or
the PDB columns it was read from, through remove_esd, .upper(), the B->U
factor 1/(8 pi^2) and the anisotropic label index, for every configuration of
the ADP type (None, Biso, Bani, Uiso, Uani) and of the multiplicity keys
(present, old spelling, absent).  The oracle is the format specification (IUCr
core CIF dictionary names; wwPDB v3.3 column table), not a copy of the code.
"""
import ast

from xfabsa import core, numeric as N
from xfabsa.core import AnalysisError
from xfabsa.poly import Rat
from xfabsa.symeval import Evaluator, scalar

CELL_KEYS = ["_cell_length_a", "_cell_length_b", "_cell_length_c",
             "_cell_angle_alpha", "_cell_angle_beta", "_cell_angle_gamma"]
ANISO_ORDER = ["11", "22", "33", "23", "13", "12"]
# wwPDB v3.3 columns (1-based, inclusive) -> python slices
PDB_CRYST1 = {"a": (7, 15), "b": (16, 24), "c": (25, 33), "alp": (34, 40), "bet": (41, 47), "gam": (48, 54), "sg": (56, 66)}
PDB_ATOM = {"label": (13, 16), "x": (31, 38), "y": (39, 46), "z": (47, 54), "occ": (55, 60), "adp": (61, 66), "atomtype": (77, 78)}


def sl(cols):
    return "%d:%d" % (cols[0] - 1, cols[1])


class Prov:
    """provenance evaluator: names -> canonical provenance strings"""

    def __init__(self, mod, scenario, opaque_names=()):
        self.opaque_names = set(opaque_names)
        self.mod = mod
        self.sc = scenario          # {'adp_type': literal|'<absent>', 'multi': 'new'|'old'|'none'}
        self.calls = []             # (callee, kwargs dict)
        self.stores = []            # (target provenance, value provenance)

    def is_8pi2(self, node):
        try:
            v = scalar(Evaluator(self.mod, inline=set()).eval(node, {}))
            return v.equals(8 * N.PI * N.PI)
        except AnalysisError:
            return False

    def p(self, node, env):
        if isinstance(node, ast.Name):
            return env.get(node.id, node.id)
        if isinstance(node, ast.Constant):
            return repr(node.value)
        if isinstance(node, ast.Attribute):
            return "%s.%s" % (self.p(node.value, env), node.attr)
        if isinstance(node, ast.Subscript):
            if isinstance(node.slice, ast.Slice):
                lo = self.p(node.slice.lower, env) if node.slice.lower else ""
                hi = self.p(node.slice.upper, env) if node.slice.upper else ""
                return "%s[%s:%s]" % (self.p(node.value, env), lo, hi)
            return "%s[%s]" % (self.p(node.value, env), self.p(node.slice, env))
        if isinstance(node, ast.List):
            return "[" + ", ".join(self.p(e, env) for e in node.elts) + "]"
        if isinstance(node, ast.ListComp) and len(node.generators) == 1 and not node.generators[0].ifs \
                and isinstance(node.generators[0].target, ast.Name):
            g = node.generators[0]
            try:
                seq = ast.literal_eval(g.iter)
            except Exception:
                seq = None
            if isinstance(seq, (list, tuple)):
                items = []
                for v in seq:
                    e2 = dict(env)
                    e2[g.target.id] = repr(v)
                    items.append(self.p(node.elt, e2))
                return "[" + ", ".join(items) + "]"
        if isinstance(node, ast.Tuple):
            return "(" + ", ".join(self.p(e, env) for e in node.elts) + ")"
        if isinstance(node, ast.UnaryOp) and isinstance(node.op, ast.USub):
            return "-" + self.p(node.operand, env)
        if isinstance(node, ast.BinOp):
            if isinstance(node.op, ast.Div) and self.is_8pi2(node.right):
                return "B2U(%s)" % self.p(node.left, env)
            if isinstance(node.op, ast.Add):
                a_, b_ = self.p(node.left, env), self.p(node.right, env)
                if len(a_) >= 2 and len(b_) >= 2 and a_[0] == a_[-1] == "'" and b_[0] == b_[-1] == "'":
                    return repr(ast.literal_eval(a_) + ast.literal_eval(b_))
            if isinstance(node.op, ast.Mod):
                a_, b_ = self.p(node.left, env), self.p(node.right, env)
                try:
                    return repr(ast.literal_eval(a_) % ast.literal_eval(b_))
                except Exception:
                    pass
            op = {ast.Add: "+", ast.Sub: "-", ast.Mult: "*", ast.Div: "/"}.get(type(node.op), "?")
            return "(%s %s %s)" % (self.p(node.left, env), op, self.p(node.right, env))
        if isinstance(node, ast.Call):
            f = node.func
            args = [self.p(a, env) for a in node.args]
            if isinstance(f, ast.Attribute):
                if f.attr == "remove_esd" and isinstance(f.value, ast.Name) and f.value.id == "self":
                    return "esd(%s)" % ", ".join(args)
                if f.attr in ("upper", "lower", "split") and not args:
                    return "%s(%s)" % (f.attr, self.p(f.value, env))
                if f.attr == "index":
                    return "index(%s, %s)" % (self.p(f.value, env), ", ".join(args))
                return "%s(%s)" % (self.p(f, env), ", ".join(args))
            name = self.p(f, env)
            kw = ", ".join("%s=%s" % (k.arg, self.p(k.value, env)) for k in node.keywords)
            return "%s(%s)" % (name, ", ".join([a for a in args] + ([kw] if kw else [])))
        if isinstance(node, ast.Compare):
            return "%s %s %s" % (self.p(node.left, env), type(node.ops[0]).__name__, self.p(node.comparators[0], env))
        if isinstance(node, ast.BoolOp):
            return (" %s " % type(node.op).__name__).join(self.p(v, env) for v in node.values)
        raise AnalysisError("provenance: unsupported expression `%s`" % core.unparse(node)[:60])

    # --- statements
    def decide(self, test, env):
        """fold the tests that depend on the scenario; None = not a scenario test"""
        txt = core.unparse(test).replace(" ", "").replace('"', "'")
        if txt.startswith("adp_type=="):
            lit = ast.literal_eval(test.comparators[0])
            return self.sc["adp_type"] == lit
        if txt == "'_atom_site_symmetry_multiplicity'incifblk":
            return self.sc["multi"] == "new"
        if txt == "'_atom_site_symetry_multiplicity'incifblk":
            return self.sc["multi"] == "old"
        return None

    def block(self, stmts, env):
        for st in stmts:
            self.stmt(st, env)

    def stmt(self, st, env):
        if isinstance(st, ast.Assign) and len(st.targets) == 1:
            t = st.targets[0]
            v = self.p(st.value, env)
            if isinstance(t, ast.Name):
                env[t.id] = t.id if t.id in self.opaque_names else v
            else:
                self.stores.append((self.p(t, env), v))
            return
        if isinstance(st, ast.Try):
            e1 = dict(env)
            n1 = len(self.stores)
            self.block(st.body, e1)
            body_stores = self.stores[n1:]
            del self.stores[n1:]
            alts = []
            for h in st.handlers:
                e2 = dict(env)
                n2 = len(self.stores)
                self.block(h.body, e2)
                alts.append((e2, self.stores[n2:]))
                del self.stores[n2:]
            for k in set(e1) | set(k2 for e2, _s in alts for k2 in e2):
                vals = [e1.get(k, env.get(k))] + [e2.get(k, env.get(k)) for e2, _s in alts]
                if k in self.opaque_names:
                    env[k] = k
                elif len(set(vals)) > 1:
                    env[k] = "try(%s)" % " | ".join(str(v) for v in vals)
                else:
                    env[k] = vals[0]
            # stores: pair them positionally
            for idx, (tg, v) in enumerate(body_stores):
                alt_vals = [s_[idx][1] if idx < len(s_) and s_[idx][0] == tg else "?" for _e, s_ in alts]
                self.stores.append((tg, "try(%s)" % " | ".join([v] + alt_vals)))
            return
        if isinstance(st, ast.If):
            d = self.decide(st.test, env)
            if d is True:
                self.block(st.body, env)
                return
            if d is False:
                self.block(st.orelse, env)
                return
            # not a scenario test: both arms, recorded under the test
            e1, e2 = dict(env), dict(env)
            n0 = len(self.stores)
            self.block(st.body, e1)
            s1 = self.stores[n0:]
            del self.stores[n0:]
            self.block(st.orelse, e2)
            s2 = self.stores[n0:]
            del self.stores[n0:]
            cond = self.p(st.test, env)
            for k in set(e1) | set(e2):
                a, b = e1.get(k, env.get(k)), e2.get(k, env.get(k))
                env[k] = a if a == b else "if(%s ? %s : %s)" % (cond, a, b)
            self.stores += [("if[%s]%s" % (cond, t), v) for t, v in s1] + [("else[%s]%s" % (cond, t), v) for t, v in s2]
            return
        if isinstance(st, ast.For):
            if isinstance(st.target, ast.Name):
                env[st.target.id] = st.target.id
            self.block(st.body, env)
            return
        if isinstance(st, ast.Expr) and isinstance(st.value, ast.Call):
            c = st.value
            f = c.func
            if isinstance(f, ast.Attribute) and isinstance(f.value, ast.Name) and f.value.id == "logger":
                return
            name = core.unparse(f)
            self.calls.append((name, {k.arg: self.p(k.value, env) for k in c.keywords}, [self.p(a, env) for a in c.args]))
            return
        if isinstance(st, (ast.Import, ast.ImportFrom, ast.Pass, ast.Raise)):
            return
        if isinstance(st, ast.Expr) and isinstance(st.value, ast.Constant):
            return
        if isinstance(st, ast.AugAssign):
            return
        raise AnalysisError("provenance: unsupported statement `%s`" % core.unparse(st)[:60])


def cif(key, idx="i"):
    return "cifblk['%s'][%s]" % (key, idx)


def run(ctx):
    ctx.rule("cif", "every CIF field reaches add_atom / the cell from the key the core dictionary prescribes (all ADP / multiplicity configurations)")
    ctx.rule("esd", "remove_esd: float(a) when there is no '(', else float(a[:a.find('(')])")
    ctx.rule("pdb", "PDB fields come from the wwPDB v3.3 columns; B -> U by 1/(8 pi^2); SCALE matrix rows; space-group tokens")
    ctx.rule("block", "CIFopen: single block, or the non-'global' one of two")
    mod = core.module("xfab/structure.py")
    ctx.saw(mod)
    cls = "build_atomlist"
    fn = mod.method(cls, "CIFread")
    ctx.saw(mod, "build_atomlist.CIFread")
    where = core.loc(mod, fn)
    body = core.body_wo_doc(fn)
    # the block-selection preamble only rebinds `cifblk`; it is matched by shape and skipped by the data-flow
    pre = [st for st in body if isinstance(st, ast.If) and
           {t.id for n_ in ast.walk(st) if isinstance(n_, ast.Assign) for t in n_.targets if isinstance(t, ast.Name)} == {"cifblk"}]
    ptxt0 = core.unparse(pre[0]).replace(" ", "") if len(pre) == 1 else ""
    okpre = ("ifciffile!=None:" in ptxt0 and "cifblk=self.CIFopen(ciffile=ciffile,cifblkname=cifblkname)" in ptxt0
             and "elifcifblk==None:" in ptxt0 and "cifblk=self.cifblk" in ptxt0)
    ctx.check(okpre, "C17:block:CIFread-source",
              "the block read is not CIFopen(ciffile, cifblkname) when a file is given, else the block passed / opened before", where)
    body = [st for st in body if st not in pre]
    nsc = 0
    for adp_type in (None, "Biso", "Bani", "Uiso", "Uani"):
        for multi in ("new", "old", "none"):
            nsc += 1
            pv = Prov(mod, {"adp_type": adp_type, "multi": multi})
            env = {}
            pv.block(body, env)
            tag = "%s/%s" % (adp_type, multi)
            adds = [c for c in pv.calls if c[0] == "self.atomlist.add_atom"]
            if len(adds) != 1:
                raise AnalysisError("CIFread: expected one add_atom call, found %d" % len(adds))
            kw = adds[0][1]
            exp = {
                "label": cif("_atom_site_label"),
                "atomtype": "upper(%s)" % cif("_atom_site_type_symbol"),
                "pos": "[esd(%s), esd(%s), esd(%s)]" % (cif("_atom_site_fract_x"), cif("_atom_site_fract_y"), cif("_atom_site_fract_z")),
                "occ": "try(esd(%s) | 1.0)" % cif("_atom_site_occupancy"),
            }
            pos3 = "[esd(%s), esd(%s), esd(%s)]" % (cif("_atom_site_fract_x"), cif("_atom_site_fract_y"), cif("_atom_site_fract_z"))
            exp["symmulti"] = {"new": "esd(%s)" % cif("_atom_site_symmetry_multiplicity"),
                               "old": "esd(%s)" % cif("_atom_site_symetry_multiplicity"),
                               "none": "multiplicity(%s, self.atomlist.sgname)" % pos3}[multi]
            k = "index(cifblk['_atom_site_aniso_label'], %s)" % cif("_atom_site_label")
            if adp_type is None:
                exp["adp"], exp["adp_type"] = "0.0", None
            elif adp_type == "Biso":
                exp["adp"], exp["adp_type"] = "B2U(esd(%s))" % cif("_atom_site_B_iso_or_equiv"), "'Uiso'"
            elif adp_type == "Uiso":
                exp["adp"], exp["adp_type"] = "esd(%s)" % cif("_atom_site_U_iso_or_equiv"), None
            elif adp_type == "Bani":
                exp["adp"] = "[" + ", ".join("B2U(esd(%s))" % cif("_atom_site_aniso_B_%s" % o, k) for o in ANISO_ORDER) + "]"
                exp["adp_type"] = "'Uani'"
            else:
                exp["adp"] = "[" + ", ".join("esd(%s)" % cif("_atom_site_aniso_U_%s" % o, k) for o in ANISO_ORDER) + "]"
                exp["adp_type"] = None
            for field, want in exp.items():
                got = kw.get(field)
                if field == "adp_type":
                    # unchanged type: whatever was read (a try around the key); converted type: the literal
                    ok = (got == want) if want is not None else (got is not None and "_atom_site_adp_type" in got)
                    if adp_type is None:
                        ok = got is not None and "_atom_site_adp_type" in got and "None" in got
                else:
                    ok = got == want
                ctx.check(ok, "C17:cif:%s:%s" % (tag, field),
                          "add_atom(%s=...) receives %s ; the file's value is %s" % (field, got, want if want is not None else "the adp type read"),
                          where, sample={"scenario": tag, "field": field, "provenance": got} if (tag, field) in (("Bani/none", "adp"), ("Uiso/new", "symmulti")) else None)
            if adp_type is None and multi == "new":
                # cell, space group, dispersion: independent of the scenario
                cell = dict(pv.stores).get("self.atomlist.cell")
                want = "[" + ", ".join("esd(cifblk['%s'])" % k_ for k_ in CELL_KEYS) + "]"
                ctx.check(cell == want, "C17:cif:cell", "cell is %s" % cell, where)
                sgv = dict(pv.stores).get("self.atomlist.sgname")
                ctx.check(sgv in ("sub('\\\\s+', '', cifblk['_symmetry_space_group_name_H-M'])",), "C17:cif:sgname",
                          "space-group symbol is %s, not the H-M symbol with white space removed" % sgv, where)
                disp = [(t, v) for t, v in pv.stores if "dispersion" in t]
                t_sym = "upper(%s)" % cif("_atom_type_symbol")
                s_sym = "upper(%s)" % cif("_atom_site_type_symbol")
                want_present = "try([esd(%s), esd(%s)] | None)" % (cif("_atom_type_scat_dispersion_real"), cif("_atom_type_scat_dispersion_imag"))
                okp = any(t.endswith("self.atomlist.dispersion[%s]" % t_sym) and t.startswith("if[") and v == want_present for t, v in disp)
                oka = any(t.endswith("self.atomlist.dispersion[%s]" % s_sym) and t.startswith("else[") and v == "None" for t, v in disp)
                ctx.check(okp, "C17:cif:dispersion-loop",
                          "dispersion of an atom type is not [esd(real), esd(imag)] of the atom-type loop (None when unreadable): %s" % disp[:1], where)
                ctx.check(oka, "C17:cif:dispersion-absent",
                          "without an atom-type loop the dispersion entries are not None per site type", where)
    ctx.extra["cif_scenarios"] = nsc
    # anisotropic order agrees with Uij2betaij's layout (reader/writer): [11,22,33,23,13,12] <-> U[[0,5,4],[5,1,3],[4,3,2]]
    ufn = mod.func("Uij2betaij")
    utxt = core.unparse(ufn).replace(" ", "")
    a = list(mod.np_alias)[0]
    ctx.check("U=%s.array([[adp[0],adp[5],adp[4]],[adp[5],adp[1],adp[3]],[adp[4],adp[3],adp[2]]])" % a in utxt, "C17:cif:aniso-order-consumer",
              "Uij2betaij does not read the anisotropic list in the order 11,22,33,23,13,12", core.loc(mod, ufn))
    # remove_esd
    rfn = mod.method(cls, "remove_esd")
    rtxt = core.unparse(ast.Module(body=core.body_wo_doc(rfn), type_ignores=[])).replace(" ", "").replace('"', "'")
    arg = rfn.args.args[1].arg
    want = "if{a}.find('(')==-1:\nvalue=float({a})\nelse:\nvalue=float({a}[:{a}.find('(')])\nreturnvalue".format(a=arg)
    ctx.check(rtxt.replace("    ", "") == want, "C17:esd:remove_esd",
              "remove_esd is not float(a) / float(a[:a.find('(')])", core.loc(mod, rfn))
    # ---- PDB
    pfn = mod.method(cls, "PDBread")
    ctx.saw(mod, "build_atomlist.PDBread")
    pwhere = core.loc(mod, pfn)
    pv = Prov(mod, {"adp_type": "<n/a>", "multi": "none"}, opaque_names=("text", "scalemat"))
    env = {}
    pv.block(core.body_wo_doc(pfn), env)
    line = "text[i]"
    for name, cols in PDB_CRYST1.items():
        got = env.get(name)
        want = "float(%s[%s])" % (line, sl(cols)) if name != "sg" else None
        if name == "sg":
            # sg is later rebuilt from tokens; its first binding is the column slice: look at the raw assignment
            raw = [core.unparse(n_.value).replace(" ", "") for n_ in ast.walk(pfn) if isinstance(n_, ast.Assign)
                   and isinstance(n_.targets[0], ast.Name) and n_.targets[0].id == "sg" and isinstance(n_.value, ast.Subscript)]
            ok = raw == ["text[i][%s]" % sl(cols)]
            got = raw
        else:
            ok = got is not None and want in got and got.count("float(") == 1
        ctx.check(ok, "C17:pdb:CRYST1:%s" % name, "CRYST1 field %s is read from %s, columns %d-%d are [%s]" % (name, got, cols[0], cols[1], sl(cols)), pwhere)
    adds = [c for c in pv.calls if c[0] == "self.atomlist.add_atom"]
    if len(adds) != 1:
        raise AnalysisError("PDBread: expected one add_atom call")
    kw = adds[0][1]
    x, y, z = ["float(%s[%s])" % (line, sl(PDB_ATOM[c])) for c in "xyz"]
    exp = {
        "label": "sub('\\\\s+', '', %s[%s])" % (line, sl(PDB_ATOM["label"])),
        "atomtype": "upper(sub('\\\\s+', '', %s[%s]))" % (line, sl(PDB_ATOM["atomtype"])),
        "pos": "%s.dot(scalemat, [%s, %s, %s, 1])" % (a, x, y, z),
        "adp": "B2U(float(%s[%s]))" % (line, sl(PDB_ATOM["adp"])),
        "adp_type": "'Uiso'",
        "occ": "float(%s[%s])" % (line, sl(PDB_ATOM["occ"])),
    }
    exp["symmulti"] = "multiplicity(%s, self.atomlist.sgname)" % exp["pos"]
    for field, want in exp.items():
        got = kw.get(field)
        ok = got is not None and (got == want or got.endswith(want))
        ctx.check(ok, "C17:pdb:ATOM:%s" % field, "add_atom(%s=...) receives %s ; specification: %s" % (field, got, want), pwhere,
                  sample={"field": field, "provenance": got} if field in ("pos", "adp") else None)
    ptxt = core.unparse(pfn).replace(" ", "").replace('"', "'")
    ctx.check("iftext[i].find('ATOM')==0ortext[i].find('HETATM')==0:" in ptxt and "iftext[i].find('CRYST1')==0:" in ptxt
              and "iftext[i].find('SCALE')==0:" in ptxt, "C17:pdb:record-tags",
              "records are not selected by CRYST1 / SCALE / ATOM|HETATM at the start of the line", pwhere)
    ok_scale = ("scale=text[i].split()" in ptxt and "scaleline=int(scale[0][-1])-1" in ptxt
                and "forjinrange(1,len(scale)):" in ptxt and "scalemat[scaleline,j-1]=float(scale[j])" in ptxt
                and "scalemat=%s.zeros((3,4))" % a in ptxt)
    ctx.check(ok_scale, "C17:pdb:SCALE", "SCALEn rows are not stored as scalemat[n-1, j-1] = float(token j)", pwhere)
    ok_sg = ("sgtmp=sg.split()" in ptxt and "ifsgtmp[i]!='1':" in ptxt and "sg=sg+sgtmp[i].lower()" in ptxt
             and "self.atomlist.sgname=sg" in ptxt)
    ctx.check(ok_sg, "C17:pdb:spacegroup", "space-group tokens equal to '1' are not dropped / the rest not lower-cased and joined", pwhere)
    cellst = dict(pv.stores).get("self.atomlist.cell")
    ctx.check(cellst is not None and cellst.count("float(") == 6 and all(("[%s]" % sl(PDB_CRYST1[k_])) in cellst for k_ in ("a", "b", "c", "alp", "bet", "gam")),
              "C17:pdb:cell", "cell is %s" % cellst, pwhere)
    disp = [v for t, v in pv.stores if "dispersion" in t]
    ctx.check(disp == ["None"], "C17:pdb:dispersion", "PDB atoms do not get dispersion None", pwhere)
    # ---- CIFopen block choice
    ofn = mod.method(cls, "CIFopen")
    otxt = core.unparse(ofn).replace(" ", "").replace('"', "'")
    okb = ("iflen(blocks)>1:" in otxt and "iflen(blocks)==2and'global'inblocks:" in otxt
           and "cifblkname=blocks[abs(blocks.index('global')-1)]" in otxt and "cifblkname=blocks[0]" in otxt
           and "self.cifblk=cf[cifblkname]" in otxt)
    ctx.check(okb, "C17:block:CIFopen", "block choice is not: the only block, or the non-'global' one of two", core.loc(mod, ofn))
    ctx.not_decided += ["PyCifRW's parsing and Python's float(); that real files are well formed",
                        "site multiplicity values themselves (C15)"]
    ctx.assumptions += ["IUCr core CIF dictionary key names; wwPDB format v3.3 column table"]
    return ("Provenance data-flow over CIFread for %d configurations (5 ADP types x 3 multiplicity-key cases): every keyword of "
            "add_atom, the cell, the symbol and the dispersion table traced to the prescribed CIF keys through remove_esd, upper, "
            "B->U and the anisotropic label index in the order 11,22,33,23,13,12; PDBread's fields traced to the wwPDB columns, "
            "SCALE rows and space-group tokens; remove_esd and CIFopen by shape." % nsc)
