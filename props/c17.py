"""
C17 -- CIF and PDB ingestion reproduces what the file states.

The readers are *evaluated* (E7) on model files whose numbers are symbolic: a CIF value is the text of a numeric atom,
optionally followed by its standard uncertainty in parentheses; a PDB record is a line of literal text and fixed-width
numeric *fields* laid out by the wwPDB v3.3 column table.  What reaches the atom list is compared, as normal forms, with
what the format specification says each field means (IUCr core CIF dictionary names; wwPDB columns; B -> U by 1/(8 pi^2);
anisotropic order 11,22,33,23,13,12 and the label index; SCALEn rows).  The oracle is the specification, not the code, and
the readers may be written in any way E7 can evaluate.
"""
import ast
from fractions import Fraction

from xfabsa import core, numeric as N
from xfabsa.core import AnalysisError
from xfabsa.poly import Rat
from xfabsa.symeval import Arr, Obj, Opaque, RaiseReached, scalar, materialise, sym_array
from xfabsa.objeval import ObjEvaluator, FileSystem, PyRaise, Sym, SStr, Text, Field, TextOpaque, num_atom, okey, exc_name_of

NODE = ast.Constant(value=0)
NODE.lineno = 0
CELL_KEYS = ["_cell_length_a", "_cell_length_b", "_cell_length_c",
             "_cell_angle_alpha", "_cell_angle_beta", "_cell_angle_gamma"]
ANISO_ORDER = ["11", "22", "33", "23", "13", "12"]
EIGHT_PI2 = 8 * N.PI * N.PI


# Numbers of the model blocks are abstract texts (any spelling without parenthesis, blank or letter) -- or, in a SPELLED run,
# concrete literals in one of the spellings the CIF grammar allows for a number, each atom with a value of its own.  The
# abstract run covers every value at once but can only follow text operations that do not look inside a number (find('('),
# slices, split); the spelled runs fold whatever the reader does with the characters (regular expressions, partition, ...).
SPELL = [None]
SPELLINGS = ("plain", "negative", "exponent", "Exponent+", "leading-dot", "plus", "integer")
_VALUES = {}


def _k(atom):
    if atom not in _VALUES:
        _VALUES[atom] = 137 + 17 * len(_VALUES)
    return _VALUES[atom]


def spelled(atom):
    """(literal, exact value) of the number `atom` in the current spelling"""
    k = _k(atom)
    style = SPELL[0]
    if atom in ("m0", "m1"):                       # multiplicities are integers in every file
        return "%d" % (2 + k % 7), Fraction(2 + k % 7)
    if style == "plain":
        return "0.%03d" % (k % 1000), Fraction(k % 1000, 1000)
    if style == "negative":
        return "-0.%03d" % (k % 1000), Fraction(-(k % 1000), 1000)
    if style == "exponent":
        k = k % 1000
        return "%d.%02de-01" % (k // 100, k % 100), Fraction(k, 1000)
    if style == "Exponent+":
        k = k % 1000
        return "0.%05dE+02" % k, Fraction(k, 1000)
    if style == "leading-dot":
        return ".%03d" % (k % 1000), Fraction(k % 1000, 1000)
    if style == "plus":
        return "+0.%03d" % (k % 1000), Fraction(k % 1000, 1000)
    if style == "integer":
        return "%d" % (k % 1000), Fraction(k % 1000)
    raise AnalysisError("unknown spelling %r" % style)


def txt(atom, esd=None):
    """the CIF text of a number, e.g. 0.1234(5)"""
    if SPELL[0] is not None:
        return spelled(atom)[0] + ("(%s)" % esd if esd else "")
    num_atom(atom, "float")
    return SStr([Text(atom)] + (["(", esd, ")"] if esd else [])).simplify()


def val(atom):
    if SPELL[0] is not None:
        return Rat.const(spelled(atom)[1])
    return Rat.atom(atom)


class Reader:
    def __init__(self, mod, multiplicity_log):
        self.mod = mod
        self.mlog = multiplicity_log
        self.cif_files = {}
        self.ev = ObjEvaluator(mod, inline=set(), call_policy=self.cpol, import_policy=self.ipol, max_depth=10)
        self.fs = FileSystem(self.ev)
        self.obj = self.ev.instantiate("build_atomlist", [], {}, NODE)

    def cpol(self, name, args, kwargs, node):
        if name == "multiplicity":
            self.mlog.append((args, kwargs))
            num_atom("mult#%d" % len(self.mlog), "int")
            return Rat.atom("mult#%d" % len(self.mlog))
        return NotImplemented

    def ipol(self, name, args, kwargs, node):
        if name == "CifFile.ReadCif":
            f = args[0] if args else kwargs.get("filename")
            if f not in self.cif_files:
                raise PyRaise("FileNotFoundError", node, str(f))
            return self.cif_files[f]
        return NotImplemented

    def call(self, meth, *args, **kw):
        fn = self.ev.find_method(self.obj, meth)
        if fn is None:
            raise AnalysisError("anchor vanished: build_atomlist.%s" % meth)
        return self.ev.call_bound(fn, self.obj, list(args), dict(kw), NODE)

    def outcome(self, meth, *args, **kw):
        try:
            return "ok", self.call(meth, *args, **kw)
        except (PyRaise, RaiseReached) as e:
            return "raise", exc_name_of(e)

    @property
    def atomlist(self):
        return self.obj.attrs["atomlist"]


def same(a, b):
    if isinstance(a, Arr):
        a = list(a.flat())
    if isinstance(b, Arr):
        b = list(b.flat())
    if isinstance(a, (list, tuple)) and isinstance(b, (list, tuple)):
        return len(a) == len(b) and all(same(x, y) for x, y in zip(a, b))
    if isinstance(a, Rat) and isinstance(b, Rat):
        return a.equals(b)
    return okey(a) == okey(b)


HM = ["P 21/c"]          # the Hermann-Mauguin symbol of the model block (a CIF symbol keeps every part: `P 1 21/c 1` is `P121/c1`)
HM_CLASSES = ("P 1 21/c 1", "P 3 2 1", "P 1", "F m -3 m", "P -1", " P 63/m m c ")


def hm_joined():
    return "".join(HM[0].split())


def cif_block(adp_types, multi, with_type_loop=True, with_occ=True):
    """a two-site block; site k has the given ADP type; the anisotropic loop lists the sites in REVERSE order"""
    labels = ["Fe1", "O2"]
    blk = {}
    for k_, a_ in zip(CELL_KEYS, ("ca", "cb", "cc", "cal", "cbe", "cga")):
        blk[k_] = txt(a_, "3")
    blk["_symmetry_space_group_name_H-M"] = HM[0]
    blk["_atom_site_label"] = list(labels)
    blk["_atom_site_type_symbol"] = ["Fe", "o"]
    for ax in "xyz":
        blk["_atom_site_fract_%s" % ax] = [txt("%s0" % ax, "2"), txt("%s1" % ax)]
    if any(t is not Ellipsis for t in adp_types):
        blk["_atom_site_adp_type"] = [t for t in adp_types]
    if with_occ:
        blk["_atom_site_occupancy"] = [txt("occ0"), txt("occ1", "1")]
    blk["_atom_site_U_iso_or_equiv"] = [txt("uiso0", "4"), txt("uiso1")]
    blk["_atom_site_B_iso_or_equiv"] = [txt("biso0"), txt("biso1", "4")]
    blk["_atom_site_aniso_label"] = [labels[1], labels[0]]
    for o in ANISO_ORDER:
        blk["_atom_site_aniso_U_%s" % o] = [txt("U%s_1" % o, "5"), txt("U%s_0" % o)]
        blk["_atom_site_aniso_B_%s" % o] = [txt("B%s_1" % o), txt("B%s_0" % o, "5")]
    if multi == "new":
        blk["_atom_site_symmetry_multiplicity"] = [txt("m0"), txt("m1")]
    elif multi == "old":
        blk["_atom_site_symetry_multiplicity"] = [txt("m0"), txt("m1")]
    if with_type_loop:
        blk["_atom_type_symbol"] = ["o", "Fe"]
        blk["_atom_type_scat_dispersion_real"] = [txt("fpO", "1"), txt("fpFe")]
        blk["_atom_type_scat_dispersion_imag"] = [txt("fppO"), txt("fppFe", "2")]
    return blk


def expected_adp(t, k):
    if t is None:
        return Rat.const(0), None
    if t == "Uiso":
        return val("uiso%d" % k), "Uiso"
    if t == "Biso":
        return val("biso%d" % k) / EIGHT_PI2, "Uiso"
    if t == "Uani":
        return [val("U%s_%d" % (o, k)) for o in ANISO_ORDER], "Uani"
    if t == "Bani":
        return [val("B%s_%d" % (o, k)) / EIGHT_PI2 for o in ANISO_ORDER], "Uani"
    raise AnalysisError("unknown adp type")


def pdb_lines():
    """CRYST1, SCALE1-3, ATOM and HETATM records by the wwPDB v3.3 column table, numbers as fixed-width fields"""
    def f(atom, width):
        num_atom(atom, "float")
        return Field(atom, width)
    cryst = SStr(["CRYST1", f("pa", 9), f("pb", 9), f("pc", 9), f("pal", 7), f("pbe", 7), f("pga", 7), " ", "P 1 21/c 1 ", "   4", " " * 10, "\n"])
    scale = [SStr(["SCALE%d" % (r + 1), "    ", " ", f("s%d0" % r, 9), " ", f("s%d1" % r, 9), " ", f("s%d2" % r, 9), "     ", " ", f("u%d" % r, 9), " " * 25, "\n"])
             for r in range(3)]

    def atom(rec, k, name, elem):
        return SStr([rec.ljust(6), "%5d" % (k + 1), " ", name, " ", "ALA", " ", "A", "%4d" % (k + 1), " ", "   ",
                     f("X%d" % k, 8), f("Y%d" % k, 8), f("Z%d" % k, 8), f("OCC%d" % k, 6), f("BF%d" % k, 6), " " * 10, elem, "  ", "\n"])
    return ["HEADER    TEST\n", cryst] + scale + [atom("ATOM", 0, " CA ", " c"), "REMARK ATOM in the middle of a line\n", atom("HETATM", 1, "FE  ", "Fe"),
                                                    "END\n"]


def run(ctx):
    from xfabsa import numeric as _NA
    _NA.alias_rule(ctx, 'C17', ['xfab/structure.py'])
    ctx.rule("cif", "CIFread evaluated on model blocks: every field of every atom, cell, symbol, dispersion == what the core dictionary keys mean")
    ctx.rule("esd", "remove_esd: the number in front of the parenthesised uncertainty, or the whole text")
    ctx.rule("pdb", "PDBread evaluated on records laid out by the wwPDB column table: cell, symbol, SCALE matrix, atoms (B -> U)")
    ctx.rule("block", "CIFopen: the only block, the non-'global' one of two, the named one; otherwise an exception")
    mod = core.module("xfab/structure.py")
    ctx.saw(mod)
    cls = mod.klass("build_atomlist")
    for m_ in ("CIFread", "CIFopen", "PDBread", "remove_esd"):
        mod.method("build_atomlist", m_)
        ctx.saw(mod, "build_atomlist." + m_)
    where = core.loc(mod, mod.method("build_atomlist", "CIFread"))
    rwhere = core.loc(mod, mod.method("build_atomlist", "remove_esd"))
    # ---- CIFread over ADP types x multiplicity keys
    nsc = 0

    def scenario(t0, multi, pre=""):
        if True:
            t1 = {"Uani": "Biso", "Bani": "Uiso"}.get(t0, "Uani")          # the second site has another type
            mlog = []
            r = Reader(mod, mlog)
            types = [t0 if t0 is not None else Ellipsis, t1]
            blk = cif_block(types, multi)
            if t0 is None:
                del blk["_atom_site_adp_type"]          # no ADP type column at all: every site has type None
                t1 = None
            tag = "%s%s/%s" % (pre, t0, multi)
            kind, exc = r.outcome("CIFread", cifblk=blk)
            if kind != "ok":
                ctx.fail("C17:cif:%s:reads" % tag, "CIFread raises %s on a well-formed block" % exc, where)
                return
            atoms = r.atomlist.attrs.get("atom")
            if not isinstance(atoms, list) or len(atoms) != 2 or not all(isinstance(a, Obj) for a in atoms):
                ctx.fail("C17:cif:%s:count" % tag, "two sites in the block, %s atoms in the list" % (len(atoms) if isinstance(atoms, list) else atoms), where)
                return
            for k, (a, tk) in enumerate(zip(atoms, (t0, t1))):
                A = a.attrs
                pos3 = [val("x%d" % k), val("y%d" % k), val("z%d" % k)]
                adp, adp_type = expected_adp(tk, k)
                exp = {"label": ["Fe1", "O2"][k], "atomtype": ["FE", "O"][k], "pos": pos3, "occ": val("occ%d" % k), "adp": adp, "adp_type": adp_type}
                if multi in ("new", "old"):
                    exp["symmulti"] = val("m%d" % k)
                for field, want in exp.items():
                    got = A.get(field)
                    ctx.check(same(got, want), "C17:cif:%s:%s" % (tag, field) if k == 0 else "C17:cif:%s:%s:site2(%s)" % (tag, field, tk),
                              "site %d: add_atom(%s=...) receives %s ; the file's value is %s" % (k, field, okey(got), okey(want)), where,
                              sample={"scenario": tag, "field": field, "value": okey(got)} if (tag, field, k) in (("Bani/none", "adp", 0), ("Uiso/new", "symmulti", 0)) else None)
            if multi == "none":
                okm = len(mlog) == 2 and all(len(a_) >= 2 and same(a_[0], [val("x%d" % k), val("y%d" % k), val("z%d" % k)]) and a_[1] == hm_joined()
                                             for k, (a_, _kw) in enumerate(mlog)) \
                    and all(same(atoms[k].attrs.get("symmulti"), Rat.atom("mult#%d" % (k + 1))) for k in range(2))
                ctx.check(okm, "C17:cif:%s:symmulti" % tag,
                          "without a multiplicity column symmulti is not multiplicity([x, y, z], <space group symbol>) of the site", where)
            if t0 is None and multi == "new":
                al = r.atomlist.attrs
                ctx.check(same(al.get("cell"), [val(a_) for a_ in ("ca", "cb", "cc", "cal", "cbe", "cga")]), "C17:cif:%scell" % pre,
                          "cell is %s" % okey(al.get("cell")), where)
                ctx.check(al.get("sgname") == hm_joined(), "C17:cif:%ssgname" % pre,
                          "space-group symbol is %s, not the H-M symbol with white space removed" % okey(al.get("sgname")), where)
                disp = al.get("dispersion")
                okp = isinstance(disp, dict) and set(disp) == {"O", "FE"} and same(disp["O"], [val("fpO"), val("fppO")]) \
                    and same(disp["FE"], [val("fpFe"), val("fppFe")])
                ctx.check(okp, "C17:cif:%sdispersion-loop" % pre,
                          "dispersion of an atom type is not [esd(real), esd(imag)] of the atom-type loop: %s" % okey(disp), where)
    # the spelled runs first: what they decide stands even if the abstract run below meets a text operation it cannot follow
    ctx.rule("spelling", "CIFread on the same blocks with every number written out in each spelling of the CIF grammar "
                         "(plain, signed, exponent, leading dot, integer): every field is the literal's value")
    for style in SPELLINGS:
        SPELL[0] = style
        try:
            for t0, multi in ((None, "new"), ("Uani", "old"), ("Bani", "none")):
                scenario(t0, multi, "spelled:%s:" % style)
                nsc += 1
            r_ = Reader(mod, [])
            lit_, v_ = spelled("q")
            g1 = r_.outcome("remove_esd", lit_ + "(12)")
            g2 = r_.outcome("remove_esd", lit_)
            ctx.check(g1[0] == "ok" and same(g1[1], Rat.const(v_)) and g2[0] == "ok" and same(g2[1], Rat.const(v_)),
                      "C17:esd:spelled:%s" % style, "remove_esd(%r) -> %s, remove_esd(%r) -> %s ; the number written is %s"
                      % (lit_ + "(12)", okey(g1[1]), lit_, okey(g2[1]), float(v_)), rwhere)
        finally:
            SPELL[0] = None
    # the abstract runs: every number a symbolic text.  A reader that looks at the characters of a number (a regular expression)
    # cannot be followed there; the spelled runs above then carry the verdict, and that is said in the evidence
    try:
        # ---- remove_esd
        r = Reader(mod, [])
        got1 = r.outcome("remove_esd", txt("q", "12"))
        got2 = r.outcome("remove_esd", txt("q"))
        got3 = r.outcome("remove_esd", "1.25(3)")
        ctx.check(got1 == ("ok", got1[1]) and same(got1[1], val("q")) and got2[0] == "ok" and same(got2[1], val("q"))
                  and got3[0] == "ok" and same(got3[1], Rat.const(Fraction(5, 4))), "C17:esd:remove_esd",
                  "remove_esd is not float(a) / float(a[:a.find('(')]): 'q(12)' -> %s, 'q' -> %s, '1.25(3)' -> %s"
                  % (okey(got1[1]), okey(got2[1]), okey(got3[1])), rwhere)
        for t0 in (None, "Biso", "Bani", "Uiso", "Uani"):
            for multi in ("new", "old", "none"):
                nsc += 1
                scenario(t0, multi)
    except TextOpaque as e:
        ctx.note("abstract CIF run not possible (%s): the CIF rules are decided on the spelled-out blocks only" % e)
        ctx.not_decided.append("CIF numbers in spellings other than the %d representative ones (the reader inspects the characters of a number)" % len(SPELLINGS))
        SPELL[0] = "exponent"          # the remaining CIF rules (defaults, unreadable entries, block choice) on spelled blocks too
    # the classes of Hermann-Mauguin symbols: full symbols with lone `1` parts (a CIF keeps them: only white space goes), two- and
    # four-part symbols, surrounding blanks -- the stored symbol, and the symbol multiplicity() is asked with
    ctx.rule("symbol", "CIFread on the model block with each class of H-M symbol: the stored symbol and the symbol handed to "
                       "multiplicity are the file's symbol with white space removed, nothing else")
    keep_spell = SPELL[0]
    if SPELL[0] is None:
        SPELL[0] = "plain"
    try:
        for sym in HM_CLASSES:
            HM[0] = sym
            scenario(None, "new", "symbol:%s:" % "".join(sym.split()))
            scenario("Bani", "none", "symbol:%s:" % "".join(sym.split()))
            nsc += 2
    finally:
        HM[0] = "P 21/c"
        SPELL[0] = keep_spell
    ctx.extra["cif_scenarios"] = nsc
    # no atom-type loop / unreadable dispersion / no occupancy column
    r = Reader(mod, [])
    blk = cif_block(["Uiso", "Uiso"], "new", with_type_loop=False, with_occ=False)
    kind, exc = r.outcome("CIFread", cifblk=blk)
    disp = r.atomlist.attrs.get("dispersion") if kind == "ok" else None
    ctx.check(kind == "ok" and isinstance(disp, dict) and set(disp) == {"O", "FE"} and all(v is None for v in disp.values()),
              "C17:cif:dispersion-absent", "without an atom-type loop the dispersion entries are not None per site type: %s" % okey(disp), where)
    atoms = r.atomlist.attrs.get("atom") if kind == "ok" else []
    ctx.check(kind == "ok" and len(atoms) == 2 and all(same(a.attrs.get("occ"), Rat.const(1)) for a in atoms), "C17:cif:occupancy-default",
              "without an occupancy column the occupancy is not 1.0", where)
    r = Reader(mod, [])
    blk = cif_block(["Uiso", "Uiso"], "new")
    blk["_atom_type_scat_dispersion_real"] = [txt("fpO", "1")]          # too short: the second type cannot be read
    kind, exc = r.outcome("CIFread", cifblk=blk)
    disp = r.atomlist.attrs.get("dispersion") if kind == "ok" else None
    ctx.check(kind == "ok" and isinstance(disp, dict) and disp.get("FE") is None and same(disp.get("O"), [val("fpO"), val("fppO")]),
              "C17:cif:dispersion-unreadable", "an unreadable dispersion entry is not stored as None: %s (%s)" % (okey(disp), (kind, exc)), where)
    # ---- which block is read
    owhere = core.loc(mod, mod.method("build_atomlist", "CIFopen"))
    b1, b2 = {"_marker": "one"}, {"_marker": "two"}
    cases = [("single", {"only": b1}, None, ("ok", b1)), ("global-first", {"global": b2, "data": b1}, None, ("ok", b1)),
             ("global-second", {"data": b1, "global": b2}, None, ("ok", b1)), ("named", {"a": b2, "b": b1, "c": b2}, "b", ("ok", b1)),
             ("ambiguous", {"a": b1, "b": b2}, None, ("raise", None)), ("three", {"a": b1, "b": b2, "global": b2}, None, ("raise", None)),
             ("missing-name", {"a": b1}, "zz", ("raise", None))]
    badb = []
    for label, cf, name, want in cases:
        r = Reader(mod, [])
        r.cif_files["f.cif"] = cf
        kind, got = r.outcome("CIFopen", ciffile="f.cif", cifblkname=name)
        ok = (kind == "ok" and got is want[1] and r.obj.attrs.get("cifblk") is want[1]) if want[0] == "ok" else kind == "raise"
        if not ok:
            badb.append((label, kind, okey(got) if kind == "ok" else got))
    ctx.check(not badb, "C17:block:CIFopen", "block choice is not: the only block, or the non-'global' one of two, or the named one "
              "(exception otherwise): %s" % badb[:3], owhere, sample={"cases": [c[0] for c in cases]})
    # CIFread(ciffile=...) reads the block CIFopen chooses; CIFread() the block opened before
    r = Reader(mod, [])
    full = cif_block(["Uiso", "Uiso"], "new")
    r.cif_files["f.cif"] = {"global": {"_marker": "g"}, "data": full}
    kind, exc = r.outcome("CIFread", ciffile="f.cif")
    ok1 = kind == "ok" and len(r.atomlist.attrs.get("atom", [])) == 2
    r2 = Reader(mod, [])
    r2.cif_files["f.cif"] = {"data": full}
    k2 = r2.outcome("CIFopen", ciffile="f.cif")
    k3 = r2.outcome("CIFread")
    ok2 = k2[0] == "ok" and k3[0] == "ok" and len(r2.atomlist.attrs.get("atom", [])) == 2
    ctx.check(ok1 and ok2, "C17:block:CIFread-source",
              "the block read is not CIFopen(ciffile, cifblkname) when a file is given, else the block passed / opened before (%s, %s, %s)"
              % ((kind, exc), k2[0], k3), where)
    SPELL[0] = None
    # ---- PDB
    pwhere = core.loc(mod, mod.method("build_atomlist", "PDBread"))
    mlog = []
    r = Reader(mod, mlog)
    r.fs.files["m.pdb"] = pdb_lines()
    kind, exc = r.outcome("PDBread", "m.pdb")
    if kind != "ok":
        ctx.fail("C17:pdb:reads", "PDBread raises %s on well-formed records" % exc, pwhere)
    else:
        al = r.atomlist.attrs
        cell = al.get("cell")
        for k, nm in enumerate(("a", "b", "c", "alp", "bet", "gam")):
            want = val(("pa", "pb", "pc", "pal", "pbe", "pga")[k])
            got = cell[k] if isinstance(cell, (list, tuple)) and len(cell) == 6 else (cell.data[k] if isinstance(cell, Arr) and cell.shape == (6,) else None)
            ctx.check(got is not None and same(got, want), "C17:pdb:CRYST1:%s" % nm,
                      "CRYST1 field %s is read as %s (columns of the wwPDB table give %s)" % (nm, okey(got), okey(want)), pwhere)
        ctx.check(al.get("sgname") == "p21/c", "C17:pdb:spacegroup",
                  "space-group tokens equal to '1' are not dropped / the rest not lower-cased and joined: %s from 'P 1 21/c 1'" % okey(al.get("sgname")), pwhere)
        atoms = al.get("atom")
        ctx.check(isinstance(atoms, list) and len(atoms) == 2, "C17:pdb:record-tags",
                  "records are not selected by ATOM|HETATM at the start of the line: %s atoms from one ATOM, one HETATM and a REMARK mentioning ATOM"
                  % (len(atoms) if isinstance(atoms, list) else atoms), pwhere)
        if isinstance(atoms, list) and len(atoms) == 2:
            for k, a in enumerate(atoms):
                A = a.attrs
                xyz1 = [val("X%d" % k), val("Y%d" % k), val("Z%d" % k), Rat.const(1)]
                pos = [sum((val("s%d%d" % (r_, c)) * xyz1[c] for c in range(3)), Rat.const(0)) + val("u%d" % r_) for r_ in range(3)]
                exp = {"label": ["CA", "FE"][k], "atomtype": ["C", "FE"][k], "pos": pos, "adp": val("BF%d" % k) / EIGHT_PI2,
                       "adp_type": "Uiso", "occ": val("OCC%d" % k), "symmulti": Rat.atom("mult#%d" % (k + 1))}
                for field, want in exp.items():
                    got = A.get(field)
                    key = "C17:pdb:ATOM:%s" % field if k == 0 else "C17:pdb:HETATM:%s" % field
                    if field == "pos" and not same(got, want):
                        # which half is wrong: the SCALE matrix or the coordinates?
                        G = got if isinstance(got, Arr) else materialise(got) if isinstance(got, (list, tuple, Opaque)) else None
                        coords_ok = G is not None and G.shape == (3,) and all(set(scalar(x).atoms()) & {"X%d" % k, "Y%d" % k, "Z%d" % k} for x in G.data)
                        ctx.fail("C17:pdb:SCALE" if coords_ok and k == 0 else key,
                                 "fractional position is %s ; SCALEn rows applied to (x, y, z, 1) give %s" % (okey(got), okey(want)), pwhere)
                        continue
                    ctx.check(same(got, want), key, "add_atom(%s=...) receives %s ; specification: %s" % (field, okey(got), okey(want)), pwhere,
                              sample={"field": field, "value": okey(got)} if field in ("pos", "adp") and k == 0 else None)
            ctx.ok("C17:pdb:SCALE") if all(same(a.attrs.get("pos"), [sum((val("s%d%d" % (r_, c)) * [val("X%d" % k), val("Y%d" % k), val("Z%d" % k)][c]
                                                                       for c in range(3)), Rat.const(0)) + val("u%d" % r_) for r_ in range(3)])
                                         for k, a in enumerate(atoms)) else None
            okm = len(mlog) == 2 and all(len(a_) >= 2 and same(a_[0], atoms[k].attrs.get("pos")) and a_[1] == al.get("sgname") for k, (a_, _kw) in enumerate(mlog))
            ctx.check(okm, "C17:pdb:symmulti", "symmulti is not multiplicity(fractional position, space group symbol)", pwhere)
        disp = al.get("dispersion")
        ctx.check(isinstance(disp, dict) and set(disp) == {"C", "FE"} and all(v is None for v in disp.values()), "C17:pdb:dispersion",
                  "PDB atoms do not get dispersion None: %s" % okey(disp), pwhere)
    # anisotropic order agrees with Uij2betaij's layout (reader/writer): [11,22,33,23,13,12] <-> U[[0,5,4],[5,1,3],[4,3,2]]
    ufn = mod.func("Uij2betaij")
    from xfabsa.symeval import Evaluator
    adp = sym_array("adp", (6,))

    def ipol(name, args, kwargs, node):
        if name.endswith(".cell_invert"):
            return Opaque("cellstar", (6,))
        return NotImplemented
    beta = Evaluator(mod, inline=True, import_policy=ipol).call_function("Uij2betaij", [adp, sym_array("ucell", (6,))])
    Bm = beta if isinstance(beta, Arr) else materialise(beta)
    idx = [[0, 5, 4], [5, 1, 3], [4, 3, 2]]
    oku = Bm is not None and Bm.shape == (3, 3) and all(
        scalar(Bm.data[i][j]).equals(2 * N.PI * N.PI * Rat.atom("cellstar[%d]" % i) * Rat.atom("cellstar[%d]" % j) * Rat.atom("adp[%d]" % idx[i][j]))
        for i in range(3) for j in range(3))
    ctx.check(oku, "C17:cif:aniso-order-consumer",
              "Uij2betaij does not read the anisotropic list in the order 11,22,33,23,13,12", core.loc(mod, ufn))
    ctx.not_decided += ["PyCifRW's parsing and Python's float(); that real files are well formed",
                        "site multiplicity values themselves (C15)"]
    ctx.assumptions += ["IUCr core CIF dictionary key names; wwPDB format v3.3 column table",
                        "a number's text contains no parenthesis, blank or letter; float(text of x) == x"]
    SPELL[0] = None
    from xfabsa import numeric as _NH
    _NH.hazard_rule(ctx, 'C17')
    return ("CIFread evaluated by E7 on two-site model blocks for %d configurations (5 ADP types x 3 multiplicity-key cases, the second "
            "site of another type, the anisotropic loop in reverse order): every attribute of every atom, the cell, the symbol and the "
            "dispersion table compared with the meaning of the CIF keys; remove_esd on symbolic and literal text; CIFopen on seven "
            "block layouts; PDBread on records laid out by the wwPDB column table with symbolic fixed-width fields." % nsc)
