"""
C11 -- detector orientation flips are exact bijections, same for pixels and images.

E5: all 81 orientation matrices x 2 directions are enumerated; with concrete
o11..o22 every branch folds, images are elements of the dihedral index-map
domain with symbolic extents, coordinates are affine normal forms.
"""
import ast
import itertools

from xfabsa import core, numeric as N
from xfabsa.core import AnalysisError
from xfabsa.detector_e5 import E5, IndexMap
from xfabsa.poly import Rat, POSITIVE_SCALE_ATOMS
from xfabsa.symeval import Evaluator, RaiseReached, Arr, scalar, materialise, atom_info

EXHAUSTIVE = True
VALID = {(1, 0, 0, 1), (-1, 0, 0, 1), (1, 0, 0, -1), (-1, 0, 0, -1),
         (0, 1, 1, 0), (0, -1, -1, 0), (0, -1, 1, 0), (0, 1, -1, 0)}
FUNCS = ("trans_orientation", "image_flipping", "detyz_to_xy", "xy_to_detyz")


def call(mod, fname, o, *payload):
    """-> ('ok', value) | ('raise', exception name)"""
    ev = E5(mod)
    args = list(payload[:1]) + [Rat.const(x) for x in o] + list(payload[1:])
    try:
        return "ok", ev.call_function(fname, args)
    except RaiseReached as r:
        from xfabsa.symeval import raised_name
        return "raise", raised_name(r)


def pair(v):
    A = v if isinstance(v, Arr) else materialise(v)
    if A is None or A.shape != (2,):
        raise AnalysisError("coordinate result is not a pair")
    return [scalar(x) for x in A.data]


def run(ctx):
    from xfabsa import numeric as _N
    _N.alias_rule(ctx, 'C11', ['xfab/detector.py'])
    ctx.rule("valid", "exactly the eight signed permutation matrices are accepted by all four functions; the other 73 raise ValueError")
    ctx.rule("image-inverse", "forward then inverse is the identity index map (trans_orientation, image_flipping)")
    ctx.rule("pixel-map", "xy_to_detyz(x, y) == index at which trans_orientation(forward) stores raw[x, y] (detz_size = extent x, dety_size = extent y)")
    ctx.rule("coord-inverse", "detyz_to_xy o xy_to_detyz == id == xy_to_detyz o detyz_to_xy as affine maps")
    ctx.rule("eta", "eta/radius pair: writer centre + r(-sin, cos); reader recovers r and eta on both half planes")
    mod = core.module("xfab/detector.py")
    ctx.saw(mod)
    for f in FUNCS:
        ctx.saw(mod, mod.func(f))
    x, y = Rat.atom("x"), Rat.atom("y")
    Ny, Nz = Rat.atom("dety_size"), Rat.atom("detz_size")
    nvalid = 0
    for o in itertools.product((-1, 0, 1), repeat=4):
        tag = "%+d%+d%+d%+d" % o
        want_valid = o in VALID
        results = {}
        for f in FUNCS:
            if f in ("trans_orientation", "image_flipping"):
                for d in ("forward", "inverse"):
                    results[(f, d)] = call(mod, f, o, IndexMap(), d)
            else:
                results[(f, None)] = call(mod, f, o, Arr([x, y]), Ny, Nz)
        accepted = {k for k, v in results.items() if v[0] == "ok"}
        if want_valid:
            nvalid += 1
            ctx.check(len(accepted) == len(results), "C11:valid:%s" % tag,
                      "valid orientation is rejected by %s" % sorted(str(k) for k in results if k not in accepted), mod.rel)
        else:
            bad = [k for k, v in results.items() if v[0] == "ok" or v[1] != "ValueError"]
            ctx.check(not bad, "C11:valid:%s" % tag,
                      "invalid orientation matrix is not rejected with ValueError by %s" % [str(k) for k in bad], mod.rel,
                      sample={"orientation": o, "verdict": "ValueError on every path of all four functions"} if o == (1, 1, 0, 0) else None)
            continue
        if len(accepted) != len(results):
            continue
        # image round trips
        for f in ("trans_orientation", "image_flipping"):
            fwd = results[(f, "forward")][1]
            if not isinstance(fwd, IndexMap):
                raise AnalysisError("%s does not return the image" % f)
            ev = E5(mod)
            back = ev.call_function(f, [fwd] + [Rat.const(v) for v in o] + ["inverse"])
            ctx.check(isinstance(back, IndexMap) and back.state() == (False, False, False), "C11:image-inverse:%s:%s" % (f, tag),
                      "forward then inverse leaves the index map %s, not the identity" % (back,), core.loc(mod, mod.func(f)),
                      sample={"function": f, "orientation": o, "forward_map": fwd.key()} if o == (0, -1, 1, 0) else None)
            # and inverse then forward
            inv = results[(f, "inverse")][1]
            back2 = E5(mod).call_function(f, [inv] + [Rat.const(v) for v in o] + ["forward"])
            ctx.check(isinstance(back2, IndexMap) and back2.state() == (False, False, False), "C11:image-inverse:%s:%s:rev" % (f, tag),
                      "inverse then forward leaves %s" % (back2,), core.loc(mod, mod.func(f)))
        # pixel map agrees with trans_orientation(forward): raw extents (N0, N1) = (detz_size, dety_size)
        fwd = results[("trans_orientation", "forward")][1]
        i, j = fwd.store_index(x, y, Nz, Ny)
        got = pair(results[("xy_to_detyz", None)][1])
        ctx.check(got[0].equals(i) and got[1].equals(j), "C11:pixel-map:%s" % tag,
                  "xy_to_detyz(x, y) = (%s, %s) but trans_orientation stores raw[x, y] at (%s, %s)"
                  % (N.short(got[0]), N.short(got[1]), N.short(i), N.short(j)), core.loc(mod, mod.func("xy_to_detyz")),
                  sample={"orientation": o, "xy_to_detyz": [N.short(got[0]), N.short(got[1])]} if o == (0, -1, -1, 0) else None)
        # coordinate maps are mutual inverses
        back = pair(E5(mod).call_function("detyz_to_xy", [Arr(list(got))] + [Rat.const(v) for v in o] + [Ny, Nz]))
        ctx.check(back[0].equals(x) and back[1].equals(y), "C11:coord-inverse:%s" % tag,
                  "detyz_to_xy(xy_to_detyz(x, y)) = (%s, %s)" % (N.short(back[0]), N.short(back[1])),
                  core.loc(mod, mod.func("detyz_to_xy")))
        dy, dz = Rat.atom("dety"), Rat.atom("detz")
        xy = pair(E5(mod).call_function("detyz_to_xy", [Arr([dy, dz])] + [Rat.const(v) for v in o] + [Ny, Nz]))
        back = pair(E5(mod).call_function("xy_to_detyz", [Arr(xy)] + [Rat.const(v) for v in o] + [Ny, Nz]))
        ctx.check(back[0].equals(dy) and back[1].equals(dz), "C11:coord-inverse:%s:rev" % tag,
                  "xy_to_detyz(detyz_to_xy(dety, detz)) = (%s, %s)" % (N.short(back[0]), N.short(back[1])),
                  core.loc(mod, mod.func("xy_to_detyz")))
    ctx.floor("valid orientations", nvalid, 8)
    # eta / radius
    wfn = mod.func("eta_and_radpix_to_detyz"); rfn = mod.func("detyz_to_eta_and_radpix")
    ctx.saw(mod, wfn); ctx.saw(mod, rfn)
    eta, r, yc, zc = Rat.atom("eta"), Rat.atom("radpix"), Rat.atom("dety_center"), Rat.atom("detz_center")
    w = pair(Evaluator(mod, inline=set()).call_function("eta_and_radpix_to_detyz", [eta, r, yc, zc]))
    s_, c_ = N.ref("sin(e*pi/180)", {"e": eta, "pi": N.PI}), N.ref("cos(e*pi/180)", {"e": eta, "pi": N.PI})
    ctx.check(w[0].equals(yc - r * s_) and w[1].equals(zc + r * c_), "C11:eta:writer",
              "eta_and_radpix_to_detyz is not centre + r*(-sin(eta deg), cos(eta deg))", core.loc(mod, wfn))
    POSITIVE_SCALE_ATOMS.append("radpix")
    try:
        for half, expect_true in (("upper", True), ("lower", False)):
            seen = {}

            def signs(d, node=None, seen=seen, upper=expect_true):
                # radius >= 1 pixel (the sub-pixel fallback is outside the claim)
                if d.equals(r - 1):
                    return 1
                if d.equals(1 - r):
                    return -1
                # the half-plane test: a positive multiple of +-(dety - dety_center) = -+ r sin(eta)
                for sg in (1, -1):
                    if N.pos_multiple(d * sg, -r * s_):
                        seen["test"] = d * sg
                        return sg * (-1 if upper else 1)
                return None
            out = Evaluator(mod, inline=set(), sign_policy=signs).call_function(
                "detyz_to_eta_and_radpix", [Arr(list(w)), yc, zc])
            out = out.data if isinstance(out, Arr) else list(out)
            ang = N.ref("arccos(c)*180/pi", {"c": c_, "pi": N.PI})
            want = ang if expect_true else 360 - ang
            okr = len(out) == 2 and scalar(out[1]).equals(r) and scalar(out[0]).equals(want)
            okt = seen.get("test") is not None
            ctx.check(okr and okt, "C11:eta:reader-%s" % half,
                      "reader on the %s half plane: radius %s, angle %s, branch test %s" %
                      (half, N.short(scalar(out[1])) if len(out) == 2 else "?", N.short(scalar(out[0])) if out else "?",
                       N.short(seen["test"]) if seen.get("test") is not None else "none on dety - dety_center"),
                      core.loc(mod, rfn), sample={"half": half, "eta": N.short(scalar(out[0]))})
    finally:
        POSITIVE_SCALE_ATOMS.remove("radpix")
    ctx.not_decided += ["arccos(cos t) = t on [0, pi] and 2 pi - arccos(cos t) = t on [pi, 2 pi] (trusted identities of the inverse pair)"]
    ctx.assumptions += ["numpy transpose/fliplr/flipud generate the dihedral index maps; clip(v, lo, 0) on +-(size-1) with extents >= 1",
                        "raw images are indexed img[x, y]; detz_size = extent along x, dety_size = extent along y (the property's convention)"]
    from xfabsa import numeric as _NH
    _NH.hazard_rule(ctx, 'C11')
    return ("All 81 orientation matrices x both directions enumerated with concrete parameters (every branch folds): validity and "
            "ValueError on the other 73, forward/inverse round trips as index maps with symbolic extents (any shape), agreement of "
            "the pixel map with the image map, mutual inversion of the coordinate maps as affine normal forms (any real "
            "coordinate, any shape), and the eta/radius pair on both half planes.")
