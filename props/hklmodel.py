"""
Static model of the reflection generator shared by C05 and C06:

 * slot model of sysabs_unique (E0): the ordered list of reflection-condition
   rules, each (slot index, class guard as linear equalities, linear form(s))
 * permutation schedules of sysabs
 * cone tables of genhkl_base and their algebra (membership, fundamental domain,
   non-obtuseness over the conforming reciprocal metrics)
 * extinction from the tabulated operators
"""
import ast
from fractions import Fraction

from xfabsa import core, tables, groupalg as ga
from xfabsa.core import AnalysisError


# ---------------------------------------------------------------------------
# linear forms in h, k, l
# ---------------------------------------------------------------------------

def linform(node, names):
    """AST -> (ch, ck, cl) integer coefficients; names maps identifiers to unit vectors or forms"""
    if isinstance(node, ast.Name):
        if node.id in names:
            return names[node.id]
        raise AnalysisError("linear form mentions `%s`" % node.id)
    if isinstance(node, ast.Subscript) and isinstance(node.value, ast.Name) and node.value.id in names \
            and isinstance(node.slice, ast.Constant):
        base = names[node.value.id]
        return base[node.slice.value]
    if isinstance(node, ast.Constant) and isinstance(node.value, int):
        if node.value == 0:
            return (0, 0, 0)
        raise AnalysisError("constant %r in a linear form" % node.value)
    if isinstance(node, ast.UnaryOp) and isinstance(node.op, ast.USub):
        a = linform(node.operand, names)
        return tuple(-x for x in a)
    if isinstance(node, ast.BinOp) and isinstance(node.op, (ast.Add, ast.Sub)):
        a, b = linform(node.left, names), linform(node.right, names)
        s = 1 if isinstance(node.op, ast.Add) else -1
        return tuple(x + s * y for x, y in zip(a, b))
    if isinstance(node, ast.BinOp) and isinstance(node.op, ast.Mult):
        for c, o in ((node.left, node.right), (node.right, node.left)):
            if isinstance(c, ast.Constant) and isinstance(c.value, int):
                return tuple(c.value * x for x in linform(o, names))
    raise AnalysisError("not a linear form: `%s`" % core.unparse(node)[:60])


HKL = {"h": (1, 0, 0), "k": (0, 1, 0), "l": (0, 0, 1)}


def strip_abs(node):
    if isinstance(node, ast.Call) and isinstance(node.func, ast.Name) and node.func.id == "abs" and len(node.args) == 1:
        return node.args[0], True
    return node, False


def guard_equalities(test):
    """class guard -> list of linear forms that must vanish.  Accepted: `<lin> == 0`,
    `abs(a)+abs(b) == 0` (both vanish)."""
    if not (isinstance(test, ast.Compare) and len(test.ops) == 1 and isinstance(test.ops[0], ast.Eq)
            and isinstance(test.comparators[0], ast.Constant) and test.comparators[0].value == 0):
        return None
    left = test.left
    if isinstance(left, ast.BinOp) and isinstance(left.op, ast.Add):
        a, aa = strip_abs(left.left)
        b, bb = strip_abs(left.right)
        if aa and bb:
            return [linform(a, HKL), linform(b, HKL)]
    inner, _ = strip_abs(left)
    return [linform(inner, HKL)]


def is_syscond_test(test):
    """`syscond[i] != 0` -> i"""
    if (isinstance(test, ast.Compare) and len(test.ops) == 1 and isinstance(test.ops[0], ast.NotEq)
            and isinstance(test.left, ast.Subscript) and isinstance(test.left.value, ast.Name)
            and test.left.value.id == "syscond" and isinstance(test.left.slice, ast.Constant)
            and isinstance(test.comparators[0], ast.Constant) and test.comparators[0].value == 0):
        return test.left.slice.value
    return None


def mod_test(test, expect_ne=True):
    """`(abs(<lin>)) % condition != 0` (or == 0) -> lin"""
    if not (isinstance(test, ast.Compare) and len(test.ops) == 1
            and isinstance(test.ops[0], ast.NotEq if expect_ne else ast.Eq)
            and isinstance(test.comparators[0], ast.Constant) and test.comparators[0].value == 0):
        return None
    l = test.left
    if not (isinstance(l, ast.BinOp) and isinstance(l.op, ast.Mod) and isinstance(l.right, ast.Name) and l.right.id == "condition"):
        return None
    inner, _ = strip_abs(l.left)
    return linform(inner, HKL)


def extract_slot_model(rel):
    """-> ordered list of ops:
         ('flag', slot, [guard forms], form)          absent-flag when form % syscond[slot] != 0
         ('all3', slot, [guard forms], [f1, f2, f3])  type := 0 if all divisible else nonzero (overrides earlier flags)
    """
    mod = core.module(rel)
    fn = mod.func("sysabs_unique")
    body = core.body_wo_doc(fn)
    ops = []
    seen_init = False

    def slot_if(st, guards):
        i = is_syscond_test(st.test)
        if i is None or st.orelse:
            raise AnalysisError("%s sysabs_unique: statement `%s` is not a slot rule" % (rel, core.unparse(st.test)))
        b = st.body
        # ordinary slot
        if len(b) == 2 and isinstance(b[0], ast.Assign) and core.unparse(b[0]).replace(" ", "") == "condition=syscond[%d]" % i \
                and isinstance(b[1], ast.If) and not b[1].orelse:
            f = mod_test(b[1].test, True)
            inner = b[1].body
            if f is not None and len(inner) == 1 and isinstance(inner[0], ast.Assign) \
                    and core.unparse(inner[0].targets[0]) == "sysabs_type" and isinstance(inner[0].value, ast.Constant) \
                    and inner[0].value.value != 0:
                ops.append(("flag", i, list(guards), f))
                return
        # the all-three slot
        if len(b) == 3 and isinstance(b[0], ast.Assign) and core.unparse(b[0].targets[0]) == "sysabs_type" \
                and isinstance(b[0].value, ast.Constant) and b[0].value.value != 0 \
                and core.unparse(b[1]).replace(" ", "") == "condition=syscond[%d]" % i and isinstance(b[2], ast.If):
            forms = []
            node = b[2]
            while True:
                f = mod_test(node.test, False)
                if f is None or node.orelse:
                    raise AnalysisError("%s sysabs_unique: slot %d has an unrecognised shape" % (rel, i))
                forms.append(f)
                if len(node.body) == 1 and isinstance(node.body[0], ast.If):
                    node = node.body[0]
                    continue
                if len(node.body) == 1 and isinstance(node.body[0], ast.Assign) and isinstance(node.body[0].value, ast.Constant) \
                        and node.body[0].value.value == 0:
                    break
                raise AnalysisError("%s sysabs_unique: slot %d has an unrecognised shape" % (rel, i))
            ops.append(("all3", i, list(guards), forms))
            return
        raise AnalysisError("%s sysabs_unique: slot %d has an unrecognised shape" % (rel, i))

    def walk(stmts, guards):
        for st in stmts:
            if isinstance(st, ast.If):
                if is_syscond_test(st.test) is not None:
                    slot_if(st, guards)
                    continue
                g = guard_equalities(st.test)
                if g is None or st.orelse:
                    raise AnalysisError("%s sysabs_unique: `%s` is neither a class guard nor a slot test"
                                        % (rel, core.unparse(st.test)))
                walk(st.body, guards + g)
                continue
            raise AnalysisError("%s sysabs_unique: unexpected statement `%s` inside the rule list" % (rel, core.unparse(st)[:50]))
    i0 = 0
    for idx, st in enumerate(body):
        txt = core.unparse(st).replace(" ", "")
        if txt in ("(h,k,l)=hkl", "h,k,l=hkl"):
            i0 = idx + 1
        elif txt == "sysabs_type=0":
            seen_init = True
            i0 = idx + 1
    rules = body[i0:]
    if not seen_init or not rules or not isinstance(rules[-1], ast.Return) \
            or core.unparse(rules[-1].value) != "sysabs_type":
        raise AnalysisError("%s sysabs_unique: prologue/epilogue not recognised" % rel)
    walk(rules[:-1], [])
    return ops


def dotf(f, h):
    return f[0] * h[0] + f[1] * h[1] + f[2] * h[2]


def model_unique(ops, syscond, h):
    """the slot model interpreted on one hkl: True = absent"""
    t = False
    for op in ops:
        kind, slot, guards, form = op
        if slot >= len(syscond):
            raise AnalysisError("syscond has only %d slots, rule needs slot %d" % (len(syscond), slot))
        c = syscond[slot]
        if c == 0:
            continue
        if any(dotf(g, h) != 0 for g in guards):
            continue
        if kind == "flag":
            if abs(dotf(form, h)) % c != 0:
                t = True
        else:
            t = not all(abs(dotf(f, h)) % c == 0 for f in form)
    return t


def extract_schedules(rel):
    """sysabs: -> ordered dispatch arms [(dump of test, test ast, [perm...])], each perm a 3-tuple of linear forms in hkl"""
    mod = core.module(rel)
    fn = mod.func("sysabs")
    body = core.body_wo_doc(fn)
    p_hkl, p_sys = fn.args.args[0].arg, fn.args.args[1].arg
    names = {p_hkl: [(1, 0, 0), (0, 1, 0), (0, 0, 1)]}

    def is_unique_call(node, arg_is_hkl):
        if not (isinstance(node, ast.Call) and getattr(node.func, "id", "") == "sysabs_unique" and len(node.args) == 2
                and isinstance(node.args[1], ast.Name) and node.args[1].id == p_sys):
            return False
        a = node.args[0]
        if arg_is_hkl:
            return isinstance(a, ast.Name) and a.id == p_hkl
        return isinstance(a, ast.List) and [getattr(e, "id", None) for e in a.elts] == ["h", "k", "l"]

    if not (isinstance(body[0], ast.Assign) and is_unique_call(body[0].value, True)):
        raise AnalysisError("%s sysabs: does not start with sys_type = sysabs_unique(hkl, syscond)" % rel)
    res = body[0].targets[0].id

    def chain(stmts):
        """if res == 0: h=..;k=..;l=..; res = sysabs_unique([h,k,l], syscond); [nested]"""
        perms = []
        cur = stmts
        while cur:
            if len(cur) != 1 or not isinstance(cur[0], ast.If) or cur[0].orelse:
                raise AnalysisError("%s sysabs: schedule has an unrecognised shape" % rel)
            t = cur[0].test
            if core.unparse(t).replace(" ", "") != "%s==0" % res:
                raise AnalysisError("%s sysabs: schedule step is not guarded by `%s == 0`" % (rel, res))
            b = cur[0].body
            loc = {}
            k = 0
            while k < len(b) and isinstance(b[k], ast.Assign) and isinstance(b[k].targets[0], ast.Name) and b[k].targets[0].id in "hkl":
                loc[b[k].targets[0].id] = linform(b[k].value, names)
                k += 1
            if sorted(loc) != ["h", "k", "l"] or k >= len(b) or not (isinstance(b[k], ast.Assign) and b[k].targets[0].id == res
                                                                  and is_unique_call(b[k].value, False)):
                raise AnalysisError("%s sysabs: schedule step does not set h, k, l and call sysabs_unique([h,k,l], syscond)" % rel)
            perms.append((loc["h"], loc["k"], loc["l"]))
            cur = b[k + 1:]
        return perms
    if len(body) != 3 or not isinstance(body[1], ast.If) or not isinstance(body[2], ast.Return) \
            or core.unparse(body[2].value) != res:
        raise AnalysisError("%s sysabs: expected dispatch statement and `return %s`" % (rel, res))
    arms = []
    node = body[1]
    while True:
        check_dispatch_test(node.test, rel)
        arms.append((ast.dump(node.test), node.test, chain(node.body)))
        if len(node.orelse) == 1 and isinstance(node.orelse[0], ast.If):
            node = node.orelse[0]
            continue
        if node.orelse:
            raise AnalysisError("%s sysabs: dispatch has a final else arm" % rel)
        break
    return arms


def check_dispatch_test(t, rel):
    """dispatch tests are boolean combinations of `cell_choice|crystal_system ==|!= '<literal>'`"""
    if isinstance(t, ast.BoolOp):
        for v in t.values:
            check_dispatch_test(v, rel)
        return
    if isinstance(t, ast.Compare) and len(t.ops) == 1 and isinstance(t.ops[0], (ast.Eq, ast.NotEq)) \
            and isinstance(t.left, ast.Name) and t.left.id in ("cell_choice", "crystal_system") \
            and isinstance(t.comparators[0], ast.Constant) and isinstance(t.comparators[0].value, str):
        return
    raise AnalysisError("%s sysabs: dispatch test `%s` is not a comparison of cell_choice/crystal_system with a literal"
                        % (rel, core.unparse(t)))


def eval_dispatch(t, crystal_system, cell_choice):
    if isinstance(t, ast.BoolOp):
        vals = [eval_dispatch(v, crystal_system, cell_choice) for v in t.values]
        return all(vals) if isinstance(t.op, ast.And) else any(vals)
    v = {"cell_choice": cell_choice, "crystal_system": crystal_system}[t.left.id]
    r = v == t.comparators[0].value
    return r if isinstance(t.ops[0], ast.Eq) else not r


def schedule_for(arms, crystal_system, cell_choice):
    for _d, t, perms in arms:
        if eval_dispatch(t, crystal_system, cell_choice):
            return perms
    return []


def model_absent(ops, schedules, syscond, crystal_system, cell_choice, h):
    if model_unique(ops, syscond, h):
        return True
    for p in schedule_for(schedules, crystal_system, cell_choice):
        hp = tuple(dotf(f, h) for f in p)
        if model_unique(ops, syscond, hp):
            return True
    return False


# ---------------------------------------------------------------------------
# group side
# ---------------------------------------------------------------------------

def int_ops(setting):
    """[(R tuple, t in 24ths)] of a setting"""
    out = []
    for R, t in zip(setting.rot, setting.trans):
        Rt = ga.tup(R)
        tt = []
        for x in t:
            f = tables.frac_of(x)
            if f is None:
                raise AnalysisError("translation %r of %s is not k/24" % (x, setting.key))
            tt.append(int(f * 24) % 24)
        out.append((Rt, tuple(tt)))
    return out


def group_extinct(ops, h):
    """exists (R,t): hR = h and h.t not an integer"""
    for R, t in ops:
        if ga.vmat(h, R) == tuple(h) and (h[0] * t[0] + h[1] * t[1] + h[2] * t[2]) % 24 != 0:
            return True
    return False


# ---------------------------------------------------------------------------
# cones
# ---------------------------------------------------------------------------

class Cone:
    def __init__(self, rows):
        self.apex = tuple(rows[0])
        self.gens = [tuple(r) for r in rows[1:4]]
        G = tuple(self.gens)                      # rows g1,g2,g3
        self.det = ga.det(G)
        self.Ginv = ga.inverse(G) if self.det != 0 else None

    def coords(self, h):
        """(a,b,c) with h = apex + a g1 + b g2 + c g3 (Fractions)"""
        d = tuple(x - y for x, y in zip(h, self.apex))
        return ga.vmat(d, self.Ginv)

    def contains(self, h):
        c = self.coords(h)
        return all(x.denominator == 1 and x >= 0 for x in c)

    def points(self, N):
        """lattice points of the cone inside the box |h|,|k|,|l| <= N"""
        out = []
        rng = range(0, 6 * N + 4)
        g1, g2, g3 = self.gens
        for c in rng:
            p3 = tuple(self.apex[i] + c * g3[i] for i in range(3))
            any_b = False
            for b in rng:
                p2 = tuple(p3[i] + b * g2[i] for i in range(3))
                any_a = False
                for a in rng:
                    p = tuple(p2[i] + a * g1[i] for i in range(3))
                    if max(abs(x) for x in p) <= N:
                        out.append(p)
                        any_a = True
                    elif a > 2 * N + 2:
                        break
                any_b = any_b or any_a
                if not any_a and b > 2 * N + 2:
                    break
            if not any_b and c > 2 * N + 2:
                break
        return out


def cones_for(tables_, Laue, cell_choice):
    hits = tables.select_segm(tables_, Laue, cell_choice)
    return hits


# non-obtuseness of a pair (u, v) over all conforming reciprocal metrics -------------

def nonobtuse(u, v, family):
    """True iff g*(u, v) >= 0 for every reciprocal metric of the family"""
    x = [u[i] * v[i] for i in range(3)]
    if family == "cubic":
        return sum(x) >= 0
    if family == "tetragonal":
        return x[0] + x[1] >= 0 and x[2] >= 0
    if family == "orthorhombic":
        return all(t >= 0 for t in x)
    if family == "hexagonal":         # hexagonal axes, gamma* = 60
        inplane = Fraction(x[0] + x[1]) + Fraction(u[0] * v[1] + u[1] * v[0], 2)
        return inplane >= 0 and x[2] >= 0
    if family == "rhombohedral":      # G* ~ (1-c) I + c J, c = cos(alpha*) in (-1/2, 1)
        su, sv = sum(u), sum(v)
        d = sum(x)
        at = lambda c: d * (1 - c) + c * su * sv
        return at(Fraction(-1, 2)) >= 0 and at(Fraction(1)) >= 0
    if family == "monoclinic":        # unique b; sign of a*.c* free
        w = u[0] * v[2] + u[2] * v[0]
        return x[1] >= 0 and x[0] >= 0 and x[2] >= 0 and w * w <= 4 * x[0] * x[2]
    if family == "triclinic":         # every positive-definite metric: parallel, same sense (or a zero vector)
        if not any(u) or not any(v):
            return True
        cr = (u[1] * v[2] - u[2] * v[1], u[2] * v[0] - u[0] * v[2], u[0] * v[1] - u[1] * v[0])
        return not any(cr) and sum(x) > 0
    raise AnalysisError("unknown metric family %s" % family)


def metric_family(crystal_system, cell_choice):
    if cell_choice == "rhombohedral":
        return "rhombohedral"
    return {"triclinic": "triclinic", "monoclinic": "monoclinic", "orthorhombic": "orthorhombic",
            "tetragonal": "tetragonal", "trigonal": "hexagonal", "hexagonal": "hexagonal", "cubic": "cubic"}[crystal_system]
