"""
Static model of the reflection generator shared by C05 and C06:

 * slot model of sysabs_unique (E0): the ordered list of reflection-condition
   rules, each (slot index, class guard as linear equalities, linear form(s))
 * permutation schedules of sysabs
 * cone tables of genhkl_base and their algebra (membership, fundamental domain,
   non-obtuseness over the conforming reciprocal metrics)
 * extinction from the tabulated operators
"""
import ast
from fractions import Fraction

from xfabsa import core, tables, groupalg as ga
from xfabsa.core import AnalysisError


# ---------------------------------------------------------------------------
# linear forms in h, k, l
# ---------------------------------------------------------------------------

def linform(node, names):
    """AST -> (ch, ck, cl) integer coefficients; names maps identifiers to unit vectors or forms"""
    if isinstance(node, ast.Name):
        if node.id in names:
            return names[node.id]
        raise AnalysisError("linear form mentions `%s`" % node.id)
    if isinstance(node, ast.Subscript) and isinstance(node.value, ast.Name) and node.value.id in names \
            and isinstance(node.slice, ast.Constant):
        base = names[node.value.id]
        return base[node.slice.value]
    if isinstance(node, ast.Constant) and isinstance(node.value, int):
        if node.value == 0:
            return (0, 0, 0)
        raise AnalysisError("constant %r in a linear form" % node.value)
    if isinstance(node, ast.UnaryOp) and isinstance(node.op, ast.USub):
        a = linform(node.operand, names)
        return tuple(-x for x in a)
    if isinstance(node, ast.BinOp) and isinstance(node.op, (ast.Add, ast.Sub)):
        a, b = linform(node.left, names), linform(node.right, names)
        s = 1 if isinstance(node.op, ast.Add) else -1
        return tuple(x + s * y for x, y in zip(a, b))
    if isinstance(node, ast.BinOp) and isinstance(node.op, ast.Mult):
        for c, o in ((node.left, node.right), (node.right, node.left)):
            if isinstance(c, ast.Constant) and isinstance(c.value, int):
                return tuple(c.value * x for x in linform(o, names))
    raise AnalysisError("not a linear form: `%s`" % core.unparse(node)[:60])


HKL = {"h": (1, 0, 0), "k": (0, 1, 0), "l": (0, 0, 1)}


def strip_abs(node):
    if isinstance(node, ast.Call) and isinstance(node.func, ast.Name) and node.func.id == "abs" and len(node.args) == 1:
        return node.args[0], True
    return node, False


def guard_equalities(test):
    """class guard -> list of linear forms that must vanish.  Accepted: `<lin> == 0`,
    `abs(a)+abs(b) == 0` (both vanish)."""
    if not (isinstance(test, ast.Compare) and len(test.ops) == 1 and isinstance(test.ops[0], ast.Eq)
            and isinstance(test.comparators[0], ast.Constant) and test.comparators[0].value == 0):
        return None
    left = test.left
    if isinstance(left, ast.BinOp) and isinstance(left.op, ast.Add):
        a, aa = strip_abs(left.left)
        b, bb = strip_abs(left.right)
        if aa and bb:
            return [linform(a, HKL), linform(b, HKL)]
    inner, _ = strip_abs(left)
    return [linform(inner, HKL)]


def is_syscond_test(test):
    """`syscond[i] != 0` -> i"""
    if (isinstance(test, ast.Compare) and len(test.ops) == 1 and isinstance(test.ops[0], ast.NotEq)
            and isinstance(test.left, ast.Subscript) and isinstance(test.left.value, ast.Name)
            and test.left.value.id == "syscond" and isinstance(test.left.slice, ast.Constant)
            and isinstance(test.comparators[0], ast.Constant) and test.comparators[0].value == 0):
        return test.left.slice.value
    return None


def mod_test(test, expect_ne=True):
    """`(abs(<lin>)) % condition != 0` (or == 0) -> lin"""
    if not (isinstance(test, ast.Compare) and len(test.ops) == 1
            and isinstance(test.ops[0], ast.NotEq if expect_ne else ast.Eq)
            and isinstance(test.comparators[0], ast.Constant) and test.comparators[0].value == 0):
        return None
    l = test.left
    if not (isinstance(l, ast.BinOp) and isinstance(l.op, ast.Mod) and isinstance(l.right, ast.Name) and l.right.id == "condition"):
        return None
    inner, _ = strip_abs(l.left)
    return linform(inner, HKL)


class AbsenceModel:
    """the decision of sysabs(hkl, syscond, crystal_system, cell_choice) for static (syscond, crystal_system, cell_choice),
    as a residual expression in h, k, l obtained by partial evaluation of the source (E8, xfabsa/intflow.py): whatever the
    helper functions, loops over permutations, flags and early exits look like"""

    def __init__(self, rel):
        self.rel = rel
        self.mod = core.module(rel)
        self.mod.func("sysabs")
        self.mod.func("sysabs_unique")
        self._src = {}

    def residual(self, syscond, crystal_system, cell_choice):
        key = (tuple(syscond), crystal_system, cell_choice)
        if key not in self._src:
            from xfabsa.intflow import Specialiser, Dyn, closed_src as src
            hkl = [Dyn("h"), Dyn("k"), Dyn("l")]
            fn = self.mod.func("sysabs")
            params = [a.arg for a in fn.args.args]
            args = [hkl, list(syscond)]
            kw = {}
            if "crystal_system" in params:
                kw["crystal_system"] = crystal_system
            if "cell_choice" in params:
                kw["cell_choice"] = cell_choice
            sp = Specialiser(self.mod)
            self._src[key] = src(sp.call_def(fn, args, kw, {}))
            self._total = getattr(self, "_total", 0) + len(self._src[key])
            if self._total > 60000000:
                raise AnalysisError("%s: the residual reflection-condition expressions grow too large (no common structure left to merge)" % self.rel)
        return self._src[key]

    def residual_unique(self, syscond):
        key = ("unique", tuple(syscond))
        if key not in self._src:
            from xfabsa.intflow import Specialiser, Dyn, closed_src as src
            sp = Specialiser(self.mod)
            self._src[key] = src(sp.specialise("sysabs_unique", [[Dyn("h"), Dyn("k"), Dyn("l")], list(syscond)]))
        return self._src[key]

    def slots_read(self, nslots=26):
        """condition slots whose value the decision depends on (for some crystal system)"""
        out = set()
        for i in range(nslots):
            v = [0] * nslots
            v[i] = 2
            for cs in ("triclinic", "cubic", "trigonal"):
                for cc in ("standard", "rhombohedral"):
                    if self.residual(v, cs, cc) != self.residual([0] * nslots, cs, cc):
                        out.add(i)
        return out


_COMPILED = {}


def absent_fn(residual_src):
    """compiled residual (cached per process): h -> True when the reflection is declared absent"""
    f = _COMPILED.get(residual_src)
    if f is None:
        from xfabsa.intflow import residual_function
        g = residual_function(residual_src)
        f = _COMPILED[residual_src] = (lambda h, g=g: bool(g(h[0], h[1], h[2])))
    return f


def dotf(f, h):
    return f[0] * h[0] + f[1] * h[1] + f[2] * h[2]


# ---------------------------------------------------------------------------
# group side
# ---------------------------------------------------------------------------

def int_ops(setting):
    """[(R tuple, t in 24ths)] of a setting"""
    out = []
    for R, t in zip(setting.rot, setting.trans):
        Rt = ga.tup(R)
        tt = []
        for x in t:
            f = tables.frac_of(x)
            if f is None:
                raise AnalysisError("translation %r of %s is not k/24" % (x, setting.key))
            tt.append(int(f * 24) % 24)
        out.append((Rt, tuple(tt)))
    return out


def group_extinct(ops, h):
    """exists (R,t): hR = h and h.t not an integer"""
    for R, t in ops:
        if ga.vmat(h, R) == tuple(h) and (h[0] * t[0] + h[1] * t[1] + h[2] * t[2]) % 24 != 0:
            return True
    return False


# ---------------------------------------------------------------------------
# cones
# ---------------------------------------------------------------------------

class Cone:
    def __init__(self, rows):
        self.apex = tuple(rows[0])
        self.gens = [tuple(r) for r in rows[1:4]]
        G = tuple(self.gens)                      # rows g1,g2,g3
        self.det = ga.det(G)
        self.Ginv = ga.inverse(G) if self.det != 0 else None

    def coords(self, h):
        """(a,b,c) with h = apex + a g1 + b g2 + c g3 (Fractions)"""
        d = tuple(x - y for x, y in zip(h, self.apex))
        return ga.vmat(d, self.Ginv)

    def contains(self, h):
        c = self.coords(h)
        return all(x.denominator == 1 and x >= 0 for x in c)

    def points(self, N):
        """lattice points of the cone inside the box |h|,|k|,|l| <= N"""
        out = []
        rng = range(0, 6 * N + 4)
        g1, g2, g3 = self.gens
        for c in rng:
            p3 = tuple(self.apex[i] + c * g3[i] for i in range(3))
            any_b = False
            for b in rng:
                p2 = tuple(p3[i] + b * g2[i] for i in range(3))
                any_a = False
                for a in rng:
                    p = tuple(p2[i] + a * g1[i] for i in range(3))
                    if max(abs(x) for x in p) <= N:
                        out.append(p)
                        any_a = True
                    elif a > 2 * N + 2:
                        break
                any_b = any_b or any_a
                if not any_a and b > 2 * N + 2:
                    break
            if not any_b and c > 2 * N + 2:
                break
        return out


def cones_for(tables_, Laue, cell_choice):
    hits = tables.select_segm(tables_, Laue, cell_choice)
    return hits


# non-obtuseness of a pair (u, v) over all conforming reciprocal metrics -------------

def nonobtuse(u, v, family):
    """True iff g*(u, v) >= 0 for every reciprocal metric of the family"""
    x = [u[i] * v[i] for i in range(3)]
    if family == "cubic":
        return sum(x) >= 0
    if family == "tetragonal":
        return x[0] + x[1] >= 0 and x[2] >= 0
    if family == "orthorhombic":
        return all(t >= 0 for t in x)
    if family == "hexagonal":         # hexagonal axes, gamma* = 60
        inplane = Fraction(x[0] + x[1]) + Fraction(u[0] * v[1] + u[1] * v[0], 2)
        return inplane >= 0 and x[2] >= 0
    if family == "rhombohedral":      # G* ~ (1-c) I + c J, c = cos(alpha*) in (-1/2, 1)
        su, sv = sum(u), sum(v)
        d = sum(x)
        at = lambda c: d * (1 - c) + c * su * sv
        return at(Fraction(-1, 2)) >= 0 and at(Fraction(1)) >= 0
    if family == "monoclinic":        # unique b; sign of a*.c* free
        w = u[0] * v[2] + u[2] * v[0]
        return x[1] >= 0 and x[0] >= 0 and x[2] >= 0 and w * w <= 4 * x[0] * x[2]
    if family == "triclinic":         # every positive-definite metric: parallel, same sense (or a zero vector)
        if not any(u) or not any(v):
            return True
        cr = (u[1] * v[2] - u[2] * v[1], u[2] * v[0] - u[0] * v[2], u[0] * v[1] - u[1] * v[0])
        return not any(cr) and sum(x) > 0
    raise AnalysisError("unknown metric family %s" % family)


def metric_family(crystal_system, cell_choice):
    if cell_choice == "rhombohedral":
        return "rhombohedral"
    return {"triclinic": "triclinic", "monoclinic": "monoclinic", "orthorhombic": "orthorhombic",
            "tetragonal": "tetragonal", "trigonal": "hexagonal", "hexagonal": "hexagonal", "cubic": "cubic"}[crystal_system]
