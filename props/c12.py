"""
C12 -- lattice symmetry operators form the right groups; misorientation respects them.

permutations(s), rotations(s), the ROTATIONS cache and Umis are all evaluated by
E3 (constants fold exactly in Q(sqrt 3)); E6 checks the group axioms on the
integer tables; proper-rotation and pairing identities are exact matrix
identities on the evaluated operators.
"""
import ast
from fractions import Fraction

from xfabsa import core, tables, groupalg as ga, numeric as N
from xfabsa.core import AnalysisError
from xfabsa.poly import Rat
from xfabsa.symeval import Evaluator, sym_array, Arr, Opaque, scalar, materialise, RaiseReached

EXHAUSTIVE = True
ORDERS = {1: 1, 2: 2, 3: 4, 4: 8, 5: 6, 6: 12, 7: 24}
NAMES = {1: "triclinic", 2: "monoclinic", 3: "orthorhombic", 4: "tetragonal", 5: "trigonal", 6: "hexagonal", 7: "cubic"}
# non-zero pattern of the upper-triangular B of a conforming cell, as a basis (C01's B shape)
def E(i, j):
    return tuple(tuple(Fraction(1 if (r, c) == (i, j) else 0) for c in range(3)) for r in range(3))
def add(*ms):
    return tuple(tuple(sum(m[r][c] for m in ms) for c in range(3)) for r in range(3))
B_BASIS = {
    1: [E(0, 0), E(0, 1), E(0, 2), E(1, 1), E(1, 2), E(2, 2)],
    2: [E(0, 0), E(0, 2), E(1, 1), E(2, 2)],          # unique axis b: alpha* = gamma* = 90
    3: [E(0, 0), E(1, 1), E(2, 2)],
    4: [add(E(0, 0), E(1, 1)), E(2, 2)],
    7: [add(E(0, 0), E(1, 1), E(2, 2))],
}
# reciprocal metric of the hexagonal cell [1,1,1,90,90,120] (any hexagonal cell: diag(s,s,t) scaling)
GSTAR_HEX = ((Fraction(4, 3), Fraction(2, 3), 0), (Fraction(2, 3), Fraction(4, 3), 0), (0, 0, 1))


def exc_name(r):
    from xfabsa.symeval import raised_name
    return raised_name(r)


def table_of(mod, fname, s_, tmods):
    """E3 evaluation of permutations(s) / rotations(s) on the constant s -> ('ok', nested list of Rat) | ('raise', name).
    tools.* / laue.* callees are evaluated in their own module (cell constants fold: cos/sin of multiples of 15 degrees and the
    inverse of a constant 3x3 matrix are exact in Q(sqrt 2, sqrt 3, pi))."""
    def ipol(name, args, kwargs, node):
        for pre, m_ in tmods.items():
            if name.startswith(pre + "."):
                return Evaluator(m_, inline=True, branch_policy=N.skip_checks_policy).call_function(name[len(pre) + 1:], args, kwargs)
        return NotImplemented
    ev = Evaluator(mod, inline=True, import_policy=ipol, branch_policy=N.skip_checks_policy)
    try:
        out = ev.call_function(fname, [Rat.const(s_)])
    except RaiseReached as r:
        return "raise", exc_name(r)
    A = out if isinstance(out, Arr) else materialise(out)
    if A is None or len(A.shape) != 3 or A.shape[1:] != (3, 3):
        raise AnalysisError("%s(%d) does not evaluate to an explicit (n,3,3) array" % (fname, s_))
    return "ok", [[[scalar(x) for x in row] for row in mat] for mat in A.data]


def rmul(a, b):
    return [[sum((a[i][k] * b[k][j] for k in range(3)), Rat.const(0)) for j in range(3)] for i in range(3)]


def rT(a):
    return [[a[j][i] for j in range(3)] for i in range(3)]


def req(a, b):
    return all(a[i][j].equals(b[i][j]) for i in range(3) for j in range(3))


def rdet(m):
    return (m[0][0] * (m[1][1] * m[2][2] - m[1][2] * m[2][1]) - m[0][1] * (m[1][0] * m[2][2] - m[1][2] * m[2][0])
            + m[0][2] * (m[1][0] * m[2][1] - m[1][1] * m[2][0]))


def rmat(t):
    return [[Rat.const(x) for x in row] for row in t]


RI3 = rmat(((1, 0, 0), (0, 1, 0), (0, 0, 1)))


def run(ctx):
    from xfabsa import numeric as _N
    _N.alias_rule(ctx, 'C12', ['xfab/symmetry.py'])
    ctx.rule("perm", "permutations(s) evaluated by E3: integer, det +-1, order, no duplicates, closed, identity; ValueError outside 1..7")
    ctx.rule("rot", "rotations(s) evaluated by E3 (exact in Q(sqrt 3)): one proper rotation per permutation; ValueError outside 1..7")
    ctx.rule("pair", "rot[i] B perm[i] = B on a basis of the conforming B matrices (exact)")
    ctx.rule("cache", "ROTATIONS evaluated by E3 == [None] + [rotations(i) for i in 1..7]; Umis indexes it by crystal_system")
    ctx.rule("umis", "Umis by E3: column 0 = 0..n-1, column 1 = arccos(clip((tr(U1' U2 rot_k') - 1)/2, -1, 1))*180/pi")
    mod = core.module("xfab/symmetry.py")
    ctx.saw(mod)
    tmods = {}
    for local, origin in mod.imports.items():
        if origin in ("xfab.tools", "xfab.laue"):
            tmods[origin] = core.module("xfab/%s.py" % origin.split(".")[1])
    pfn = mod.func("permutations"); ctx.saw(mod, pfn)
    rfn = mod.func("rotations"); ctx.saw(mod, rfn)
    # range guards
    for fname, fn_, key in (("permutations", pfn, "C12:perm:range-guard"), ("rotations", rfn, "C12:rot:range-guard")):
        outside = [table_of(mod, fname, v, tmods) for v in (0, 8, -1, 9)]
        ctx.check(all(o == ("raise", "ValueError") for o in outside), key,
                  "%s() does not raise ValueError for crystal_system outside 1..7 (0, 8, -1, 9 give %s)"
                  % (fname, [o[0] if o[0] == "ok" else o for o in outside]), core.loc(mod, fn_))
    groups = {}
    nperm = 0
    for s in range(1, 8):
        where = core.loc(mod, pfn)
        kind, tab = table_of(mod, "permutations", s, tmods)
        if kind != "ok":
            ctx.fail("C12:perm:%d:present" % s, "permutations(%d) raises %s" % (s, tab), where)
            continue
        nperm += 1
        ok = len(tab) == ORDERS[s]
        ctx.check(ok, "C12:perm:%d:size" % s, "%d matrices, expected order %d" % (len(tab), ORDERS[s]), where)
        if not ok:
            continue
        P = []
        good = True
        for i, m in enumerate(tab):
            if not all(x.is_const() and x.const_value().denominator == 1 for r in m for x in r):
                ctx.fail("C12:perm:%d:entry%d" % (s, i), "perm[%d] is not an integer 3x3 matrix" % i, where)
                good = False
                continue
            mi = tuple(tuple(Fraction(int(x.const_value())) for x in r) for r in m)
            ctx.check(ga.det(mi) in (1, -1), "C12:perm:%d:det%d" % (s, i), "perm[%d] has determinant %d" % (i, ga.det(mi)), where)
            P.append(mi)
        if not good:
            continue
        groups[s] = P
        ctx.check(ga.I3 in P, "C12:perm:%d:identity" % s, "identity missing", where)
        ctx.check(len(set(P)) == len(P), "C12:perm:%d:distinct" % s, "duplicated matrices", where)
        S = set(P)
        notclosed = [(i, j) for i, a in enumerate(P) for j, b in enumerate(P) if ga.mmul(a, b) not in S]
        ctx.check(not notclosed, "C12:perm:%d:closed" % s, "perm[%d].perm[%d] is not in the table" %
                  (notclosed[0] if notclosed else (0, 0)), where,
                  sample={"system": NAMES[s], "order": len(P), "products": len(P) ** 2})
    ctx.floor("permutation tables", nperm, 7)
    # rotations(): explicit matrices
    half, r3 = Rat.const(Fraction(1, 2)), N.ref("sqrt(x)", {"x": Rat.const(3)})
    zero, one = Rat.const(0), Rat.const(1)
    # conforming B of a hexagonal cell [a,a,c,90,90,120]: a*(1, 1/2; 0, sqrt3/2) (+) c*
    HEX_BASIS = [[[one, half, zero], [zero, r3 / 2, zero], [zero, zero, zero]], [[zero, zero, zero], [zero, zero, zero], [zero, zero, one]]]
    rots = {}
    for s in range(1, 8):
        where = core.loc(mod, rfn)
        kind, tab = table_of(mod, "rotations", s, tmods)
        if kind != "ok":
            ctx.fail("C12:rot:%d:present" % s, "rotations(%d) raises %s" % (s, tab), where)
            continue
        rots[s] = tab
        P = groups.get(s)
        if P is None:
            continue
        ctx.check(len(tab) == len(P), "C12:rot:%d:size" % s, "rotations(%d) has %d operators, permutations has %d" % (s, len(tab), len(P)), where)
        if len(tab) != len(P):
            continue
        bad = [i for i, R in enumerate(tab) if not (req(rmul(R, rT(R)), RI3) and rdet(R).equals(1))]
        ctx.check(not bad, "C12:rot:%d:proper" % s,
                  "rot[i] is not a proper rotation (R R' = I, det = +1) for i in %s" % bad[:6], where,
                  sample={"system": NAMES[s], "rot[1]": [[N.short(x) for x in r] for r in tab[min(1, len(tab) - 1)]]} if s == 6 else None)
        basis = HEX_BASIS if s in (5, 6) else [rmat(b) for b in B_BASIS[s]]
        badp = [(i, k) for i, R in enumerate(tab) for k, Bm in enumerate(basis)
                if not req(rmul(R, rmul(Bm, rmat(P[i]))), Bm)]
        ctx.check(not badp, "C12:pair:%d" % s,
                  "rot[%d] . B . perm[%d] != B for element %d of the basis of conforming B matrices (the operator applied to the "
                  "orientation is not the one paired with the permutation of hkl)"
                  % (badp[0][0] if badp else 0, badp[0][0] if badp else 0, badp[0][1] if badp else 0), where)
    # cache: the module-level constant, evaluated
    if "ROTATIONS" not in mod.assigns:
        raise AnalysisError("anchor vanished: ROTATIONS in symmetry.py")

    def ipol(name, args, kwargs, node):
        for pre, m_ in tmods.items():
            if name.startswith(pre + "."):
                return Evaluator(m_, inline=True, branch_policy=N.skip_checks_policy).call_function(name[len(pre) + 1:], args, kwargs)
        return NotImplemented
    cache = Evaluator(mod, inline=True, import_policy=ipol, branch_policy=N.skip_checks_policy).module_constant("ROTATIONS")
    okc = isinstance(cache, (list, tuple)) and len(cache) == 8 and cache[0] is None
    if okc:
        for s in range(1, 8):
            A = cache[s] if isinstance(cache[s], Arr) else materialise(cache[s])
            okc = okc and A is not None and s in rots and A.shape == (len(rots[s]), 3, 3) and \
                all(scalar(A.data[i][r][c]).equals(rots[s][i][r][c]) for i in range(len(rots[s])) for r in range(3) for c in range(3))
    ctx.check(okc, "C12:cache:ROTATIONS", "ROTATIONS is not [None] + [rotations(i) for i in range(1, 8)]",
              core.loc(mod, mod.assigns["ROTATIONS"]))
    stores = [n for n in ast.walk(mod.tree) if isinstance(n, (ast.Assign, ast.AugAssign))
              for t in (n.targets if isinstance(n, ast.Assign) else [n.target])
              for x in ast.walk(t) if isinstance(x, ast.Name) and x.id == "ROTATIONS"]
    ctx.check(len(stores) == 1, "C12:cache:single-store", "ROTATIONS is stored %d times" % len(stores), mod.rel)
    # Umis
    ufn = mod.func("Umis"); ctx.saw(mod, ufn)
    analyse_umis(ctx, mod, ufn)
    ctx.not_decided += ["the invariances of the angle multiset (symmetry-equivalent replacement, common rotation, swap) are "
                        "paper consequences of the group axioms, the pairing rule and trace cyclicity"]
    ctx.assumptions += ["numpy: (rot * M).sum(axis=(1,2)) is the Frobenius product per operator; clip, arccos, arange",
                        "cos / sin of multiples of 15 degrees and the inverse of a constant 3x3 matrix, exact in Q(sqrt 2, sqrt 3, pi)"]
    from xfabsa import numeric as _NH
    _NH.hazard_rule(ctx, 'C12')
    return ("permutations(s) and rotations(s) evaluated by E3 for s = 1..7 and outside: seven integer tables checked exactly "
            "(orders 1,2,4,8,6,12,24, unimodular, closed over all pairs); every rot[i] an exact proper rotation paired with "
            "perm[i] on a basis of conforming B (hexagonal family in Q(sqrt 3)); ROTATIONS evaluated and compared entry-wise; "
            "Umis evaluated by E3 on symbolic operators.")


def analyse_umis(ctx, mod, fn):
    where = core.loc(mod, fn)
    if len(fn.args.args) != 3:
        raise AnalysisError("Umis signature changed")
    U1, U2 = sym_array("U1", (3, 3)), sym_array("U2", (3, 3))
    table = [None] + [sym_array("rot%d" % s_, (2, 3, 3)) for s_ in range(1, 8)]
    results = {}
    for s_ in range(1, 8):
        ev = Evaluator(mod, inline=True, branch_policy=N.skip_checks_policy)
        ev.unit_clip_identity = False        # the guard of the arccos is part of what this rule decides (trace / 2 - 1/2 may exceed 1 by rounding)
        ev._modconst = {"ROTATIONS": table}
        out = ev.call_function("Umis", [U1, U2, Rat.const(s_)])
        results[s_] = out if isinstance(out, Arr) else materialise(out)
    oksh = all(A is not None and A.shape == (2, 2) for A in results.values())
    ctx.check(oksh, "C12:umis:shape", "result array is not (len(rot), 2)", where)
    if not oksh:
        return

    def length(s_, k):
        want = Rat.const(0)
        for i in range(3):
            for j in range(3):
                m = sum((Rat.atom("U1[%d,%d]" % (q, i)) * Rat.atom("U2[%d,%d]" % (q, j)) for q in range(3)), Rat.const(0))
                want = want + Rat.atom("rot%d[%d,%d,%d]" % (s_, k, i, j)) * m
        return want / 2 - Rat.const(Fraction(1, 2))
    ok0 = all(scalar(results[s_].data[k][0]).equals(Rat.const(k)) for s_ in results for k in range(2))
    ctx.check(ok0, "C12:umis:index-column", "column 0 is not arange(len(rot))", where)
    # which operators, which trace: read the argument of the clip / arccos
    from xfabsa.poly import atom_info
    idx_ok, trace_ok, angle_ok = True, True, True
    for s_ in results:
        for k in range(2):
            v = scalar(results[s_].data[k][1])
            rad = v * N.PI / 180
            info = atom_info(rad)
            if info is None or info[0] != "arccos":
                angle_ok = False
                continue
            inner = atom_info(info[1][0])
            if inner is None or inner[0] != "clip" or not (inner[1][1].equals(-1) and inner[1][2].equals(1)):
                angle_ok = False
                continue
            got = inner[1][0]
            if not got.equals(length(s_, k)):
                # right formula on another crystal system's operators?
                if any(got.equals(length(o_, k)) for o_ in results if o_ != s_):
                    idx_ok = False
                else:
                    trace_ok = False
    ctx.check(idx_ok, "C12:cache:Umis-index", "Umis does not take rot = ROTATIONS[crystal_system]", where)
    ctx.check(trace_ok, "C12:umis:trace-formula",
              "lengths is not 0.5*sum_ij rot_k[i,j]*(U1'U2)[i,j] - 0.5 = (tr(U1' U2 rot_k') - 1)/2", where,
              sample={"angle[0]": N.short(scalar(results[1].data[0][1]), 200)})
    ctx.check(angle_ok, "C12:umis:angle-column",
              "column 1 is not arccos(lengths.clip(-1, 1))*180/pi (degrees in [0, 180])", where)
