"""
C12 -- lattice symmetry operators form the right groups; misorientation respects them.

E0 extracts the seven literal tables of symmetry.permutations; E6 checks the
group axioms and the pairing identities exactly; the construction of
rotations() and the ROTATIONS cache are matched by shape; the trace formula of
Umis is compared by E3.
"""
import ast
from fractions import Fraction

from xfabsa import core, tables, groupalg as ga, numeric as N
from xfabsa.core import AnalysisError
from xfabsa.poly import Rat
from xfabsa.symeval import Evaluator, sym_array, Arr, Opaque, scalar, materialise

EXHAUSTIVE = True
ORDERS = {1: 1, 2: 2, 3: 4, 4: 8, 5: 6, 6: 12, 7: 24}
NAMES = {1: "triclinic", 2: "monoclinic", 3: "orthorhombic", 4: "tetragonal", 5: "trigonal", 6: "hexagonal", 7: "cubic"}
# non-zero pattern of the upper-triangular B of a conforming cell, as a basis (C01's B shape)
def E(i, j):
    return tuple(tuple(Fraction(1 if (r, c) == (i, j) else 0) for c in range(3)) for r in range(3))
def add(*ms):
    return tuple(tuple(sum(m[r][c] for m in ms) for c in range(3)) for r in range(3))
B_BASIS = {
    1: [E(0, 0), E(0, 1), E(0, 2), E(1, 1), E(1, 2), E(2, 2)],
    2: [E(0, 0), E(0, 2), E(1, 1), E(2, 2)],          # unique axis b: alpha* = gamma* = 90
    3: [E(0, 0), E(1, 1), E(2, 2)],
    4: [add(E(0, 0), E(1, 1)), E(2, 2)],
    7: [add(E(0, 0), E(1, 1), E(2, 2))],
}
# reciprocal metric of the hexagonal cell [1,1,1,90,90,120] (any hexagonal cell: diag(s,s,t) scaling)
GSTAR_HEX = ((Fraction(4, 3), Fraction(2, 3), 0), (Fraction(2, 3), Fraction(4, 3), 0), (0, 0, 1))


def range_guard_ok(fn, param):
    """`if p < 1 or p > 7: raise ValueError(...)` as first statement"""
    body = core.body_wo_doc(fn)
    if not body or not isinstance(body[0], ast.If):
        return False
    st = body[0]
    t = st.test
    if not (isinstance(t, ast.BoolOp) and isinstance(t.op, ast.Or) and len(t.values) == 2):
        return False
    lo = hi = False
    for c in t.values:
        if isinstance(c, ast.Compare) and isinstance(c.left, ast.Name) and c.left.id == param and len(c.ops) == 1 \
                and isinstance(c.comparators[0], ast.Constant):
            if isinstance(c.ops[0], ast.Lt) and c.comparators[0].value == 1:
                lo = True
            if isinstance(c.ops[0], ast.Gt) and c.comparators[0].value == 7:
                hi = True
    r = st.body[0] if len(st.body) == 1 else None
    isval = isinstance(r, ast.Raise) and isinstance(r.exc, ast.Call) and isinstance(r.exc.func, ast.Name) \
        and r.exc.func.id == "ValueError"
    return lo and hi and isval and not st.orelse


def run(ctx):
    from xfabsa import numeric as _N
    _N.alias_rule(ctx, 'C12', ['xfab/symmetry.py'])
    ctx.rule("perm", "permutations(s): declared size, all slots stored, integer, det +-1, order, no duplicates, closed, identity")
    ctx.rule("rot", "rotations(s): perm[i].T (signed permutation => proper rotation) or B perm[i]^-1 B^-1 with hexagonal B")
    ctx.rule("pair", "rot[i] B perm[i] = B on a basis of the conforming B matrices")
    ctx.rule("cache", "ROTATIONS == [None] + [rotations(i) for i in 1..7]; Umis indexes it by crystal_system")
    ctx.rule("umis", "Umis: 0.5*sum_ij rot_k[i,j]*(U1'U2)[i,j] - 0.5, arccos(clip(-1,1))*180/pi, column 0 = arange")
    mod = core.module("xfab/symmetry.py")
    ctx.saw(mod)
    pfn = mod.func("permutations"); ctx.saw(mod, pfn)
    perms = tables.extract_permutations()
    ctx.floor("permutation tables", len(perms), 7)
    ctx.check(range_guard_ok(pfn, pfn.args.args[0].arg), "C12:perm:range-guard",
              "permutations() does not raise ValueError for crystal_system outside 1..7", core.loc(mod, pfn))
    groups = {}
    for s in range(1, 8):
        if s not in perms:
            ctx.fail("C12:perm:%d:present" % s, "no table for crystal system %d" % s, core.loc(mod, pfn))
            continue
        n_decl, mats, line = perms[s]
        where = "%s:%d" % (mod.rel, line)
        ok = n_decl == ORDERS[s] and sorted(mats) == list(range(ORDERS[s]))
        ctx.check(ok, "C12:perm:%d:size" % s, "declared %s matrices, stored slots %s, expected order %d"
                  % (n_decl, sorted(mats)[:30], ORDERS[s]), where)
        if not ok:
            continue
        P = []
        good = True
        for i in range(n_decl):
            m = mats[i]
            if not ga.is_int_matrix(m):
                ctx.fail("C12:perm:%d:entry%d" % (s, i), "perm[%d] is not an integer 3x3 matrix" % i, where)
                good = False
                continue
            m = ga.tup(m)
            ctx.check(ga.det(m) in (1, -1), "C12:perm:%d:det%d" % (s, i), "perm[%d] has determinant %d" % (i, ga.det(m)), where)
            P.append(m)
        if not good:
            continue
        groups[s] = P
        ctx.check(P[0] == ga.I3 or ga.I3 in P, "C12:perm:%d:identity" % s, "identity missing", where)
        ctx.check(len(set(P)) == len(P), "C12:perm:%d:distinct" % s, "duplicated matrices", where)
        S = set(P)
        notclosed = [(i, j) for i, a in enumerate(P) for j, b in enumerate(P) if ga.mmul(a, b) not in S]
        ctx.check(not notclosed, "C12:perm:%d:closed" % s, "perm[%d].perm[%d] is not in the table" %
                  (notclosed[0] if notclosed else (0, 0)), where,
                  sample={"system": NAMES[s], "order": len(P), "products": len(P) ** 2})
    # rotations(): structure per arm
    rfn = mod.func("rotations"); ctx.saw(mod, rfn)
    param = rfn.args.args[0].arg
    ctx.check(range_guard_ok(rfn, param), "C12:rot:range-guard",
              "rotations() does not raise ValueError for crystal_system outside 1..7", core.loc(mod, rfn))
    arms = {}
    for st in core.body_wo_doc(rfn):
        if isinstance(st, ast.If) and isinstance(st.test, ast.Compare) and isinstance(st.test.left, ast.Name) \
                and st.test.left.id == param and isinstance(st.test.ops[0], ast.Eq) \
                and isinstance(st.test.comparators[0], ast.Constant):
            arms[st.test.comparators[0].value] = st
    for s in range(1, 8):
        if s not in arms:
            ctx.fail("C12:rot:%d:present" % s, "rotations() has no arm for crystal system %d" % s, core.loc(mod, rfn))
            continue
        st = arms[s]
        where = core.loc(mod, st)
        kind = classify_rot_arm(mod, st, param)
        P = groups.get(s)
        if kind is None:
            raise AnalysisError("rotations(%d): arm has a form the rule cannot read (%s)" % (s, where))
        if P is None:
            continue
        if kind[0] == "transpose":
            # proper rotation: every perm is a signed permutation matrix with det +1
            bad = [i for i, m in enumerate(P) if ga.mmul(ga.transpose(m), m) != ga.I3 or ga.det(m) != 1]
            ctx.check(not bad, "C12:rot:%d:proper" % s,
                      "rot[i] = perm[i].T is not a proper rotation for i in %s (perm[i] not orthogonal with det +1)" % bad[:5], where)
            basis = B_BASIS.get(s)
            if basis is None:
                ctx.fail("C12:pair:%d" % s, "rot = perm.T is used for the %s system whose B is not preserved by "
                         "transposed permutations" % NAMES[s], where)
            else:
                badp = [(i, k) for i, m in enumerate(P) for k, Bm in enumerate(basis)
                        if ga.mmul(ga.transpose(m), ga.mmul(Bm, m)) != Bm]
                ctx.check(not badp, "C12:pair:%d" % s,
                          "perm[%d]' . B . perm[%d] != B for basis element %d of the conforming B matrices"
                          % (badp[0][0] if badp else 0, badp[0][0] if badp else 0, badp[0][1] if badp else 0), where)
        elif kind[0] == "conjugate":
            cell, nrot = kind[1], kind[2]
            okcell = (len(cell) == 6 and cell[0] == cell[1] and cell[0] > 0 and cell[2] > 0
                      and cell[3] == 90 and cell[4] == 90 and cell[5] == 120)
            ctx.check(okcell, "C12:rot:%d:cell" % s, "B is formed from %s, not a hexagonal cell [a,a,c,90,90,120]" % (cell,), where)
            ctx.check(nrot == len(P), "C12:rot:%d:size" % s, "rot allocated for %s operators, permutations has %d" % (nrot, len(P)), where)
            bad = [i for i, m in enumerate(P)
                   if ga.mmul(ga.transpose(m), ga.mmul(GSTAR_HEX, m)) != tuple(tuple(Fraction(x) for x in r) for r in GSTAR_HEX)
                   or ga.det(m) != 1]
            ctx.check(not bad, "C12:rot:%d:proper" % s,
                      "B perm[i]^-1 B^-1 is not a proper rotation for i in %s (perm[i] does not preserve the hexagonal "
                      "reciprocal metric / det != 1)" % bad[:5], where)
            # pairing: P commutes with diag(s,s,t)  <=>  P[2][0]=P[2][1]=P[0][2]=P[1][2]=0
            badp = [i for i, m in enumerate(P) if m[2][0] or m[2][1] or m[0][2] or m[1][2]]
            if kind[3] != "inv":
                # rot[i] = B X B^-1 pairs with perm[i] only when X.perm[i] = I (X = perm[i] itself or its transpose)
                X = [m if kind[3] == "plain" else ga.transpose(m) for m in P]
                noninv = [i for i, (x, m) in enumerate(zip(X, P)) if ga.mmul(x, m) != ga.I3]
                ctx.check(not noninv, "C12:pair:%d:inverse" % s,
                          "rot[i] is built from %s instead of inv(perm[i]): it is not the inverse for i in %s, so rot[i].B.perm[i] != B "
                          "(and rot[i] is not orthogonal)" % ("perm[i]" if kind[3] == "plain" else "perm[i].T", noninv[:6]), where)
            ctx.check(not badp, "C12:pair:%d" % s,
                      "perm[%s] mixes the hexagonal plane with c: rot[i].B'.perm[i] != B' for cells other than the unit one"
                      % badp[:5], where)
    # cache
    if "ROTATIONS" not in mod.assigns:
        raise AnalysisError("anchor vanished: ROTATIONS in symmetry.py")
    v = mod.assigns["ROTATIONS"].value
    okc = False
    if isinstance(v, ast.BinOp) and isinstance(v.op, ast.Add) and isinstance(v.left, ast.List) and len(v.left.elts) == 1 \
            and isinstance(v.left.elts[0], ast.Constant) and v.left.elts[0].value is None \
            and isinstance(v.right, ast.ListComp) and len(v.right.generators) == 1:
        g = v.right.generators[0]
        elt = v.right.elt
        if isinstance(elt, ast.Call) and isinstance(elt.func, ast.Attribute) and elt.func.attr in ("ascontiguousarray", "array", "asarray"):
            elt = elt.args[0]
        rng = g.iter
        okc = (isinstance(elt, ast.Call) and isinstance(elt.func, ast.Name) and elt.func.id == "rotations"
               and len(elt.args) == 1 and isinstance(elt.args[0], ast.Name) and isinstance(g.target, ast.Name)
               and elt.args[0].id == g.target.id and not g.ifs
               and isinstance(rng, ast.Call) and isinstance(rng.func, ast.Name) and rng.func.id == "range"
               and [getattr(a, "value", None) for a in rng.args] == [1, 8])
    ctx.check(okc, "C12:cache:ROTATIONS", "ROTATIONS is not [None] + [rotations(i) for i in range(1, 8)]",
              core.loc(mod, mod.assigns["ROTATIONS"]))
    stores = [n for n in ast.walk(mod.tree) if isinstance(n, (ast.Assign, ast.AugAssign))
              for t in (n.targets if isinstance(n, ast.Assign) else [n.target])
              for x in ast.walk(t) if isinstance(x, ast.Name) and x.id == "ROTATIONS"]
    ctx.check(len(stores) == 1, "C12:cache:single-store", "ROTATIONS is stored %d times" % len(stores), mod.rel)
    # Umis
    ufn = mod.func("Umis"); ctx.saw(mod, ufn)
    analyse_umis(ctx, mod, ufn)
    ctx.not_decided += ["the invariances of the angle multiset (symmetry-equivalent replacement, common rotation, swap) are "
                        "paper consequences of the group axioms, the pairing rule and trace cyclicity"]
    ctx.assumptions += ["numpy: (rot * M).sum(axis=(1,2)) is the Frobenius product per operator; clip, arccos, arange"]
    return ("Seven permutation tables extracted and checked exactly (orders 1,2,4,8,6,12,24, unimodular, closed over all "
            "pairs); rotations() arms recognised as perm' resp. B perm^-1 B^-1 with a hexagonal B and proven proper "
            "rotations on the tables; pairing identity decided on a basis of conforming B; ROTATIONS cache shape; Umis "
            "trace formula by E3.")


def classify_rot_arm(mod, st, param):
    body = st.body
    # transpose form: rot = permutations(p); for i in range(len(rot)): rot[i] = rot[i].T
    if len(body) == 2 and isinstance(body[0], ast.Assign) and isinstance(body[1], ast.For):
        a, f = body
        if isinstance(a.value, ast.Call) and isinstance(a.value.func, ast.Name) and a.value.func.id == "permutations" \
                and isinstance(a.value.args[0], ast.Name) and a.value.args[0].id == param \
                and isinstance(a.targets[0], ast.Name):
            v = a.targets[0].id
            it = f.iter
            okit = (isinstance(it, ast.Call) and isinstance(it.func, ast.Name) and it.func.id == "range" and len(it.args) == 1
                    and isinstance(it.args[0], ast.Call) and isinstance(it.args[0].func, ast.Name) and it.args[0].func.id == "len"
                    and isinstance(it.args[0].args[0], ast.Name) and it.args[0].args[0].id == v)
            if okit and len(f.body) == 1 and isinstance(f.body[0], ast.Assign):
                s = f.body[0]
                t, val = s.targets[0], s.value
                i = f.target.id if isinstance(f.target, ast.Name) else None
                def sub(n):
                    return (isinstance(n, ast.Subscript) and isinstance(n.value, ast.Name) and n.value.id == v
                            and isinstance(n.slice, ast.Name) and n.slice.id == i)
                if sub(t) and ((isinstance(val, ast.Attribute) and val.attr == "T" and sub(val.value)) or
                               (isinstance(val, ast.Call) and isinstance(val.func, ast.Attribute) and val.func.attr == "transpose"
                                and ((val.args and sub(val.args[0])) or sub(val.func.value)))):
                    return ("transpose",)
    # conjugate form
    if len(body) == 5 and all(isinstance(b, ast.Assign) for b in body[:4]) and isinstance(body[4], ast.For):
        a_perm, a_B, a_Binv, a_rot, f = body
        try:
            okp = (isinstance(a_perm.value, ast.Call) and a_perm.value.func.id == "permutations" and a_perm.value.args[0].id == param)
            pv = a_perm.targets[0].id
            bv = a_B.targets[0].id
            okB = (isinstance(a_B.value, ast.Call) and isinstance(a_B.value.func, ast.Attribute) and a_B.value.func.attr == "form_b_mat"
                   and isinstance(a_B.value.func.value, ast.Name) and mod.imports.get(a_B.value.func.value.id) in ("xfab.tools", "xfab.laue"))
            cell = list(ast.literal_eval(a_B.value.args[0]))
            biv = a_Binv.targets[0].id
            okBi = (isinstance(a_Binv.value, ast.Call) and isinstance(a_Binv.value.func, ast.Attribute) and a_Binv.value.func.attr == "inv"
                    and a_Binv.value.args[0].id == bv)
            rv = a_rot.targets[0].id
            shp = ast.literal_eval(a_rot.value.args[0])
            okr = a_rot.value.func.attr == "zeros" and tuple(shp[1:]) == (3, 3)
            it = f.iter
            okit = it.func.id == "range" and it.args[0].func.id == "len" and it.args[0].args[0].id == pv
            s = f.body[0]
            i = f.target.id
            t, val = s.targets[0], s.value
            okt = t.value.id == rv and t.slice.id == i
            # dot(B, dot(inv(perm[i]), Binv))
            d1 = val
            inner = d1.args[1].args[0]
            inverted = "plain"
            pe = inner
            if isinstance(inner, ast.Call) and getattr(inner.func, "attr", "") == "inv":
                inverted, pe = "inv", inner.args[0]
            elif isinstance(inner, ast.Attribute) and inner.attr == "T":
                inverted, pe = "transpose", inner.value
            elif isinstance(inner, ast.Call) and getattr(inner.func, "attr", "") == "transpose":
                inverted, pe = "transpose", (inner.args[0] if inner.args else inner.func.value)
            okd = (d1.func.attr == "dot" and d1.args[0].id == bv and d1.args[1].func.attr == "dot"
                   and pe.value.id == pv and pe.slice.id == i and d1.args[1].args[1].id == biv)
            if okp and okB and okBi and okr and okit and okt and okd and len(f.body) == 1:
                return ("conjugate", cell, shp[0], inverted)
        except (AttributeError, IndexError, ValueError, TypeError):
            return None
    return None


def analyse_umis(ctx, mod, fn):
    where = core.loc(mod, fn)
    params = [a.arg for a in fn.args.args]
    if len(params) != 3:
        raise AnalysisError("Umis signature changed")
    u1, u2, cs = params
    body = core.body_wo_doc(fn)
    assigns = {}
    stores = {}
    ret = None
    for st in body:
        if isinstance(st, ast.Assign) and isinstance(st.targets[0], ast.Name):
            assigns[st.targets[0].id] = st
        elif isinstance(st, ast.Assign) and isinstance(st.targets[0], ast.Subscript):
            stores[core.unparse(st.targets[0]).replace(" ", "")] = st
        elif isinstance(st, ast.Return):
            ret = st
    if "rot" not in assigns or "lengths" not in assigns or ret is None:
        raise AnalysisError("Umis: expected the assignments rot, lengths and a return")
    r = assigns["rot"].value
    okrot = (isinstance(r, ast.Subscript) and isinstance(r.value, ast.Name) and r.value.id == "ROTATIONS"
             and isinstance(r.slice, ast.Name) and r.slice.id == cs)
    ctx.check(okrot, "C12:cache:Umis-index", "Umis does not take rot = ROTATIONS[crystal_system]", core.loc(mod, assigns["rot"]))
    # E3 on `lengths`
    ev = Evaluator(mod, inline=set())
    rot = sym_array("rot", (2, 3, 3))
    U1, U2 = sym_array("U1", (3, 3)), sym_array("U2", (3, 3))
    got = ev.eval(assigns["lengths"].value, {"rot": rot, u1: U1, u2: U2})
    G = got if isinstance(got, Arr) else materialise(got)
    ok = G is not None and G.shape == (2,)
    if ok:
        for k in range(2):
            want = Rat.const(0)
            for i in range(3):
                for j in range(3):
                    m = sum((Rat.atom("U1[%d,%d]" % (q, i)) * Rat.atom("U2[%d,%d]" % (q, j)) for q in range(3)), Rat.const(0))
                    want = want + Rat.atom("rot[%d,%d,%d]" % (k, i, j)) * m
            want = want / 2 - Rat.const(Fraction(1, 2))
            ok = ok and scalar(G.data[k]).equals(want)
    ctx.check(ok, "C12:umis:trace-formula",
              "lengths is not 0.5*sum_ij rot_k[i,j]*(U1'U2)[i,j] - 0.5 = (tr(U1' U2 rot_k') - 1)/2", core.loc(mod, assigns["lengths"]),
              sample={"expression": core.unparse(assigns["lengths"].value)})
    # column stores
    mname = ret.value.id if isinstance(ret.value, ast.Name) else None
    s0 = stores.get("%s[:,0]" % mname)
    s1 = stores.get("%s[:,1]" % mname)
    ok0 = False
    if s0 is not None:
        v = s0.value
        ok0 = (isinstance(v, ast.Call) and isinstance(v.func, ast.Attribute) and v.func.attr == "arange" and len(v.args) == 1
               and isinstance(v.args[0], ast.Call) and isinstance(v.args[0].func, ast.Name) and v.args[0].func.id == "len"
               and isinstance(v.args[0].args[0], ast.Name) and v.args[0].args[0].id == "rot")
    ctx.check(ok0, "C12:umis:index-column", "column 0 is not arange(len(rot))", where)
    ok1 = False
    if s1 is not None:
        ev2 = Evaluator(mod, inline=set())
        val = ev2.eval(s1.value, {"lengths": Opaque("lengths")})
        try:
            want = Rat.atom("arccos(lengths.clip(-1,1))") * 180 / N.PI
            ok1 = scalar(val).equals(want)
        except AnalysisError:
            ok1 = False
    ctx.check(ok1, "C12:umis:angle-column",
              "column 1 is not arccos(lengths.clip(-1, 1))*180/pi (degrees in [0, 180])", where)
    # the array has one row per operator and two columns
    a = assigns.get(mname)
    oksh = False
    if a is not None and isinstance(a.value, ast.Call) and isinstance(a.value.func, ast.Attribute) \
            and a.value.func.attr in ("empty", "zeros") and a.value.args:
        shp = a.value.args[0]
        oksh = (isinstance(shp, ast.Tuple) and len(shp.elts) == 2 and core.unparse(shp.elts[0]).replace(" ", "") == "len(rot)"
                and isinstance(shp.elts[1], ast.Constant) and shp.elts[1].value == 2)
    ctx.check(oksh, "C12:umis:shape", "result array is not (len(rot), 2)", where)
