"""
C14 -- xfab.tools and xfab.laue agree on everything except the documented factor 2*pi.

Stage 1 (E1): the normalised syntax trees of each of the 41 pairs are compared;
identical trees perform the same operations in the same order.
Stage 2 (E3 + signature table): a pair whose trees differ is evaluated in both
modules on the same symbolic input, with every parameter of tau-weight w scaled
by tau^w in tools, and with callees replaced by opaque results of their
signature weight (compositional: equality of all pairs is an induction over
the call graph).  Required: out_tools == tau^w * out_laue in the normal form.
Difference table: the three omega solvers of laue rescale g first
(g_w_n = sin(theta) g/|g|), checked by E3, and are otherwise identical.
"""
import ast
from fractions import Fraction
import copy

from xfabsa import core, numeric as N, siblings as SB
from xfabsa.core import AnalysisError
from xfabsa.poly import Rat
from xfabsa.signatures import SIG, EXPECTED_FUNCTIONS
from xfabsa.api import is_helper
from xfabsa.symeval import Evaluator, sym_array, Arr, Opaque, scalar, materialise, vkey, RaiseReached, enumerate_signs

EXHAUSTIVE = True
RESCALED = ("find_omega_general", "find_omega_quart", "find_omega")
TOOLS_AT_RESCALED = set()

def module_constants_differ(tmod, lmod, tfn, lfn):
    """names of module-level constants the pair mentions whose values differ between the two modules"""
    if tfn is lfn:
        return []
    names = set()
    for fn_ in (tfn, lfn):
        for n_ in ast.walk(fn_):
            if isinstance(n_, ast.Name) and isinstance(n_.ctx, ast.Load) and (n_.id in tmod.assigns or n_.id in lmod.assigns):
                names.add(n_.id)
    out = []
    for nm in sorted(names):
        if (nm in tmod.assigns) != (nm in lmod.assigns):
            out.append(nm)
            continue
        vals = []
        for m_ in (tmod, lmod):
            try:
                vals.append(vkey(Evaluator(m_, inline=True).module_constant(nm)))
            except Exception:
                vals.append("src:" + ast.dump(m_.assigns[nm].value))
        if vals[0] != vals[1]:
            out.append(nm)
    return out


def sig_weighted(name):
    params, ret = SIG.get(name, (None, None))
    if params is None:
        return False
    if any(w for _p, _s, w in params):
        return True
    ws = ret_weights(ret) if ret is not None else None
    return bool(ws and any(ws))


def callees(mod, fn):
    out = set()
    for node in ast.walk(fn):
        if isinstance(node, ast.Call) and isinstance(node.func, ast.Name) and node.func.id in mod.functions:
            out.add(node.func.id)
    return out


def has_tau(tree):
    return any(isinstance(n, ast.Name) and n.id == "TAU" for n in ast.walk(tree)) or \
        any(isinstance(n, ast.Attribute) and n.attr == "pi" and isinstance(p, ast.BinOp) and isinstance(p.op, (ast.Mult, ast.Div))
            for p in ast.walk(tree) for n in (p.left, p.right) if isinstance(p, ast.BinOp))


def strip_rescale_preamble(fn):
    """laue solver -> (copy without `g_w_n = ...` and with g_w_n renamed g_w, preamble stmt)"""
    fn2 = copy.deepcopy(fn)
    pre = None
    body = []
    for st in fn2.body:
        if pre is None and isinstance(st, ast.Assign) and len(st.targets) == 1 \
                and isinstance(st.targets[0], ast.Name) and st.targets[0].id == "g_w_n":
            pre = st
            continue
        body.append(st)
    fn2.body = body
    for node in ast.walk(fn2):
        if isinstance(node, ast.Name) and node.id == "g_w_n":
            node.id = "g_w"
    return fn2, pre


def scaled_arg(name, shape, w, tau):
    if shape is None:
        v = Rat.atom(name)
        return v * (tau ** w) if w else v
    a = sym_array(name, shape)
    if not w:
        return a
    m = materialise(a)

    def rec(d):
        return [rec(x) for x in d] if isinstance(d, list) else d * (tau ** w)
    return Arr(rec(m.data))


def make_ret(struct, key, tau):
    """opaque callee result of the signature's structure, scaled by tau^w"""
    if struct is None:
        return Opaque(key)
    if isinstance(struct[0], tuple) or (isinstance(struct[0], tuple) is False and isinstance(struct[1], tuple)):
        pass
    if len(struct) == 2 and (struct[0] is None or isinstance(struct[0], tuple) and all(isinstance(i, int) for i in struct[0])) \
            and isinstance(struct[1], int):
        shape, w = struct
        if shape is None:
            v = Rat.atom(key)
            return v * (tau ** w) if w else v
        o = Opaque(key, shape)
        if not w:
            return o
        m = materialise(o)

        def rec(d):
            return [rec(x) for x in d] if isinstance(d, list) else d * (tau ** w)
        return Arr(rec(m.data))
    return tuple(make_ret(s, "%s.%d" % (key, i), tau) for i, s in enumerate(struct))


def div_tau(v, w, tau):
    """normalise an argument of weight w back to weight 0 (divide by tau^w)"""
    if not w:
        return v
    if isinstance(v, (Rat, int, float)):
        return scalar(v) / (tau ** w)
    A = v if isinstance(v, Arr) else materialise(v)
    if A is None:
        # opaque of unknown shape: its key must carry the factor explicitly; leave as is
        return v

    def rec(d):
        return [rec(x) for x in d] if isinstance(d, list) else scalar(d) / (tau ** w)
    return Arr(rec(A.data))


def evaluate_side(mod, name, tau, fn=None, oracle=None, whole=0):
    """whole=0: callees of the pinned API are opaque values at their signature weight (modular comparison);
    whole=k: callees nested less than k deep are evaluated too (the comparison of last resort before two results are called
    different)"""
    params, ret = SIG[name]
    args = [scaled_arg(p, shp, w, tau) for (p, shp, w) in params]
    if name in TOOLS_AT_RESCALED and mod.rel.endswith("tools.py"):
        # laue's solver rescales g somewhere below its public name (no statement of its own to take away): tools is evaluated
        # at the rescaled vector sin(theta) g/|g| instead, where the two must agree as functions of g
        gr = N.ref("sin(twoth/2)*g/sqrt(g[0]*g[0]+g[1]*g[1]+g[2]*g[2])", {"g": args[0], "twoth": args[1]})
        args[0] = gr if isinstance(gr, Arr) else materialise(gr)
    calls = []

    def pol(cname, cargs, ckw, node):
        if cname not in SIG or SIG[cname][0] is None:
            return NotImplemented
        cparams, cret = SIG[cname]
        norm = []
        # keyword arguments are put into their positional slots (f(x, chi=a) and f(x, a) are the same call)
        names = [p for p, _s, _w in cparams]
        cargs, ckw = list(cargs), dict(ckw)
        for p in names[len(cargs):]:
            if p in ckw:
                cargs.append(ckw.pop(p))
            else:
                break
        for i, a in enumerate(cargs):
            w = cparams[i][2] if i < len(cparams) else 0
            norm.append(vkey(div_tau(a, w, tau)))
        for k, a in sorted(ckw.items()):
            w = dict((p, ww) for p, _s, ww in cparams).get(k, 0)
            norm.append("%s=%s" % (k, vkey(div_tau(a, w, tau))))
        key = "%s(%s)" % (cname, ";".join(norm))
        calls.append(key)
        return make_ret(cret, key, tau)
    depth = [0]

    def pol_deep(cname, cargs, ckw, node):
        # callees nested less than `whole` deep are evaluated, the ones below stay opaque at their signature weight
        if depth[0] >= whole or cname not in ev.mod.functions:
            r_ = pol(cname, cargs, ckw, node)
            if r_ is not NotImplemented:
                OPAQUE_LEFT[0] = True
            return r_
        depth[0] += 1
        try:
            return ev._call_fn(ev.mod.func(cname), list(cargs), dict(ckw))
        finally:
            depth[0] -= 1
    ev = Evaluator(mod, inline=set(), call_policy=pol_deep if whole else pol, branch_policy=N.skip_checks_policy, sign_policy=oracle)
    if oracle is not None:
        # `quantity < small literal`: a two-way question per (quantity, literal), shared by both modules
        ev.threshold_policy = lambda q, t, node: oracle.band(q, Fraction(t), node)
        ev.threshold_max = Fraction(1, 100)
    try:
        if fn is None:
            out = ev.call_function(name, args)
        else:
            out = ev._call_fn(fn, args, {})
    except RaiseReached as r:
        exc = r.node.exc
        from xfabsa.symeval import raised_name
        nm_ = getattr(r, "resolved", None) or (core.unparse(exc.func if isinstance(exc, ast.Call) else exc) if exc is not None else "re-raise")
        out = ("raises", nm_.split(".")[-1] if nm_ else nm_)
    return out, calls


def flatten(v):
    if isinstance(v, Rat):
        return [v]
    if isinstance(v, (int, float)):
        return [scalar(v)]
    if isinstance(v, Arr):
        return [scalar(x) for x in v.flat()]
    if isinstance(v, Opaque):
        m = materialise(v)
        if m is None:
            return [Rat.atom(v.key())]
        return [scalar(x) for x in m.flat()]
    if isinstance(v, (list, tuple)):
        out = []
        for x in v:
            out += flatten(x)
        return out
    raise AnalysisError("cannot flatten %r" % (v,))


def shape_of(v):
    """nesting structure of a result without a signature entry for its shape"""
    if isinstance(v, Arr):
        return ("array",) + tuple(v.shape)
    if isinstance(v, Opaque):
        return ("array",) + tuple(v.shape or ("?",))
    if isinstance(v, (list, tuple)):
        return tuple(shape_of(x) for x in v)
    return "scalar"


def ret_weights(struct):
    """flat list of (count, weight) following flatten() order"""
    if struct is None:
        return None
    if len(struct) == 2 and isinstance(struct[1], int) and (struct[0] is None or all(isinstance(i, int) for i in struct[0])):
        shape, w = struct
        n = 1
        for d in (shape or ()):
            n *= d
        return [w] * n
    out = []
    for s in struct:
        out += ret_weights(s)
    return out


def semantic_compare(ctx, name, tmod, lmod, lfn=None):
    """-> list of (key suffix, ok, message).  The modular comparison (callees opaque) is sufficient, not necessary: two
    modules may reach the same value through different callees (a closed form here, inv(form_a_mat()) there).  Before a
    difference is reported the pair is compared once more with every callee evaluated; only a difference that is still there
    is a difference of behaviour.  The modular messages are kept (they name the call site)."""
    from xfabsa import poly
    res = _semantic_compare(ctx, name, tmod, lmod, lfn, whole=0)
    if all(ok for _s, ok, _m in res):
        return res
    why, confirmed = None, 0
    for deep in (1, 2, 3):
        try:
            with poly.work_limit(WHOLE_WORK):
                res2 = _semantic_compare(ctx, name, tmod, lmod, lfn, whole=deep)
        except poly.WorkLimit:
            why = "normal forms beyond the work limit with callees evaluated %d deep" % deep
            break
        except AnalysisError as e:
            why = str(e)
            break
        if all(ok for _s, ok, _m in res2):
            return [("result", True, "equal up to tau^w with the callees evaluated %d deep (with opaque callees: %s)"
                     % (deep, "; ".join(s_ for s_, ok_, _m in res if not ok_)[:200]))]
        confirmed = deep
        if not OPAQUE_LEFT[0]:
            break              # every callee was evaluated: this comparison is the whole one
    only_arguments = all(ok_ or s_.startswith("call:") for s_, ok_, _m in res)
    if not confirmed and only_arguments:
        # same callees in the same order, one of them handed another argument: that is a difference wherever the callee depends
        # on its argument; it stands although the deeper comparison is out of reach
        return [(s_, ok_, m_ if ok_ else m_ + " [not refined: %s]" % why) for s_, ok_, m_ in res]
    if not confirmed:
        raise AnalysisError("siblings %s differ with their callees opaque (%s) and cannot be compared with the callees evaluated: %s"
                            % (name, "; ".join("%s: %s" % (s_, m_[:120]) for s_, ok_, m_ in res if not ok_)[:400], why))
    # the difference is still there with the callees evaluated `confirmed` deep (deeper levels are beyond the work limit)
    return [(s_, ok_, m_ if ok_ else m_ + " [still different with the callees evaluated %d deep]" % confirmed) for s_, ok_, m_ in res]


_DOMAIN = []


def CELL_DOMAIN():
    """the property quantifies over the input spaces of C01-C13: a cell parameter is a geometrically valid cell, so the signs of
    its edges, of the sines of its angles and of its volume root are facts, not cases"""
    if not _DOMAIN:
        _DOMAIN.append(N.domain_sign_policy(N.cell_positive_atoms("unit_cell")))
    return _DOMAIN[0]


WHOLE_WORK = 8_000_000         # monomial products allowed to one deeper comparison of one sibling pair


OPAQUE_LEFT = [False]        # did the last deeper comparison still meet a callee it kept opaque?
PRIMS = {}                   # canonical key of a compared difference -> the difference (the sign oracles share their keys)


def _semantic_compare(ctx, name, tmod, lmod, lfn=None, whole=0):
    tau = N.tau_of(True)
    OPAQUE_LEFT[0] = False
    def both(o):
        try:
            return (evaluate_side(tmod, name, tau, oracle=o, whole=whole),
                    evaluate_side(lmod, name, Rat.const(1), fn=lfn, oracle=o, whole=whole))
        finally:
            PRIMS.update(o.prims)
    paths = enumerate_signs(both,
                            max_paths=243 if not whole else 6561, fixed=CELL_DOMAIN())
    if len(paths) == 1:
        (tout, tcalls), (lout, lcalls) = paths[0][1]
        return compare_outcomes(name, tau, tout, tcalls, lout, lcalls, [])
    # the pair branches on its input: one comparison per sign case of the compared quantities (trace partitioning)
    bad = []
    for assume, ((tout, tcalls), (lout, lcalls)) in paths:
        cons = [(PRIMS[k_], v_) for k_, v_ in assume.items() if k_ in PRIMS]
        for suffix, ok, msg in compare_outcomes(name, tau, tout, tcalls, lout, lcalls, cons):
            if not ok:
                def show(k, v):
                    if k.startswith("band:"):
                        q_, t_ = k[5:].rsplit(":", 1)
                        return "%s %s %.3g" % (q_[:50], "<" if v == 1 else ">=", float(Fraction(t_)))
                    if k.startswith("close("):
                        return "%s %s" % (k[:50], "holds" if v == 1 else "does not hold")
                    return "%s %s 0" % (k[:50], {1: ">", 0: "==", -1: "<"}[v])
                case = ", ".join(show(k, v) for k, v in sorted(assume.items()))
                bad.append((suffix, False, "on the input class {%s}: %s" % (case, msg)))
    if bad:
        seen, out = set(), []
        for b in bad:
            if b[0] not in seen:
                seen.add(b[0]); out.append(b)
        return out
    return [("result", True, "equal up to tau^w on each of the %d sign cases of the quantities the pair branches on" % len(paths))]


def is_raise(v):
    return isinstance(v, tuple) and len(v) == 2 and v[0] == "raises"


def compare_outcomes(name, tau, tout, tcalls, lout, lcalls, constraints=None):
    res = []
    if is_raise(tout) or is_raise(lout):
        if is_raise(tout) and is_raise(lout) and tout[1] == lout[1]:
            return [("result", True, "both raise %s" % tout[1])]
        return [("result", False, "one module raises, the other does not, or different exceptions: tools %s ; laue %s"
                 % (tout if is_raise(tout) else "returns", lout if is_raise(lout) else "returns"))]
    # callee sites must correspond: same callee, arguments equal after dividing by tau^w
    if [c.split("(", 1)[0] for c in tcalls] != [c.split("(", 1)[0] for c in lcalls]:
        return [("calls", False, "different callee sequences: tools %s ; laue %s"
                 % ([c.split("(", 1)[0] for c in tcalls], [c.split("(", 1)[0] for c in lcalls]))]
    bad_call = False
    for k, (a, b) in enumerate(zip(tcalls, lcalls)):
        callee = a.split("(", 1)[0]
        if a != b:
            bad_call = True
            res.append(("call:%s" % callee, False,
                        "argument of %s (call site %d) is not the laue argument times tau^w of the callee's "
                        "signature: tools passes %s ; laue passes %s" % (callee, k, a[:160], b[:160])))
        else:
            res.append(("call:%s" % callee, True, ""))
    tf, lf = flatten(tout), flatten(lout)
    ws = ret_weights(SIG[name][1])
    if ws is None and shape_of(tout) != shape_of(lout):
        res.append(("result", False, "results have different structure: tools %s ; laue %s" % (shape_of(tout), shape_of(lout))))
        return res
    if len(tf) != len(lf) or (ws is not None and len(ws) != len(tf)):
        res.append(("result", False, "results have different structure (%d vs %d values)" % (len(tf), len(lf))))
        return res
    if bad_call:
        return res      # results depend on the mismatching callee; reported once, at the call
    nbad = 0
    for i, (x, y) in enumerate(zip(tf, lf)):
        w = ws[i] if ws is not None else 0
        if not x.equals(y * (tau ** w)):
            if w == 0 and constraints is not None:
                # one angle through two inverse functions (arctan2(s, c) here, arcsin - arctan2 with its wraps there)
                from xfabsa import angles
                if angles.same_angle(x, y, constraints):
                    continue
            nbad += 1
            if nbad <= 3:
                res.append(("result[%d]" % i, False, "tools %s ; laue %s ; expected ratio tau^%d"
                            % (N.short(x, 200), N.short(y, 200), w)))
    if not nbad:
        res.append(("result", True, "equal up to tau^w on %d result components, %d callee sites" % (len(tf), len(tcalls))))
    return res


HKL_FAMILY = ("sysabs", "sysabs_unique", "genhkl_base", "genhkl", "genhkl_all", "genhkl_unique", "reduce_cell")


def compare_hkl(name, tmod, lmod):
    """-> [(suffix, ok, message)] ; models of the two modules must coincide"""
    from xfabsa import tables
    from props import hklmodel as H
    settings, _info = tables.extract_sglib()
    out = []
    if name in ("sysabs", "sysabs_unique"):
        ta, la = H.AbsenceModel(tmod.rel), H.AbsenceModel(lmod.rel)
        keys = sorted({(tuple(s.syscond), s.crystal_system, s.cell_choice) for s in settings if len(s.syscond) == 26})
        box = [(h, k, l) for h in range(-6, 7) for k in range(-6, 7) for l in range(-6, 7)]
        bad = None
        for syscond, cs, cc in keys:
            if name == "sysabs":
                a, b = ta.residual(syscond, cs, cc), la.residual(syscond, cs, cc)
            else:
                a, b = ta.residual_unique(syscond), la.residual_unique(syscond)
            if a == b:
                continue
            fa, fb = H.absent_fn(a), H.absent_fn(b)
            for h in box:
                if fa(h) != fb(h):
                    bad = (h, [i for i, c in enumerate(syscond) if c], cs, cc)
                    break
            if bad:
                break
        out.append(("result", bad is None,
                    "the two modules decide differently whether %s is absent (active condition slots %s, %s, %s)"
                    % (bad or ("", "", "", ""))[:4] if bad else "same decision on |h|,|k|,|l| <= 6 for all %d condition vectors" % len(keys)))
        return out
    if name == "genhkl_base":
        ts, ls = tables.extract_segm(tmod.rel), tables.extract_segm(lmod.rel)
        combos = sorted({(s.Laue, s.cell_choice, s.crystal_system) for s in settings})
        diff = [c for c in combos if ts.table_key(*c) != ls.table_key(*c)]
        out.append(("cones", not diff, "different cone tables for (Laue, cell choice, crystal system) %s" % (diff[:2],)))
        # both walks evaluated as a whole on the same band models (props/hklrun.py)
        from props import hklrun
        rows_t, rows_l = hklrun.rows_of(ts, settings), hklrun.rows_of(ls, settings)
        results = hklrun.run_all([(tmod.rel, rows_t), (lmod.rel, rows_l)], "quick")
        vt, vl = hklrun.verdicts(results, tmod.rel), hklrun.verdicts(results, lmod.rel)
        pt, pl = hklrun.consult_policy(vt), hklrun.consult_policy(vl)
        out.append(("calls", pt == pl, "the reflection-condition test is consulted differently: tools passes crystal_system=%s, cell_choice=%s ; "
                    "laue passes crystal_system=%s, cell_choice=%s" % (pt["crystal_system"], pt["cell_choice"], pl["crystal_system"], pl["cell_choice"])))
        differ = []
        for c in sorted(set(vt) & set(vl)):
            if c in diff:
                continue
            if vt[c]["signature"] != vl[c]["signature"] or vt[c]["syscond_ok"] != vl[c]["syscond_ok"]:
                differ.append((c[0], c[1]))
        out.append(("result", not differ, "evaluated on the same band models the two walks return different rows / sort keys for (Laue, cell choice) %s" % (differ[:3],)))
        return out
    if name == "reduce_cell":
        # both copies evaluated by C18's abstract evaluator (concrete candidate table, sorted-table and first-hit summaries)
        from props.c18 import ReduceEval, RoundingFilter
        sig = []
        for mod_ in (tmod, lmod):
            fn_ = mod_.func("reduce_cell")
            cell_ = sym_array(fn_.args.args[0].arg, (6,))
            ev_ = ReduceEval(mod_, cell_)
            try:
                ev_.call_function("reduce_cell", [cell_])
            except RoundingFilter as rf_:
                sig.append(("rounding-filter", core.unparse(rf_.node)))
                continue
            if ev_.table is None or ev_.handed is None:
                raise AnalysisError("%s.reduce_cell: no sorted candidate table / no call of a_to_cell was met" % mod_.rel)
            rows_ = sorted("|".join(x_.key() for x_ in r_) + "@" + k_.key() for r_, k_ in zip(ev_.table.source, ev_.table.keys))
            sig.append((rows_, [[x_.key() for x_ in r_] for r_ in ev_.handed],
                        [(g_[0], g_[1].key(), g_[2], str(g_[3])) for g_ in ev_.guards],
                        [(l_["broke"], bool(l_["trace"]), l_["start"].key() if hasattr(l_["start"], "key") else str(l_["start"])) for l_ in ev_.loops]))
        # (an index table [i,j,k,|v|] and a vector table sorted by a separate key differ in representation only: compare the
        #  multiset of sort keys and what reaches a_to_cell)
        def reduced(s_):
            if s_[0] == "rounding-filter":
                return s_
            return (sorted(r_.split("@")[1] for r_ in s_[0]), s_[1], s_[2], s_[3])
        out.append(("result", reduced(sig[0]) == reduced(sig[1]),
                    "evaluated on the same symbolic cell the two copies of reduce_cell differ in their candidate lengths, guards, searches or in the matrix handed to a_to_cell"))
        return out
    if name == "genhkl":
        # the superseded triclinic walk: both copies evaluated as a whole on the same band models (props/hklrun.py)
        from props import hklrun
        ts = tables.extract_segm(tmod.rel)
        hits = tables.select_segm(ts, "-1", "standard", "triclinic")
        if len(hits) != 1:
            raise AnalysisError("no triclinic cone table to build the band models for genhkl from")
        sig = []
        for mod_ in (tmod, lmod):
            per = []
            for seed, flag in ((1, True), (2, None), (3, True)):
                r_ = hklrun.run_walk(mod_, hits[0]["table"], "-1", "standard", "triclinic", seed, flag, fname="genhkl")
                per.append((r_.get("error"), sorted(r_.get("rows", [])), r_.get("keys_ok"), r_.get("col_ok"),
                            sorted({(c_[2], c_[3]) for c_ in r_.get("consulted", [])}, key=repr)))
            sig.append(per)
        out.append(("result", sig[0] == sig[1], "evaluated on the same band models the two copies of genhkl return different rows / sort keys / consult sysabs differently"))
        return out
    if name in ("genhkl_all", "genhkl_unique"):
        from props.hklwrap import Wrap
        from xfabsa.objeval import okey
        res = []
        for mod_ in (tmod, lmod):
            per = []
            for kw in (dict(sgname="P21/c"), dict(sgname="P21/c", output_stl=True), dict(sgno=Rat.const(14), cell_choice="rhombohedral")):
                e = Wrap(mod_, family_subset=[2, 0, 3])
                out_ = e.call_function(name, [sym_array("unit_cell", (6,)), Rat.atom("sintlmin"), Rat.atom("sintlmax")], dict(kw))
                per.append((okey(out_) if not isinstance(out_, Arr) else out_.key(),
                            [sorted((k_, okey(v_)) for k_, v_ in c_.items()) for c_ in e.base_calls],
                            [[okey(x_) for x_ in a_] + sorted((k_, okey(v_)) for k_, v_ in kw_.items()) for a_, kw_ in e.sg_calls]))
            res.append(per)
        out.append(("result", res[0] == res[1], "the two modules return different tables / make different look-ups on the model group"))
        return out
    raise AnalysisError("no model comparison for %s" % name)


def run(ctx):
    from xfabsa import numeric as _NA
    _NA.alias_rule(ctx, 'C14', ['xfab/tools.py', 'xfab/laue.py'])
    ctx.rule("names", "both modules define the same 41 top-level functions")
    ctx.rule("identical", "normalised trees identical (same operations in the same order)")
    ctx.rule("semantic", "E3: tools(tau^w x) == tau^w' laue(x) with callees opaque at their signature weight")
    ctx.rule("preamble", "laue solver preamble g_w_n == sin(twoth/2) g_w / |g_w| and the rest identical to tools")
    ctx.rule("imports", "neither module imports the other")
    tmod = core.module("xfab/tools.py")
    lmod = core.module("xfab/laue.py")
    ctx.saw(tmod); ctx.saw(lmod)
    # helpers that only one module has (not anchors of the pinned API) are seen through at their call sites
    helpers = {m.rel: sorted(f for f in m.functions if is_helper(m, f)) for m in (tmod, lmod)}
    only = {m.rel: [f for f in helpers[m.rel] if f not in o.functions] for m, o in ((tmod, lmod), (lmod, tmod))}
    if any(only.values()):
        ctx.note("helpers defined in one module only (inlined at their call sites): %s" % only)
    tn = sorted(f for f in tmod.functions if f not in only[tmod.rel])
    ln = sorted(f for f in lmod.functions if f not in only[lmod.rel])
    ctx.check(tn == ln, "C14:names:sets", "function sets differ: only tools %s ; only laue %s"
              % (sorted(set(tn) - set(ln)), sorted(set(ln) - set(tn))), "xfab/tools.py / xfab/laue.py")
    ctx.floor("sibling pairs", len(set(tn) & set(ln)), 41)
    unknown = sorted((set(tn) & set(ln)) - set(SIG))
    if unknown:
        ctx.note("functions without a signature entry (compared structurally only): %s" % unknown)
    stats = {"identical": 0, "semantic": 0, "preamble": 0}
    undecided = []
    for name in sorted(set(tn) & set(ln)):
        if is_helper(tmod, name) and is_helper(lmod, name):
            continue            # a helper both modules have: compared through the API functions that call it
        tfn, lfn = tmod.func(name), lmod.func(name)
        ctx.saw(tmod, tfn); ctx.saw(lmod, lfn)
        where = "%s / %s" % (core.loc(tmod, tfn), core.loc(lmod, lfn))
        # signatures agree
        ta = [a.arg for a in tfn.args.args]
        la = [a.arg for a in lfn.args.args]
        td = [ast.dump(d) for d in tfn.args.defaults]
        ld = [ast.dump(d) for d in lfn.args.defaults]
        ctx.check(ta == la and td == ld, "C14:signature:%s" % name,
                  "parameter lists differ: %s vs %s" % (ta, la), where)
        lsrc = lfn
        pre = None
        if name in RESCALED:
            lsrc, pre = strip_rescale_preamble(lfn)
        nt, _ = SB.normalise(tmod, tfn)
        nl, _ = SB.normalise(lmod, lsrc)
        d = SB.Diff()
        SB.tree_diff(nt.body, nl.body, d)
        if name in RESCALED:
            if pre is None:
                # no rescaling statement in laue's own body: by value -- tools at sin(theta) g/|g| against laue at g
                ctx.note("%s: no rescaling preamble in laue, compared at the rescaled vector" % name)
                TOOLS_AT_RESCALED.add(name)
                from xfabsa.poly import POSITIVE_SCALE_ATOMS, single_atom
                at_ = single_atom(scalar(N.ref("sin(tw/2)", {"tw": Rat.atom("twoth")})))
                if at_ is not None and at_ not in POSITIVE_SCALE_ATOMS:
                    POSITIVE_SCALE_ATOMS.append(at_)       # 0 < 2 theta < pi on the whole domain: sin(theta) > 0
            else:
                ev = Evaluator(lmod, inline=set())
                g = sym_array("g_w", (3,))
                th = Rat.atom("twoth")
                got = ev.eval(pre.value, {"g_w": g, "twoth": th})
                want = N.ref("sin(twoth/2)*g/sqrt(g[0]*g[0]+g[1]*g[1]+g[2]*g[2])", {"g": g, "twoth": th})
                okp = all(x.equals(y) for x, y in zip(flatten(got), flatten(want))) and len(flatten(got)) == 3
                ctx.check(okp, "C14:preamble:%s" % name,
                          "laue rescaling preamble is not sin(twoth/2)*g_w/|g_w|: %s" % N.short(flatten(got)[0]),
                          core.loc(lmod, pre))
                stats["preamble"] += 1
        weighted = sig_weighted(name) or any(sig_weighted(c) for c in callees(tmod, tfn) | callees(lmod, lfn))
        scale_sensitive = weighted and (name in SIG and SIG[name][0] is not None)
        # the same text is the same behaviour only if the module-level constants it mentions have the same values in both modules
        # (`rescale=_RESCALE_G` with _RESCALE_G = False here and True there)
        consts_differ = module_constants_differ(tmod, lmod, tfn, lfn)
        if consts_differ:
            ctx.note("%s: same text, but the module constants %s differ between the modules" % (name, consts_differ[:4]))
        if d.equal and not consts_differ and not [s_ for s_ in d.tau_sites if s_[0] != 0] and not scale_sensitive:
            ctx.ok("C14:identical:%s" % name,
                   sample={"pair": name, "verdict": "normalised trees identical",
                           "commuted": [s_[1] for s_ in d.tau_sites]} if name in ("sintl", "genhkl_base") else None)
            stats["identical"] += 1
            continue
        # trees differ: tau sites and/or other differences
        params, ret = SIG.get(name, (None, None))
        if params is not None:
            try:
                for suffix, ok, msg in semantic_compare(ctx, name, tmod, lmod, lfn=lsrc if name in RESCALED else None):
                    ctx.check(ok, "C14:semantic:%s:%s" % (name, suffix), msg, where,
                              sample={"pair": name, "tau_sites": [s_[1] for s_ in d.tau_sites][:6], "verdict": msg}
                              if suffix == "result" else None)
                stats["semantic"] += 1
                continue
            except AnalysisError as e:
                e3err = str(e)
        else:
            e3err = "no signature / not straight-line"
        # the reflection generators: compared through the models C05 / C06 extract from each module
        if name in HKL_FAMILY:
            try:
                for suffix, ok, msg in compare_hkl(name, tmod, lmod):
                    ctx.check(ok, "C14:semantic:%s:%s" % (name, suffix), msg, where)
                stats["semantic"] += 1
                continue
            except AnalysisError as e:
                e3err = str(e)
        # not evaluable by E3: classify the structural difference
        if d.tokens and not d.shapes:
            undecided.append("siblings %s have the same shape but different tokens %s and cannot be evaluated: %s" % (name, d.tokens[:4], e3err))
        elif d.equal:
            # same operations in both modules, but the pair is scale-sensitive and cannot be evaluated: nothing is decided
            undecided.append("siblings %s are scale-sensitive (tau factors at %s) and cannot be evaluated: %s"
                             % (name, [s_[1] for s_ in d.tau_sites][:4], e3err))
        else:
            undecided.append("siblings %s diverged structurally and cannot be compared: %s ; E3: %s" % (name, d.shapes[:2], e3err))
    ctx.extra["pair_verdicts"] = stats
    # imports
    for m, other in ((tmod, "laue"), (lmod, "tools")):
        bad = [v for v in m.imports.values() if v in ("xfab." + other,) or v.endswith("." + other)]
        ctx.check(not bad, "C14:imports:%s" % m.rel, "%s imports %s" % (m.rel, bad), m.rel)
    if undecided:
        raise AnalysisError(" ;; ".join(undecided))
    ctx.assumptions += ["signature table of tau-weights (xfabsa/signatures.py) is the documented convention",
                        "numpy operators are deterministic functions of their arguments"]
    from xfabsa import numeric as _NH
    _NH.hazard_rule(ctx, 'C14')
    return ("All 41 sibling pairs compared: %(identical)d by identical normalised trees, %(semantic)d by E3 "
            "normal-form equality up to the tau-weight of the signature table with callees opaque at their "
            "signature weight (induction over the call graph); laue's three rescaling preambles checked by E3."
            % stats)
