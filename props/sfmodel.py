"""Shared symbolic model of structure.StructureFactor for C07 and C08."""
import ast

from xfabsa import core, numeric as N
from xfabsa.core import AnalysisError
from xfabsa.poly import Rat
from xfabsa.symeval import Evaluator, sym_array, Arr, Opaque, Obj, scalar, materialise, vkey

PI = N.PI


def make_atom(tag, adp_type):
    if adp_type == "Uiso":
        adp = Rat.atom("U_%s" % tag)
    elif adp_type == "Uani":
        adp = sym_array("Uani_%s" % tag, (6,))
    else:
        adp = Rat.const(0)
    return Obj("atom_%s" % tag, label="L" + tag, atomtype="T" + tag, pos=sym_array("x_%s" % tag, (3,)),
               adp_type=adp_type, adp=adp, occ=Rat.atom("occ_%s" % tag), symmulti=Rat.atom("mult_%s" % tag))


def make_sg(nsymop, rot=None):
    """rot: None for symbolic rotation parts, else explicit integer matrices (translations stay symbolic)"""
    R = sym_array("R", (nsymop, 3, 3)) if rot is None else Arr([[[Rat.const(x) for x in row] for row in m] for m in rot])
    o = Obj("mysg", nsymop=Rat.const(nsymop), rot=R, trans=sym_array("t", (nsymop, 3)), nuniq=Rat.const(max(1, nsymop - 1)))
    # the descriptive attributes of the real object (what a message may mention): texts of their own
    o.attrs.update(name="SGNAME", no=Rat.atom("sg.no"), crystal_system="<crystal system>", Laue="<Laue class>", cell_choice="standard")
    return o


def evaluate(mod, atoms, nsymop, disper, rot=None):
    """-> ([Freal, Fimg], log of external calls)"""
    log = []
    hkl = sym_array("hkl", (3,))
    ucell = sym_array("ucell", (6,))
    sgname = "SGNAME"
    mysg = make_sg(nsymop, rot)

    def ipol(name, args, kwargs, node):
        log.append((name, args, kwargs))
        if name == "xfab.sg.sg":
            return mysg
        if name == "xfab.tools.sintl" or name == "xfab.laue.sintl":
            return Rat.atom("stl")
        if name in ("xfab.tools.cell_invert", "xfab.laue.cell_invert"):
            return Opaque("cellstar", (6,))
        return NotImplemented

    def cpol(name, args, kwargs, node):
        if name == "FormFactor":
            log.append((name, args, kwargs))
            return Rat.atom("f['%s']" % args[0])
        return NotImplemented
    ev = Evaluator(mod, inline=True, call_policy=cpol, import_policy=ipol)
    ev.generic_equality = True      # a symbolic matrix entry is not equal to a given constant (special operations are modelled explicitly)
    out = ev.call_function("StructureFactor", [hkl, ucell, sgname, atoms, disper])
    if isinstance(out, Arr):
        out = out.data
    if not isinstance(out, (list, tuple)) or len(out) != 2:
        raise AnalysisError("StructureFactor does not return [Freal, Fimg]")
    return [scalar(out[0]), scalar(out[1])], log, hkl, ucell


def reference(atoms, nsymop, disper, adp_law="RbRt", rot=None):
    """explicit sum over atoms x operations, as normal forms"""
    h = [Rat.atom("hkl[%d]" % i) for i in range(3)]
    stl = Rat.atom("stl")
    cs = [Rat.atom("cellstar[%d]" % i) for i in range(6)]
    Fr = Rat.const(0)
    Fi = Rat.const(0)
    for a in atoms:
        tag = a.name[len("atom_"):]
        occ, mult = Rat.atom("occ_%s" % tag), Rat.atom("mult_%s" % tag)
        w = occ * mult / nsymop
        f = Rat.atom("f['T%s']" % tag)
        if disper is None or disper.get("T" + tag) is None:
            fp, fpp = Rat.const(0), Rat.const(0)
        else:
            fp, fpp = [scalar(x) for x in disper["T" + tag]][:2]
        x = [Rat.atom("x_%s[%d]" % (tag, i)) for i in range(3)]
        typ = a.attrs["adp_type"]
        if typ == "Uani":
            u = [Rat.atom("Uani_%s[%d]" % (tag, i)) for i in range(6)]
            Um = [[u[0], u[5], u[4]], [u[5], u[1], u[3]], [u[4], u[3], u[2]]]
            beta = [[2 * PI * PI * cs[i] * cs[j] * Um[i][j] for j in range(3)] for i in range(3)]
        for j in range(nsymop):
            R = [[Rat.atom("R[%d,%d,%d]" % (j, p, q)) if rot is None else Rat.const(rot[j][p][q]) for q in range(3)] for p in range(3)]
            t = [Rat.atom("t[%d,%d]" % (j, p)) for p in range(3)]
            r = [sum((R[p][q] * x[q] for q in range(3)), Rat.const(0)) + t[p] for p in range(3)]
            phase = 2 * PI * sum((h[p] * r[p] for p in range(3)), Rat.const(0))
            c = N.ref("cos(p)", {"p": phase})
            s = N.ref("sin(p)", {"p": phase})
            if typ == "Uiso":
                dw = N.ref("exp(-8*pi**2*U*stl**2)", {"pi": PI, "U": Rat.atom("U_%s" % tag), "stl": stl})
            elif typ == "Uani":
                # beta' = R beta R^T  (image atom);  exponent h beta' h
                if adp_law == "RbRt":
                    br = [[sum((R[p][m] * beta[m][n_] * R[q][n_] for m in range(3) for n_ in range(3)), Rat.const(0))
                           for q in range(3)] for p in range(3)]
                else:   # R beta R (the form that is wrong for non-symmetric R)
                    br = [[sum((R[p][m] * beta[m][n_] * R[n_][q] for m in range(3) for n_ in range(3)), Rat.const(0))
                           for q in range(3)] for p in range(3)]
                e = sum((h[p] * br[p][q] * h[q] for p in range(3) for q in range(3)), Rat.const(0))
                dw = N.ref("exp(-e)", {"e": e})
            else:
                dw = Rat.const(1)
            Fr = Fr + dw * (c * (f + fp) - s * fpp) * w
            Fi = Fi + dw * (s * (f + fp) + c * fpp) * w
    return Fr, Fi
