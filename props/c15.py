"""
C15 -- site multiplicity equals the number of symmetry-equivalent positions in the cell.

 image      E3: the i-th image is R_i x + t_i (the tabulated rotation acts on the position
            column from the left) for symbolic R, t, x
 lattice    the predicate that identifies two images is evaluated in a small abstract domain
            (each component of the difference is an integer, an integer +- a rounding error,
            or a genuine fraction): it must hold for all 27 near-integer patterns and fail as
            soon as one component is a genuine fraction -- i.e. it must be a TWO-SIDED distance
            to the lattice
 tolerance  its literal lies in [1e-5, 1e-2]
 loop       every image i >= 1 is compared with every current representative and appended
            exactly when none matches; all nsymop operations are used
 dispatch   by name and by number/setting reach sg.sg with the caller's cell_choice
"""
import ast
import itertools

from xfabsa import core, numeric as N
from xfabsa.core import AnalysisError
from xfabsa.poly import Rat
from xfabsa.symeval import Evaluator, sym_array, Arr, Opaque, Obj, scalar, materialise

TOL_MIN, TOL_MAX = 1e-5, 1e-2


# --------------------------------------------------------------------------
# abstract domain for "distance to the lattice"
# --------------------------------------------------------------------------
ORDER = {"0": 0, "eps": 1, "mid": 2, "1-eps": 3, "one": 4}


class Cancel(Exception):
    pass


class LatticeDomain:
    """abstract evaluation of a predicate over the difference vector t"""

    def __init__(self, mod, tname, pattern):
        self.mod = mod
        self.tname = tname
        self.pattern = pattern      # per component: '0', '+', '-', 'f'
        self.tol = None

    def ev(self, node):
        m = getattr(self, "v_" + type(node).__name__, None)
        if m is None:
            raise AnalysisError("lattice predicate: unsupported construct %s (`%s`)" % (type(node).__name__, core.unparse(node)[:50]))
        return m(node)

    def v_Name(self, node):
        if node.id == self.tname:
            return ("vec", [("raw", d) for d in self.pattern])
        raise AnalysisError("lattice predicate mentions `%s`" % node.id)

    def v_Constant(self, node):
        return ("num", float(node.value))

    def npname(self, f):
        if isinstance(f, ast.Attribute) and isinstance(f.value, ast.Name) and f.value.id in self.mod.np_alias:
            return f.attr
        if isinstance(f, ast.Name) and f.id in ("abs", "sum", "max", "min", "all", "any", "round"):
            return f.id
        if isinstance(f, ast.Attribute):
            return "." + f.attr
        return None

    def lift(self, fn, v):
        if v[0] == "vec":
            return ("vec", [fn(x) for x in v[1]])
        return fn(v)

    def v_Call(self, node):
        name = self.npname(node.func)
        args = [self.ev(a) for a in node.args]
        if name and name.startswith("."):
            args = [self.ev(node.func.value)] + args
            name = name[1:]
        if name == "mod" and len(args) == 2 and args[1] == ("num", 1.0):
            return self.lift(lambda x: self.mod1(x), args[0])
        if name in ("round", "rint", "around") and len(args) == 1:
            return self.lift(lambda x: ("int_of", x[1]) if x[0] == "raw" else self.bad("round of %r" % (x,)), args[0])
        if name in ("abs", "absolute", "fabs") and len(args) == 1:
            return self.lift(self.abs_, args[0])
        if name == "minimum" and len(args) == 2:
            return self.zip2(self.min_, args[0], args[1])
        if name in ("sum",) and len(args) == 1:
            return self.sum_(args[0])
        if name in ("max", "amax") and len(args) == 1:
            return self.max_(args[0])
        if name in ("all",) and len(args) == 1:
            v = args[0]
            if v[0] == "vec" and all(x[0] == "bool" for x in v[1]):
                return ("bool", all(x[1] for x in v[1]))
        if name == "allclose" and len(args) == 2:
            atol = 1e-8
            for k in node.keywords:
                if k.arg == "atol":
                    atol = float(ast.literal_eval(k.value))
                elif k.arg == "rtol":
                    pass
            self.tol = atol
            d = self.zip2(self.sub_, args[0], args[1])
            d = self.lift(self.abs_, d)
            return ("bool", all(self.small(x) for x in d[1]))
        if name == "norm" or (isinstance(node.func, ast.Attribute) and node.func.attr == "norm"):
            return self.sum_(self.lift(self.abs_, args[0]))
        raise AnalysisError("lattice predicate: unsupported call `%s`" % core.unparse(node)[:60])

    def bad(self, what):
        raise AnalysisError("lattice predicate: %s" % what)

    def mod1(self, x):
        if x[0] == "raw":
            return ("mag", {"0": "0", "+": "eps", "-": "1-eps", "f": "mid"}[x[1]])
        if x[0] == "mag" and x[1] in ("0", "eps", "mid", "1-eps"):
            return x
        if x[0] == "shift":      # raw + 0.5
            return ("mag", {"0": "mid", "+": "mid", "-": "mid", "f": "any"}[x[1]])
        self.bad("mod of %r" % (x,))

    def abs_(self, x):
        if x[0] == "mag":
            return ("mag", {"-eps": "eps", "smid": "mid"}.get(x[1], x[1]))
        self.bad("abs of %r" % (x,))

    def min_(self, a, b):
        if a[0] == "mag" and b[0] == "mag" and a[1] in ORDER and b[1] in ORDER:
            return a if ORDER[a[1]] <= ORDER[b[1]] else b
        self.bad("minimum of %r and %r" % (a, b))

    def sub_(self, a, b):
        if a[0] == "raw" and b[0] == "int_of" and a[1] == b[1]:
            return ("mag", {"0": "0", "+": "eps", "-": "-eps", "f": "smid"}[a[1]])
        if a[0] == "num" and a[1] == 1.0 and b[0] == "mag":
            return ("mag", {"0": "one", "eps": "1-eps", "1-eps": "eps", "mid": "mid"}[b[1]])
        self.bad("difference %r - %r" % (a, b))

    def zip2(self, fn, a, b):
        if a[0] == "vec" and b[0] == "vec":
            return ("vec", [fn(x, y) for x, y in zip(a[1], b[1])])
        if a[0] == "vec":
            return ("vec", [fn(x, b) for x in a[1]])
        if b[0] == "vec":
            return ("vec", [fn(a, y) for y in b[1]])
        return fn(a, b)

    def small(self, x):
        if x[0] == "mag":
            if x[1] in ("0", "eps"):
                return True
            if x[1] in ("mid", "1-eps", "one"):
                return False
            if x[1] == "-eps":
                return True       # a negative rounding error is below any positive tolerance (one-sided!)
            raise Cancel("signed value %s compared with the tolerance" % x[1])
        if x[0] == "agg":
            return x[1] == "small"
        self.bad("comparison of %r" % (x,))

    def sum_(self, v):
        if v[0] != "vec":
            self.bad("sum of a scalar")
        tags = [x[1] for x in v[1] if x[0] == "mag"]
        if len(tags) != len(v[1]):
            self.bad("sum of %r" % (v,))
        if any(t in ("smid",) for t in tags):
            raise Cancel("signed mid-range residuals are summed without abs(): they can cancel")
        if any(t in ("mid", "1-eps", "one", "any") for t in tags):
            return ("agg", "large")
        return ("agg", "small")      # 0, eps, -eps only

    def max_(self, v):
        return self.sum_(v)

    def v_BinOp(self, node):
        if isinstance(node.op, ast.Sub):
            return self.zip2(self.sub_, self.ev(node.left), self.ev(node.right))
        if isinstance(node.op, ast.Add):
            a, b = self.ev(node.left), self.ev(node.right)
            if b == ("num", 0.5):
                return self.lift(lambda x: ("shift", x[1]) if x[0] == "raw" else self.bad("shift"), a)
        raise AnalysisError("lattice predicate: unsupported arithmetic `%s`" % core.unparse(node)[:60])

    def v_Compare(self, node):
        if len(node.ops) != 1 or not isinstance(node.ops[0], (ast.Lt, ast.LtE)):
            raise AnalysisError("lattice predicate: comparison `%s`" % core.unparse(node)[:60])
        left = self.ev(node.left)
        right = self.ev(node.comparators[0])
        if right[0] != "num":
            raise AnalysisError("lattice predicate: tolerance is not a literal")
        self.tol = right[1]
        if left[0] == "vec":
            return ("vec", [("bool", self.small(x)) for x in left[1]])
        return ("bool", self.small(left))


def run(ctx):
    from xfabsa import numeric as _N
    _N.alias_rule(ctx, 'C15', ['xfab/structure.py', 'xfab/sg.py'])
    ctx.rule("image", "image i == R_i . x + t_i (E3, symbolic R, t, x)")
    ctx.rule("lattice", "identification predicate is true on all 27 near-integer patterns and false when a component is a fraction")
    ctx.rule("tolerance", "tolerance literal within [1e-5, 1e-2]")
    ctx.rule("loop", "compare image i with every current representative; append exactly when none matches; all nsymop used")
    ctx.rule("dispatch", "sg.sg(sgname=.., cell_choice=cell_choice) / sg.sg(sgno=.., cell_choice=cell_choice) / ValueError")
    mod = core.module("xfab/structure.py")
    fn = mod.func("multiplicity")
    ctx.saw(mod, fn)
    where = core.loc(mod, fn)
    body = core.body_wo_doc(fn)
    # ---- dispatch
    disp = body[0] if body and isinstance(body[0], ast.If) else None
    okd = False
    if disp is not None:
        def sgcall(st, kw):
            if not (isinstance(st, ast.Assign) and isinstance(st.value, ast.Call)):
                return False
            c = st.value
            f = c.func
            if not (isinstance(f, ast.Attribute) and f.attr == "sg" and isinstance(f.value, ast.Name)
                    and mod.imports.get(f.value.id) == "xfab.sg"):
                return False
            k = {x.arg: x.value for x in c.keywords}
            return (not c.args and set(k) == {kw, "cell_choice"} and isinstance(k[kw], ast.Name) and k[kw].id == kw
                    and isinstance(k["cell_choice"], ast.Name) and k["cell_choice"].id == "cell_choice")
        a1 = len(disp.body) == 1 and sgcall(disp.body[0], "sgname")
        e = disp.orelse[0] if len(disp.orelse) == 1 and isinstance(disp.orelse[0], ast.If) else None
        a2 = e is not None and len(e.body) == 1 and sgcall(e.body[0], "sgno")
        a3 = e is not None and len(e.orelse) == 1 and isinstance(e.orelse[0], ast.Raise) and \
            getattr(getattr(e.orelse[0].exc, "func", None), "id", "") == "ValueError"
        same_target = a1 and a2 and disp.body[0].targets[0].id == e.body[0].targets[0].id
        okd = a1 and a2 and a3 and same_target
    ctx.check(okd, "C15:dispatch:multiplicity",
              "the group is not obtained as sg.sg(sgname=sgname, cell_choice=cell_choice) / sg.sg(sgno=sgno, cell_choice=cell_choice) "
              "(ValueError when neither is given)", where)
    sgvar = disp.body[0].targets[0].id if okd else "mysg"
    # ---- image expression: the array whose rows are compared (`t = lp[i] - rep[j]`) is either filled row by row in a loop
    # over range(nsymop) or computed in one vectorised expression
    lpname = None
    for n_ in ast.walk(fn):
        if isinstance(n_, ast.Assign) and isinstance(n_.value, ast.BinOp) and isinstance(n_.value.op, ast.Sub) \
                and isinstance(n_.value.left, ast.Subscript) and isinstance(n_.value.right, ast.Subscript) \
                and isinstance(n_.value.left.value, ast.Name) and isinstance(n_.value.right.value, ast.Name):
            lpname = n_.value.left.value.id
    if lpname is None:
        raise AnalysisError("multiplicity: difference of two images `t = lp[i] - rep[j]` not found")
    x = sym_array("position", (3,))
    sgo = Obj("mysg", nsymop=Rat.const(2), rot=sym_array("R", (2, 3, 3)), trans=sym_array("t", (2, 3)), nuniq=Rat.const(1))
    pname = fn.args.args[0].arg
    img_rows = None          # list of 3-vectors (normal forms), one per operation
    img_node = None
    loop = None
    for node in ast.walk(fn):
        if isinstance(node, ast.For) and core.unparse(node.iter).replace(" ", "") == "range(%s.nsymop)" % sgvar:
            for st in node.body:
                if isinstance(st, ast.Assign) and isinstance(st.targets[0], ast.Subscript) \
                        and isinstance(st.targets[0].value, ast.Name) and st.targets[0].value.id == lpname:
                    ivar = node.target.id
                    if core.unparse(st.targets[0].slice).replace(" ", "").strip("()") not in ("%s,:" % ivar, ivar):
                        raise AnalysisError("multiplicity: image store `%s` is not a row store" % core.unparse(st.targets[0]))
                    rows = []
                    for k in range(2):
                        val = Evaluator(mod, inline=set()).eval(st.value, {pname: x, sgvar: sgo, ivar: Rat.const(k)})
                        V = val if isinstance(val, Arr) else materialise(val)
                        if V is None or V.shape != (3,):
                            raise AnalysisError("multiplicity: image expression is not a 3-vector")
                        rows.append([scalar(v) for v in V.data])
                    img_rows, img_node, loop = rows, st, node
    if img_rows is None:
        cands = [n_ for n_ in core.body_wo_doc(fn) if isinstance(n_, ast.Assign) and isinstance(n_.targets[0], ast.Name)
                 and n_.targets[0].id == lpname and not (isinstance(n_.value, ast.Call) and getattr(n_.value.func, "attr", "") in ("zeros", "empty"))]
        if len(cands) != 1:
            raise AnalysisError("multiplicity: neither a row-by-row loop over range(%s.nsymop) nor one vectorised assignment fills `%s`" % (sgvar, lpname))
        val = Evaluator(mod, inline=set()).eval(cands[0].value, {pname: x, sgvar: sgo})
        V = val if isinstance(val, Arr) else materialise(val)
        if V is None or V.shape != (2, 3):
            raise AnalysisError("multiplicity: vectorised image expression does not evaluate to one row per operation")
        img_rows = [[scalar(v) for v in row] for row in V.data]
        img_node = cands[0]
    ok = True
    transposed = True
    for k in range(2):
        want = [sum((Rat.atom("R[%d,%d,%d]" % (k, p, q)) * Rat.atom("position[%d]" % q) for q in range(3)), Rat.const(0))
                + Rat.atom("t[%d,%d]" % (k, p)) for p in range(3)]
        wrong = [sum((Rat.atom("position[%d]" % q) * Rat.atom("R[%d,%d,%d]" % (k, q, p)) for q in range(3)), Rat.const(0))
                 + Rat.atom("t[%d,%d]" % (k, p)) for p in range(3)]
        ok = ok and all(g.equals(w) for g, w in zip(img_rows[k], want))
        transposed = transposed and all(g.equals(w) for g, w in zip(img_rows[k], wrong))
    which = " (it is x.R + t: the transposed rotation acts on the position, wrong for every non-symmetric rotation matrix)" \
        if (not ok and transposed) else ""
    ctx.check(ok, "C15:image:multiplicity", "image i is not rot[i].position + trans[i]%s" % which, core.loc(mod, img_node),
              sample={"image_expression": core.unparse(img_node.value)})
    # ---- comparison loop
    cmp_loop = None
    for node in core.body_wo_doc(fn):
        if isinstance(node, ast.For) and node is not loop and any(isinstance(x_, ast.For) for x_ in node.body):
            cmp_loop = node
    if cmp_loop is None:
        raise AnalysisError("multiplicity: comparison loop not found")
    inner = [x_ for x_ in cmp_loop.body if isinstance(x_, ast.For)][0]
    outer_rng = core.unparse(cmp_loop.iter).replace(" ", "")
    ok_outer = outer_rng in ("range(1,%s.nsymop)" % sgvar, "range(%s.nsymop)" % sgvar)
    # inner: for j in range(multi): t = lp[i]-lpu[j]; if pred: break; else: if j == multi-1: append; multi += 1
    ok_inner = False
    pred = tname = None
    cnt = None
    if isinstance(inner.iter, ast.Call) and getattr(inner.iter.func, "id", "") == "range" and len(inner.iter.args) == 1 \
            and isinstance(inner.iter.args[0], ast.Name):
        cnt = inner.iter.args[0].id
        jv = inner.target.id
        ib = inner.body
        if len(ib) == 2 and isinstance(ib[0], ast.Assign) and isinstance(ib[1], ast.If):
            tname = ib[0].targets[0].id
            diff = core.unparse(ib[0].value).replace(" ", "")
            iv = cmp_loop.target.id
            m_ = [s_ for s_ in diff.replace("[", " ").replace("]", " ").replace("-", " ").split()]
            okdiff = isinstance(ib[0].value, ast.BinOp) and isinstance(ib[0].value.op, ast.Sub) and \
                diff.startswith("%s[%s" % (lpname, iv)) and ("[%s" % jv) in diff.split("-", 1)[1]
            repname = diff.split("-", 1)[1].split("[")[0]
            branch = ib[1]
            pred = branch.test
            brk = len(branch.body) == 1 and isinstance(branch.body[0], ast.Break)
            app = False
            # else: if j == multi-1: append + count  |  for-else
            tail = branch.orelse
            if len(tail) == 1 and isinstance(tail[0], ast.If) and \
                    core.unparse(tail[0].test).replace(" ", "") == "%s==%s-1" % (jv, cnt) and not tail[0].orelse:
                tb = tail[0].body
                txt = " ".join(core.unparse(s_) for s_ in tb).replace(" ", "")
                app = ("%s=" % repname in txt and "concatenate" in txt and "%s[%s" % (lpname, iv) in txt
                       and ("%s+=1" % cnt in txt or "%s=%s+1" % (cnt, cnt) in txt) and len(tb) == 2)
            elif not tail and inner.orelse:
                txt = " ".join(core.unparse(s_) for s_ in inner.orelse).replace(" ", "")
                app = ("%s=" % repname in txt and "%s[%s" % (lpname, iv) in txt
                       and ("%s+=1" % cnt in txt or "%s=%s+1" % (cnt, cnt) in txt) and len(inner.orelse) == 2)
            ok_inner = okdiff and brk and app
    ctx.check(ok_outer and ok_inner, "C15:loop:multiplicity",
              "comparison loop is not `for i in range(1, nsymop): for j in range(count): t = lp[i]-rep[j]; if <same>: break; "
              "else: if j == count-1: append lp[i]; count += 1` (outer range `%s`)" % outer_rng, core.loc(mod, cmp_loop))
    # returned value is the counter
    rets = [n_ for n_ in ast.walk(fn) if isinstance(n_, ast.Return)]
    ctx.check(len(rets) == 1 and isinstance(rets[0].value, ast.Name) and rets[0].value.id == cnt, "C15:loop:returns-count",
              "multiplicity does not return the number of representatives", where)
    # ---- lattice predicate
    if pred is None:
        raise AnalysisError("multiplicity: identification predicate not found")
    verdicts = {}
    tol = None
    cancel = None
    for pat in itertools.product("0+-f", repeat=3):
        dom = LatticeDomain(mod, tname, pat)
        try:
            r = dom.ev(pred)
        except Cancel as e:
            cancel = str(e)
            break
        if r[0] != "bool":
            raise AnalysisError("lattice predicate does not evaluate to a truth value")
        verdicts[pat] = r[1]
        tol = dom.tol if dom.tol is not None else tol
    if cancel:
        ctx.fail("C15:lattice:multiplicity", "identification predicate is unsound: %s" % cancel, core.loc(mod, pred))
    else:
        miss = [p for p, v in verdicts.items() if ("f" not in p) and not v]
        extra = [p for p, v in verdicts.items() if ("f" in p) and v]
        msg = ""
        if miss:
            msg = ("equal-modulo-lattice images are NOT identified when a component of the difference is %s "
                   "(%d of 27 near-integer patterns fail): the distance to the lattice is one-sided"
                   % ("an integer minus a rounding error" if any("-" in p for p in miss) else "near an integer", len(miss)))
        if extra:
            msg += " distinct images are identified for %d patterns with a fractional component" % len(extra)
        ctx.check(not miss and not extra, "C15:lattice:multiplicity", msg, core.loc(mod, pred),
                  sample={"predicate": core.unparse(pred), "patterns": 64, "near_integer_accepted": 27 - len(miss)})
        ctx.check(tol is not None and TOL_MIN <= tol <= TOL_MAX, "C15:tolerance:multiplicity",
                  "tolerance %s outside [%g, %g]: must exceed the accumulated 1e-6 rounding of tabulated thirds and stay below "
                  "the smallest distance between distinct special positions" % (tol, TOL_MIN, TOL_MAX), core.loc(mod, pred))
    ctx.not_decided += ["the choice of the tolerance inside its window is numerical",
                        "that the count equals nsymop / |site symmetry| follows on paper from C04 (group) and these rules"]
    ctx.assumptions += ["C04", "numpy mod/round/abs/sum semantics"]
    return ("multiplicity decided by parts: the image expression by E3 on symbolic operations (R x + t), the identification "
            "predicate by abstract evaluation on all 64 integer/rounding/fraction patterns of the difference vector, the "
            "tolerance literal, the compare-with-every-representative loop shape, and the by-name/by-number dispatch.")
