"""
C15 -- site multiplicity equals the number of symmetry-equivalent positions in the cell.

`multiplicity` is *evaluated* (E7) on small model groups; tolerance comparisons are decided in the interval domain
(xfabsa/intervals.py) from bounds of the symbolic quantities -- "an integer plus a rounding error of at most 1e-6",
"a genuine fraction" -- so the code may compute the images, the distance to the lattice and the count in any way.

 lattice    two operations whose images differ by (integer | integer +- rounding error | genuine fraction) per component,
            all 64 patterns: one site exactly when no component is a genuine fraction (a TWO-SIDED distance)
 loop       four operations, all 15 partitions into classes of lattice-equivalent images: the count is the number of classes
 image      the group {1, 3-fold} on the special position (1/3, 2/3, z): one site for R.x + t, two for x.R + t
 tolerance  every tolerance literal met lies in [1e-5, 1e-2]
 dispatch   sg.sg receives the caller's name / number and cell_choice; ValueError when neither is given; the result of a
            call does not depend on the calls made before it (group objects cached under a colliding key)
"""
import ast
import itertools
from fractions import Fraction

from xfabsa import core, numeric as N
from xfabsa.core import AnalysisError
from xfabsa.poly import Rat
from xfabsa.symeval import Arr, Obj, RaiseReached, scalar, const_int
from xfabsa.objeval import ObjEvaluator, PyRaise, exc_name_of, okey
from xfabsa.intervals import ieval, Unbounded

TOL_MIN, TOL_MAX = 1e-5, 1e-2
NODE = ast.Constant(value=0)
NODE.lineno = 0
I3 = [[1, 0, 0], [0, 1, 0], [0, 0, 1]]
ERR = (Fraction(1, 10 ** 9), Fraction(1, 10 ** 6))       # magnitude of an accumulated rounding error of a tabulated third
ERR_ENDS = ((Fraction(9, 10 ** 7), Fraction(1, 10 ** 6)), (Fraction(1, 10 ** 9), Fraction(2, 10 ** 9)))   # its two ends (a tolerance test is monotone in it)


def rc(x):
    return x if isinstance(x, Rat) else Rat.const(x)


class Session:
    """one process: an evaluator of xfab/structure.py whose sg.sg is a model returning `groups(kwargs)`"""

    def __init__(self, mod, groups, bounds=None):
        self.mod = mod
        self.groups = groups
        self.bounds = dict(bounds or {})
        self.sg_calls = []
        self.tolerances = []
        self.relative_guards = []
        self.ev = ObjEvaluator(mod, inline=set(), import_policy=self.ipol, max_depth=10)
        self.ev.threshold_policy = self.threshold
        self.ev.threshold_max = Fraction(1, 2)          # any literal a distance to the lattice is compared with
        self.ev.close_policy = self.close
        self.sgmod = core.module("xfab/sg.py")
        self._sgconst = {}

    def ipol(self, name, args, kwargs, node):
        if name == "xfab.sg.sg":
            init = self.sgmod.method("sg", "__init__")
            params = [a.arg for a in init.args.args][1:]
            bound = {}
            for p, a in zip(params, args):
                bound[p] = a
            for k, v in kwargs.items():
                if k not in params or k in bound:
                    raise PyRaise("TypeError", node, "sg.sg() got an unexpected / repeated argument %s" % k)
                bound[k] = v
            for p, d in zip(params[len(params) - len(init.args.defaults):], init.args.defaults):
                bound.setdefault(p, ast.literal_eval(d))
            self.sg_calls.append(dict(bound))
            return self.groups(bound, self)
        return NotImplemented

    def group(self, ops, tag="g"):
        """ops: [(3x3 rotation, 3-vector translation)] with numbers / normal forms"""
        o = self.ev.new_obj("mysg")
        o.attrs.update(name="SGNAME", no=Rat.atom("sg.no"), crystal_system="<crystal system>", Laue="<Laue class>", cell_choice="standard",
                       nsymop=Rat.const(len(ops)), nuniq=Rat.const(len(ops)),
                       rot=Arr([[[rc(x) for x in row] for row in R] for R, _t in ops]),
                       trans=Arr([[rc(x) for x in t] for _R, t in ops]))
        return o

    def threshold(self, q, t, node):
        self.tolerances.append((float(t), node))
        try:
            lo, hi = ieval(q, self.bounds)
        except Unbounded as e:
            raise AnalysisError("the quantity compared with the tolerance %g cannot be enclosed on the abstract input: %s" % (float(t), e))
        if hi < t:
            return True
        if lo > t:
            return False
        raise AnalysisError("tolerance comparison undecided on the abstract input: [%.3g, %.3g] against %g" % (float(lo), float(hi), float(t)))

    def close(self, guard):
        """numpy.allclose(a, b): every |a - b| <= atol + rtol*|b|, decided in the interval domain"""
        if guard["pairs"] is None:
            raise AnalysisError("allclose on values that are not explicit (%s)" % guard["text"])
        self.tolerances.append((float(max(guard["rtol"], guard["atol"])), NODE))
        self.relative_guards.append(guard)
        verdict = True
        for a, b in guard["pairs"]:
            try:
                dlo, dhi = ieval(a - b, self.bounds)
                blo, bhi = ieval(b, self.bounds)
            except Unbounded as e:
                raise AnalysisError("allclose cannot be enclosed on the abstract input: %s" % e)
            dmax, dmin = max(abs(dlo), abs(dhi)), (0 if dlo <= 0 <= dhi else min(abs(dlo), abs(dhi)))
            bmin, bmax = (0 if blo <= 0 <= bhi else min(abs(blo), abs(bhi))), max(abs(blo), abs(bhi))
            if dmax <= guard["atol"] + guard["rtol"] * bmin:
                continue                      # certainly close
            if dmin > guard["atol"] + guard["rtol"] * bmax:
                verdict = False               # certainly not close
                continue
            raise AnalysisError("allclose undecided on the abstract input: |a-b| in [%.3g, %.3g] against atol=%g + rtol=%g*|b|, |b| in [%.3g, %.3g]"
                                % (float(dmin), float(dmax), float(guard["atol"]), float(guard["rtol"]), float(bmin), float(bmax)))
        return verdict

    def call(self, position, **kw):
        try:
            out = self.ev.call_function("multiplicity", [Arr([rc(x) for x in position])], dict(kw))
        except (PyRaise, RaiseReached) as e:
            return "raise", exc_name_of(e)
        ci = const_int(out) if not isinstance(out, bool) else None
        if ci is None:
            raise AnalysisError("multiplicity does not evaluate to an integer on the model group (%s)" % okey(out))
        return "ok", ci


def partitions(n):
    """restricted growth strings: class index of each of n images, classes numbered by first occurrence"""
    def rec(prefix, mx):
        if len(prefix) == n:
            yield tuple(prefix)
            return
        for k in range(mx + 2):
            yield from rec(prefix + [k], max(mx, k))
    yield from rec([0], 0)


def run(ctx):
    from xfabsa import numeric as _N
    _N.alias_rule(ctx, 'C15', ['xfab/structure.py', 'xfab/sg.py'])
    from props import sgobject
    sgobject.rule(ctx, "C15", "multiplicity reads rot, trans and nsymop of this object")
    ctx.rule("lattice", "two images differing by integer / integer +- rounding / fraction per component (64 patterns): one site iff no fraction")
    ctx.rule("loop", "four operations, all 15 partitions into lattice-equivalence classes: count == number of classes")
    ctx.rule("image", "group {1, 3} on (1/3, 2/3, z): one site (R.x + t); the transposed action would give two")
    ctx.rule("tolerance", "tolerance literals within [1e-5, 1e-2]")
    ctx.rule("dispatch", "sg.sg gets the caller's name / number and cell_choice; ValueError without either; no dependence on earlier calls")
    mod = core.module("xfab/structure.py")
    fn = mod.func("multiplicity")
    ctx.saw(mod, fn)
    where = core.loc(mod, fn)
    pos_atoms = [Rat.atom("x%d" % c) for c in range(3)]
    pos_bounds = {"x0": (Fraction(11, 100), Fraction(12, 100)), "x1": (Fraction(27, 100), Fraction(28, 100)), "x2": (Fraction(6, 100), Fraction(7, 100))}
    tolerances = []
    # ---- lattice predicate: 64 patterns
    miss, extra, relative = [], [], False
    # (the integer part of the difference is 1, -2, 3 or 0, 0, 0: the images lie in different cells or in the same cell)
    for pat, cells, err in itertools.product(itertools.product("0+-f", repeat=3), ((1, -2, 3), (0, 0, 0)), ERR_ENDS):
        if err is not ERR_ENDS[0] and not any(d in "+-" for d in pat):
            continue
        bounds = dict(pos_bounds)
        v = []
        for c, d in enumerate(pat):
            base = Rat.const(cells[c])
            if d == "0":
                v.append(base)
            elif d in "+-":
                bounds["e%d" % c] = err
                v.append(base + Rat.atom("e%d" % c) * (1 if d == "+" else -1))
            else:
                bounds["f%d" % c] = (Fraction(3, 10), Fraction(4, 10))
                v.append(base + Rat.atom("f%d" % c))
        s = Session(mod, lambda kw, ses, v=v: ses.group([(I3, [0, 0, 0]), (I3, v)]), bounds)
        kind, got = s.call(pos_atoms, sgname="P1")
        tolerances += s.tolerances
        want = 2 if "f" in pat else 1
        if kind != "ok":
            raise AnalysisError("multiplicity raises %s on a two-operation model group" % got)
        if got != want and (pat, cells) not in miss and (pat, cells) not in extra:
            (extra if "f" in pat else miss).append((pat, cells))
            relative = relative or bool(s.relative_guards)
    msg = ""
    if miss:
        same_cell_only = all(c_ == (0, 0, 0) for _p, c_ in miss)
        msg = ("equal-modulo-lattice images are NOT identified when a component of the difference is %s "
               "(%d of 54 near-integer patterns fail)%s"
               % ("an integer minus a rounding error" if any("-" in p for p, _c in miss) else "near an integer", len(miss),
                  ": only when the two images lie in the same cell -- the tolerance is relative to the lattice shift (allclose: 1e-8 "
                  "absolute at shift 0), narrower than the 1e-6 rounding of tabulated thirds" if same_cell_only and relative
                  else ": the distance to the lattice is one-sided"))
    if extra:
        msg += " distinct images are identified for %d patterns with a fractional component" % len(extra)
    ctx.check(not miss and not extra, "C15:lattice:multiplicity", msg, where,
              sample={"patterns": 128, "near_integer_accepted": 54 - len(miss), "fraction_rejected": 74 - len(extra)})
    # ---- counting loop: all partitions of four images
    # (one of the classes may be the class of the lattice points themselves -- the images of that class are integer vectors, as
    #  for the position (1/2, 1/2, 0) under a C-centring: the value an untouched work array holds)
    bad, fnotes = [], []
    nruns = 0
    for part in partitions(4):
        for origin in [None] + list(range(max(part) + 1)):
            bounds = dict(pos_bounds)
            ops = []
            for i, k in enumerate(part):
                t = []
                for c in range(3):
                    fa = "F%d%d" % (k, c)
                    bounds[fa] = (Fraction(10 + 10 * k, 100), Fraction(11 + 10 * k, 100))
                    ea = "e%d%d" % (i, c)
                    bounds[ea] = ERR
                    sign = 1 if (i + c) % 2 else -1
                    frac = Rat.atom(fa) if k != origin else -pos_atoms[c]
                    t.append(frac + Rat.const((i, -i, 2 * i)[c]) + (Rat.atom(ea) * sign if i else Rat.const(0)))
                ops.append((I3, t))
            s = Session(mod, lambda kw, ses, ops=ops: ses.group(ops), bounds)
            kind, got = s.call(pos_atoms, sgno=Rat.const(1))
            nruns += 1
            tolerances += s.tolerances
            if kind != "ok" or got != max(part) + 1:
                bad.append((part, got, origin))
                fnotes += getattr(s.ev, "float_notes", [])
    ctx.check(not bad, "C15:loop:multiplicity",
              "with the images in the classes %s (same number = equal modulo the lattice%s) multiplicity returns %s, not the number of "
              "classes%s" % (bad[0][0] if bad else "", ("; class %d consists of lattice points" % bad[0][2]) if bad and bad[0][2] is not None else "",
                             bad[0][1] if bad else "",
                             (" (line %d: `%s` is %s in exact arithmetic, its binary floating-point value is truncated to %s)" % fnotes[0]) if fnotes else
                             ": every image must be compared with every representative and appended exactly when none matches"), where,
              sample={"partitions_of_4": 15, "runs": nruns, "wrong": len(bad)})
    # ---- six images: class sizes 3 and 6 occur (site symmetries of order 3 and 6); every shape of partition, and interleaved orders
    six = [(0, 0, 0, 0, 0, 0), (0, 0, 0, 0, 0, 1), (0, 0, 0, 0, 1, 1), (0, 0, 0, 1, 1, 1), (0, 0, 0, 0, 1, 2), (0, 0, 0, 1, 1, 2),
           (0, 0, 1, 1, 2, 2), (0, 0, 0, 1, 2, 3), (0, 0, 1, 1, 2, 3), (0, 0, 1, 2, 3, 4), (0, 1, 2, 3, 4, 5),
           (0, 1, 0, 1, 0, 1), (0, 1, 2, 0, 1, 2), (0, 1, 1, 0, 1, 0)]
    if ctx.tier != "quick":
        six = list(partitions(6))
    bad6, notes = [], []
    for part in six:
        bounds = dict(pos_bounds)
        ops = []
        for i, k in enumerate(part):
            t = []
            for c in range(3):
                fa = "F%d%d" % (k, c)
                bounds[fa] = (Fraction(100 + 70 * k, 1000), Fraction(105 + 70 * k, 1000))
                ea = "e%d%d" % (i, c)
                bounds[ea] = ERR
                sign = 1 if (i + c) % 2 else -1
                t.append(Rat.atom(fa) + Rat.const((i, -i, 2 * i)[c]) + (Rat.atom(ea) * sign if i else Rat.const(0)))
            ops.append((I3, t))
        s = Session(mod, lambda kw, ses, ops=ops: ses.group(ops), bounds)
        kind, got = s.call(pos_atoms, sgno=Rat.const(1))
        if kind != "ok" or got != max(part) + 1:
            bad6.append((part, got))
            notes += getattr(s.ev, "float_notes", [])
    why6 = ""
    if notes:
        ln, txt, exact, binary = notes[0]
        why6 = (" (line %d: `%s` is %s in exact arithmetic but the binary floating-point value lies just below it and is truncated to %s)"
                % (ln, txt, exact, binary))
    ctx.check(not bad6, "C15:loop:six-images",
              "with six images in the classes %s (same number = equal modulo the lattice) multiplicity returns %s, not the number of classes%s"
              % (bad6[0][0] if bad6 else "", bad6[0][1] if bad6 else "", why6), where, sample={"partitions_of_6": len(six), "wrong": len(bad6)})
    # ---- how the rotation acts: 3-fold axis of the hexagonal frame, special position on it
    A = [[0, -1, 0], [1, -1, 0], [0, 0, 1]]
    s = Session(mod, lambda kw, ses: ses.group([(I3, [0, 0, 0]), (A, [0, 0, 0])]), {"z": (Fraction(1, 10), Fraction(2, 10))})
    kind, got = s.call([Fraction(1, 3), Fraction(2, 3), Rat.atom("z")], sgname="P1")
    tolerances += s.tolerances
    which = " (it is x.R + t: the transposed rotation acts on the position, wrong for every non-symmetric rotation matrix)" if got == 2 else ""
    ctx.check(kind == "ok" and got == 1, "C15:image:multiplicity",
              "image i is not rot[i].position + trans[i]%s: the position (1/3, 2/3, z) on the 3-fold axis [[0,-1,0],[1,-1,0],[0,0,1]] "
              "gets multiplicity %s in the group {1, 3}" % (which, got), where, sample={"position": "(1/3, 2/3, z)", "multiplicity": got})
    # a position off the axis has two images
    s = Session(mod, lambda kw, ses: ses.group([(I3, [0, 0, 0]), (A, [0, 0, 0])]), pos_bounds)
    kind, got = s.call(pos_atoms, sgname="P1")
    ctx.check(kind == "ok" and got == 2, "C15:image:general-position", "a general position has %s image(s) under {1, 3}" % got, where)
    # ---- tolerance window
    tols = sorted({t for t, _n in tolerances})
    if not tols:
        raise AnalysisError("multiplicity: no tolerance comparison met on the model groups")
    ctx.check(all(TOL_MIN <= t <= TOL_MAX for t in tols), "C15:tolerance:multiplicity",
              "tolerance %s outside [%g, %g]: must exceed the accumulated 1e-6 rounding of tabulated thirds and stay below "
              "the smallest distance between distinct special positions" % (tols, TOL_MIN, TOL_MAX), where)
    # ---- dispatch
    def by_args(kw, ses):
        # a group whose size tells the requested setting apart
        key = (okey(kw.get("sgname")), okey(kw.get("sgno")), okey(kw.get("cell_choice")))
        sizes = ses.__dict__.setdefault("sizes", {})
        if key not in sizes:
            sizes[key] = GROUP_SIZE.get(key, 1 + len(sizes) % 3)
        n_ = sizes[key]
        return ses.group([(I3, [Fraction(k, 4), 0, 0]) for k in range(n_)])
    requests = [dict(sgname="R3", cell_choice="standard"), dict(sgname="R3r", cell_choice="standard"),
                dict(sgno=Rat.const(146), cell_choice="standard"), dict(sgno=Rat.const(146), cell_choice="rhombohedral"),
                dict(sgname="P 21/c", cell_choice="standard"), dict(sgname="p21/c", cell_choice="standard")]
    GROUP_SIZE = {}
    for k, r in enumerate(requests):
        GROUP_SIZE[(okey(r.get("sgname")), okey(r.get("sgno")), okey(r["cell_choice"]))] = (1, 2, 3, 2, 4, 4)[k]
    okd, why = True, ""
    fresh = {}
    for k, r in enumerate(requests):
        s = Session(mod, by_args, pos_bounds)
        kind, got = s.call(pos_atoms, **r)
        fresh[k] = (kind, got)
        sel = "sgname" if "sgname" in r else "sgno"
        good = kind == "ok" and len(s.sg_calls) == 1 and okey(s.sg_calls[0].get(sel)) == okey(r[sel]) \
            and okey(s.sg_calls[0].get("cell_choice")) == okey(r["cell_choice"]) \
            and s.sg_calls[0].get("sgno" if sel == "sgname" else "sgname") is None and got == (1, 2, 3, 2, 4, 4)[k]
        if not good and okd:
            okd, why = False, "called with %s, sg.sg received %s (result %s)" % (
                {a: okey(b) for a, b in r.items()}, [{a: okey(b) for a, b in c.items()} for c in s.sg_calls], (kind, got))
    s = Session(mod, by_args, pos_bounds)
    none = s.call(pos_atoms)
    if none != ("raise", "ValueError") and okd:
        okd, why = False, "without sgname and sgno the outcome is %s, not ValueError" % (none,)
    ctx.check(okd, "C15:dispatch:multiplicity",
              "the group is not obtained as sg.sg(sgname=sgname, cell_choice=cell_choice) / sg.sg(sgno=sgno, cell_choice=cell_choice) "
              "(ValueError when neither is given): %s" % why, where)
    # end to end: what multiplicity forwards (its own defaults included), read by the real constructor, is the table the user names
    def run_caller(user):
        s_ = Session(mod, by_args, pos_bounds)
        s_.call(pos_atoms, **user)
        return dict(s_.sg_calls[0]) if s_.sg_calls else None
    sgobject.dispatch_rule(ctx, "C15", "multiplicity", run_caller, where)
    hist = []
    for i, j in itertools.permutations(range(len(requests)), 2):
        s = Session(mod, by_args, pos_bounds)
        s.call(pos_atoms, **requests[i])
        second = s.call(pos_atoms, **requests[j])
        if second != fresh[j]:
            hist.append((i, j, second))
    ctx.check(not hist, "C15:dispatch:history",
              "the result for %s changes from %s to %s when %s was requested before it in the same process: group objects are shared "
              "under a key that does not determine the setting"
              % ({a: okey(b) for a, b in requests[hist[0][1]].items()} if hist else "", fresh[hist[0][1]] if hist else "",
                 hist[0][2] if hist else "", {a: okey(b) for a, b in requests[hist[0][0]].items()} if hist else ""), where,
              sample={"ordered_pairs": 30, "history_dependent": len(hist)})
    ctx.not_decided += ["the choice of the tolerance inside its window is numerical",
                        "that the count equals nsymop / |site symmetry| follows on paper from C04 (group) and these rules"]
    ctx.assumptions += ["C04", "numpy mod/round/abs/sum/max semantics (interval versions in xfabsa/intervals.py)",
                        "the code treats operations uniformly: model groups of 2, 4 and 6 operations stand for any group",
                        "truncating conversions are folded in IEEE double arithmetic where that can be done faithfully (xfabsa/floatshadow.py)"]
    from xfabsa import numeric as _NH
    _NH.hazard_rule(ctx, 'C15')
    return ("multiplicity evaluated by E7 on model groups with tolerance tests decided in the interval domain: all 64 "
            "integer/rounding/fraction patterns of the difference of two images, all 15 partitions of four images into lattice "
            "classes and every shape of partition of six images (truncations folded in binary floating point), the special position on a 3-fold axis (R.x versus x.R), the tolerance window, the sg.sg arguments for six "
            "requests with ValueError without any, and independence of all 30 ordered pairs of requests from each other.")
