"""
C10 -- detector pixel of a reflection lies on its scattered ray on the tilted detector.

E3: det_coor and det_coor2 are evaluated symbolically with R_tilt := the matrix
tools.detect_tilt builds (entries in cos/sin of the three tilts, so that
orthonormality is available as trigonometric identities in the normal form).
  same-ray   det_coor(Gt, cos 2theta, ...) with lambda/tau*Gt[1:] replaced by the (y,z) components of the unit ray
             equals det_coor2(2theta, eta, ...)
  on-ray     detector_to_lab(pixel) - grain position is parallel to the ray direction: cross product == 0
  in-plane   detector_to_lab(pixel) lies in the detector plane through (L,0,0) with normal R[:,0]
  det_v      det_v returns the direction det_coor uses
"""
from xfabsa import core, numeric as N, rotref as RR
from xfabsa.core import AnalysisError
from xfabsa.poly import Rat
import ast

from xfabsa.symeval import Evaluator, sym_array, Arr, Opaque, scalar, materialise, deep_subs


def vec(v, n):
    if isinstance(v, (list, tuple)):
        out = [scalar(x) for x in v]
    else:
        A = v if isinstance(v, Arr) else materialise(v)
        if A is None:
            raise AnalysisError("not an explicit vector")
        out = [scalar(x) for x in A.flat()]
    if len(out) != n:
        raise AnalysisError("expected %d components, got %d" % (n, len(out)))
    return out


def cross(a, b):
    return [a[1] * b[2] - a[2] * b[1], a[2] * b[0] - a[0] * b[2], a[0] * b[1] - a[1] * b[0]]


def run(ctx):
    from xfabsa import numeric as _N
    _N.alias_rule(ctx, 'C10', ['xfab/detector.py', 'xfab/tools.py'])
    ctx.rule("same-ray", "det_coor == det_coor2 when (cos 2t, lambda/tau Gt_y, lambda/tau Gt_z) == (cos 2t, -sin 2t sin eta, sin 2t cos eta)")
    ctx.rule("on-ray", "(detector_to_lab(pixel) - grain position) x ray direction == 0 for R_tilt = detect_tilt(tx,ty,tz)")
    ctx.rule("in-plane", "R[:,0] . (detector_to_lab(pixel) - (L,0,0)) == 0")
    ctx.rule("det_v", "det_v == the direction vector of det_coor")
    dmod = core.module("xfab/detector.py")
    tmod = core.module("xfab/tools.py")
    ctx.saw(dmod); ctx.saw(tmod, "detect_tilt")
    f1 = dmod.func("det_coor"); f2 = dmod.func("det_coor2"); f3 = dmod.func("det_v"); f4 = dmod.func("detector_to_lab")
    for f in (f1, f2, f3, f4):
        ctx.saw(dmod, f)
    tau = 2 * N.PI      # detector.py works in the 2*pi convention of xfab.tools

    def generic_eq_policy(test, ev, env):
        """generic configuration: an equality test between a non-constant normal form and anything else is false
        (it holds on a set of measure zero; those special configurations are analysed as scenarios of their own)"""
        if isinstance(test, ast.Compare) and len(test.ops) == 1 and isinstance(test.ops[0], (ast.Eq, ast.NotEq)):
            try:
                a_ = scalar(ev.eval(test.left, env)); b_ = scalar(ev.eval(test.comparators[0], env))
            except AnalysisError:
                return None
            if a_.is_const() and b_.is_const():
                return None
            return isinstance(test.ops[0], ast.NotEq)
        return None
    import itertools
    for zeros in itertools.product((False, True), repeat=3):
        tag = "generic" if not any(zeros) else "zero-tilt-" + "".join(ax for ax, z in zip("xyz", zeros) if z)
        A = {k: Rat.atom(k) for k in ("costth", "wavelength", "distance", "y_size", "z_size", "dety_center", "detz_center",
                                      "tx", "ty", "tz", "tth", "eta", "tilt_x", "tilt_y", "tilt_z")}
        for ax, z in zip("xyz", zeros):
            if z:
                A["tilt_" + ax] = Rat.const(0)
        Gt = sym_array("Gt", (3,))
        R = Evaluator(tmod, inline=True).call_function("detect_tilt", [A["tilt_x"], A["tilt_y"], A["tilt_z"]])
        Rm = [[scalar(x) for x in row] for row in (R if isinstance(R, Arr) else materialise(R)).data]
        if not RR.is_proper_rotation(Rm):
            raise AnalysisError("tools.detect_tilt does not evaluate to a proper rotation (see C03)")
        common = [A["distance"], A["y_size"], A["z_size"], A["dety_center"], A["detz_center"], R, A["tx"], A["ty"], A["tz"]]

        def EV():
            return Evaluator(dmod, inline=True, branch_policy=generic_eq_policy)
        p1 = vec(EV().call_function("det_coor", [Gt, A["costth"], A["wavelength"]] + common), 2)
        p2 = vec(EV().call_function("det_coor2", [A["tth"], A["eta"]] + common), 2)
        c2, s2 = RR.cs(A["tth"])
        ce, se = RR.cs(A["eta"])
        sub = {"costth": c2, "Gt[1]": -s2 * se * tau / A["wavelength"], "Gt[2]": s2 * ce * tau / A["wavelength"]}
        same = all(deep_subs(a, sub).equals(b) for a, b in zip(p1, p2))
        ctx.check(same, "C10:same-ray:det_coor-vs-det_coor2:%s" % tag,
                  "det_coor and det_coor2 give different pixels for the same scattered ray (%s tilt configuration)" % tag, core.loc(dmod, f1),
                  sample={"configuration": tag, "dety(det_coor2) numerator terms": len(p2[0].num)} if tag == "generic" else None)
        v = [c2, -s2 * se, s2 * ce]
        for name, pix, vdir in (("det_coor2", p2, v),
                                ("det_coor", p1, [A["costth"], A["wavelength"] / tau * Rat.atom("Gt[1]"), A["wavelength"] / tau * Rat.atom("Gt[2]")])):
            lab = vec(EV().call_function(
                "detector_to_lab", [pix[0], pix[1], A["distance"], A["y_size"], A["z_size"], A["dety_center"], A["detz_center"], R]), 3)
            d = [lab[0] - A["tx"], lab[1] - A["ty"], lab[2] - A["tz"]]
            cr = cross(d, vdir)
            ok = all(x.is_zero() for x in cr)
            ctx.check(ok, "C10:on-ray:%s:%s" % (name, tag),
                      "detector_to_lab(%s pixel) - grain position is not parallel to the scattered direction (%s tilt configuration)" % (name, tag),
                      core.loc(dmod, f4), sample={"function": name, "configuration": tag} if tag == "generic" else None)
            n = [Rm[0][0], Rm[1][0], Rm[2][0]]
            dp = n[0] * (lab[0] - A["distance"]) + n[1] * lab[1] + n[2] * lab[2]
            ctx.check(dp.is_zero(), "C10:in-plane:%s:%s" % (name, tag),
                      "detector_to_lab(%s pixel) is not in the detector plane (%s tilt configuration)" % (name, tag), core.loc(dmod, f4))
    A = {k: Rat.atom(k) for k in ("costth", "wavelength", "distance", "y_size", "z_size", "dety_center", "detz_center", "tx", "ty", "tz")}
    Gt = sym_array("Gt", (3,))
    common = [A["distance"], A["y_size"], A["z_size"], A["dety_center"], A["detz_center"], sym_array("R_tilt", (3, 3)), A["tx"], A["ty"], A["tz"]]
    # det_v
    dv = vec(Evaluator(dmod, inline=True).call_function("det_v", [Gt, A["costth"], A["wavelength"]] + common), 3)
    want = [A["costth"], A["wavelength"] / tau * Rat.atom("Gt[1]"), A["wavelength"] / tau * Rat.atom("Gt[2]")]
    ctx.check(all(x.equals(y) for x, y in zip(dv, want)), "C10:det_v:direction",
              "det_v is not (costth, lambda/(2 pi) Gt[1], lambda/(2 pi) Gt[2])", core.loc(dmod, f3))
    # the ray direction of det_coor2 is the documented one: decided through on-ray with v above
    ctx.not_decided += ["floating point; that the ray parameter t is positive (the detector is in front of the grain) "
                        "depends on the real geometry"]
    ctx.assumptions += ["C03: tools.detect_tilt = Rx Ry Rz", "g-vectors in the 2*pi convention of xfab.tools (detector.py divides by 2*pi)",
                        "numpy sum, dot, array"]
    from xfabsa import numeric as _N2
    _N2.hazard_rule(ctx, 'C10')
    return ("det_coor, det_coor2, det_v and detector_to_lab evaluated by E3 with the tilt matrix of tools.detect_tilt: the two "
            "pixel formulas agree for the same ray, and the pixel mapped back to the laboratory lies on the ray from the "
            "grain position along (cos 2t, -sin 2t sin eta, sin 2t cos eta) and in the detector plane - identities of normal "
            "forms, hence for every distance, pixel size, beam centre, tilt and grain position.")
