"""
The walk of genhkl_base decided by *evaluating the whole function* (E7) on band models.

A band model replaces the one thing the walk cannot know -- the metric -- by an assignment of every lattice point to one
of the seven regions its sin(theta)/lambda can lie in relative to sintlmin, sintlmax and the walk's cut-off:

    below-min < at-min < in-shell < at-max < between < at-cutoff < beyond          (positions -1 .. 5)

sintl(cell, p) is answered with the atom S[p]; every comparison of S[p] with sintlmin, sintlmax or a multiple > 1 of sintlmax
(the cut-off) is answered from the region of p; sysabs(p, ...) is answered from a model extinction predicate and its
arguments are recorded.  Everything else -- the cone tables, the loop nest or generator that walks them, the accumulators, the
sort -- is the code's own and is executed by the interpreter.

Regions are assigned so that *every* correct enumeration returns the same rows.  The level of a point is a + b + c for
p = apex + a g1 + b g2 + c g3 in its cone; points of level > r (and points of no cone) are `beyond`, points of level <= r get a
region drawn from a fixed pseudo-random table (even in p).  The level is non-decreasing along every generator from every cone
point, so no point inside the zone is preceded by a `beyond` point in its row, plane or cone: the reference walk (continue
while the next point is not beyond the cut-off; accept when in-shell / at-max and not extinct) reaches every zone point, and
its result is the set of accepted cone points (checked on every model).  The band positions `between` and `at-cutoff` exist
only where the code scales the cut-off (Laue -3 on rhombohedral axes); they are what tells a loop exit at sintlmax from one at
the cut-off: a row, plane or cone that starts there still has accepted points behind it.

The rule compares the value returned by the code with that set: the rows (as a multiset), the key each row is sorted by,
the optional fourth column, and the arguments sysabs was consulted with.
"""
import ast
import itertools

from fractions import Fraction

from xfabsa import core, tables
from xfabsa.core import AnalysisError
from xfabsa.poly import Rat, single_atom
from xfabsa.symeval import Arr, Opaque, RaiseReached, Undecided, scalar, materialise, sym_array, const_int, _Return
from xfabsa.objeval import PyRaise
from props.hklwalk import TailEval, Sorted, _bind_params


def _solve3(g1, g2, g3, d):
    """integers (a, b, c) >= 0 with a*g1 + b*g2 + c*g3 == d, or None (generators that are zero contribute nothing)"""
    from fractions import Fraction
    cols = [g for g in (g1, g2, g3)]
    live = [i for i, g in enumerate(cols) if any(g)]
    # least squares is not needed: the live generators of a cone are linearly independent
    M = [[Fraction(cols[j][i]) for j in live] for i in range(3)]
    rhs = [Fraction(x) for x in d]
    n = len(live)
    # Gaussian elimination on the 3 x n system
    rows = [M[i] + [rhs[i]] for i in range(3)]
    piv = []
    r = 0
    for c in range(n):
        k = next((i for i in range(r, 3) if rows[i][c] != 0), None)
        if k is None:
            return None
        rows[r], rows[k] = rows[k], rows[r]
        rows[r] = [x / rows[r][c] for x in rows[r]]
        for i in range(3):
            if i != r and rows[i][c] != 0:
                f = rows[i][c]
                rows[i] = [x - f * y for x, y in zip(rows[i], rows[r])]
        piv.append(c)
        r += 1
    if any(rows[i][n] != 0 for i in range(r, 3)):
        return None
    sol = [0, 0, 0]
    for i, c in enumerate(piv):
        v = rows[i][n]
        if v.denominator != 1 or v < 0:
            return None
        sol[live[c]] = int(v)
    return tuple(sol)


def cone_coords(table, p):
    """[(cone index, (a, b, c))] of the cones that contain p"""
    out = []
    for ci, (apex, g1, g2, g3) in enumerate(table):
        abc = _solve3(g1, g2, g3, tuple(p[i] - apex[i] for i in range(3)))
        if abc is not None:
            out.append((ci, abc))
    return out


def cone_points(table, r):
    """every cone point with a + b + c <= r (once per cone that lists it)"""
    out = []
    for ci, (apex, g1, g2, g3) in enumerate(table):
        for c in range(r + 1 if any(g3) else 1):
            for b in range(r + 1 - c if any(g2) else 1):
                for a in range(r + 1 - c - b if any(g1) else 1):
                    out.append((tuple(apex[i] + a * g1[i] + b * g2[i] + c * g3[i] for i in range(3)), ci))
    return out


def _mix(p, seed):
    # even in p, fixed arithmetic (never Python's hash)
    q = p if p > tuple(-x for x in p) else tuple(-x for x in p)
    x = (q[0] * 73856093) ^ (q[1] * 19349663) ^ (q[2] * 83492791) ^ (seed * 2654435761)
    x &= 0xFFFFFFFF
    x ^= x >> 13
    x = (x * 0x5bd1e995) & 0xFFFFFFFF
    x ^= x >> 15
    return x


class BandModel:
    """level L(p) = a + b + c of p = apex + a g1 + b g2 + c g3 in its cone (the smallest, should cones overlap; L(-p) = L(p)):
    non-decreasing along every generator from every cone point by construction"""

    def __init__(self, table, seed, scale=None, target=45):
        """scale: the thresholds the code compares sin(theta)/lambda with, as sorted (base, factor) pairs with base 0 = sintlmin,
        1 = sintlmax; (0, 1) and (1, 1) are always there.  Position 2j means `at threshold j`, 2j-1 `between j-1 and j`, -1
        below all, 2n-1 beyond all."""
        self.table = [[tuple(v) for v in cone] for cone in table]
        self.seed = seed
        self.scale = sorted(set(scale or ()) | {(0, Fraction(1)), (1, Fraction(1))})
        n = len(self.scale)
        self.i_min, self.i_max = self.scale.index((0, Fraction(1))), self.scale.index((1, Fraction(1)))
        self.beyond = 2 * n - 1
        self.cut = 2 * (n - 1)                      # the largest threshold: the walk goes on up to and including it
        self.scaled = self.scale[-1] != (1, Fraction(1))
        self.metric_name = "cone-level"
        r = 1
        while len(cone_points(self.table, r)) < target and r < 40:
            r += 1
        self.r = r
        inside = [q for q in range(-1, self.beyond) if self.accepted_pos(q)]
        self.palette = tuple(list(range(-1, self.beyond)) + inside * 2)
        self._lv = {}

    def accepted_pos(self, q):
        return 2 * self.i_min < q <= 2 * self.i_max

    def region(self, q):
        if q == self.beyond:
            return "beyond"
        name = lambda t: ("sintlmin" if t[0] == 0 else "sintlmax") + ("" if t[1] == 1 else "*%s" % t[1])
        if q % 2 == 0:
            return "at " + name(self.scale[q // 2])
        if q == -1:
            return "below " + name(self.scale[0])
        return "between %s and %s" % (name(self.scale[(q - 1) // 2]), name(self.scale[(q + 1) // 2]))

    def level(self, p):
        if p not in self._lv:
            cs = cone_coords(self.table, p) + cone_coords(self.table, tuple(-x for x in p))
            self._lv[p] = min(sum(abc) for _ci, abc in cs) if cs else None
        return self._lv[p]

    def pos(self, p):
        if not any(p):
            return -1
        lv = self.level(p)
        if lv is None or lv > self.r:
            return self.beyond
        return self.palette[_mix(p, self.seed) % len(self.palette)]

    def absent(self, p):
        return 1 if _mix(p, self.seed + 17) % 4 == 0 else 0

    def expected(self):
        """the reference walk; also checks that it reaches every zone point (model validity)"""
        cut = self.cut
        seen = []

        def far(p):
            return self.pos(p) > cut
        first = True
        for apex, g1, g2, g3 in self.table:
            p3 = tuple(apex)
            while True:
                p2 = p3
                while True:
                    p1 = p2
                    while True:
                        seen.append((p1, first))
                        first = False
                        nx = tuple(p1[i] + g1[i] for i in range(3))
                        if far(nx) or not any(g1):
                            break
                        p1 = nx
                    p2 = tuple(p2[i] + g2[i] for i in range(3))
                    if far(p2) or not any(g2):
                        break
                p3 = tuple(p3[i] + g3[i] for i in range(3))
                if far(p3) or not any(g3):
                    break
        acc = [p for p, _isfirst in seen if any(p) and self.accepted_pos(self.pos(p)) and not self.absent(p)]
        brute = [p for p, _ci in cone_points(self.table, self.r) if self.accepted_pos(self.pos(p)) and not self.absent(p) and any(p)]
        if sorted(acc) != sorted(brute):
            raise AnalysisError("band model is not walk-complete (reference walk %d rows, zone %d rows)" % (len(acc), len(brute)))
        return acc


def _is_param(v, name, n):
    """v is the caller's array `name` (handed on as it came, or copied element by element)"""
    ref = materialise(sym_array(name, (n,)))
    A = v if isinstance(v, Arr) else materialise(v) if isinstance(v, (Opaque, list, tuple)) else None
    if A is None or A.shape != (n,):
        return False
    return all(scalar(x).equals(scalar(y)) for x, y in zip(A.data, ref.data))


class WalkEval(TailEval):
    """E7 with the three oracles of the band model"""

    def __init__(self, mod, model, **kw):
        TailEval.__init__(self, mod, inline=set(), max_depth=10, **kw)
        self.model = model
        self.sign_policy = self._sign
        self.call_policy = self._call
        self.probed = 0
        self.consulted = []       # (point, sysconditions, crystal_system, cell_choice)
        self.thresholds = set()
        self.new_threshold = False
        self.cell_sign = 1

    def apply_unary(self, fname, x, node):
        if fname in ("abs", "absolute", "fabs") and isinstance(x, Rat):
            a_ = single_atom(x)
            if a_ is not None and a_.startswith("S["):
                return x                 # sin(theta)/lambda is not negative
        return TailEval.apply_unary(self, fname, x, node)

    def _unused(self):
        pass
        self.flip = None

    @staticmethod
    def _point(v, what, node):
        A = v if isinstance(v, Arr) else materialise(v) if isinstance(v, (list, tuple, Opaque)) else None
        if A is None or A.shape != (3,):
            raise AnalysisError("genhkl_base: %s is called with something else than one hkl: %s (line %d)" % (what, repr(v)[:80], node.lineno))
        p = tuple(const_int(scalar(x)) for x in A.data)
        if any(x is None for x in p):
            raise AnalysisError("genhkl_base: %s is called with an hkl that is not a constant integer vector (line %d)" % (what, node.lineno))
        return p

    def _call(self, name, args, kwargs, node):
        if name == "sintl":
            if len(args) != 2 or kwargs:
                raise AnalysisError("genhkl_base: unexpected call of sintl (line %d)" % node.lineno)
            cell = args[0]
            if not _is_param(cell, "unit_cell", 6):
                self.bad_cell = node.lineno
            p = self._point(args[1], "sintl", node)
            self.probed += 1
            if self.probed > 200000:
                raise AnalysisError("genhkl_base: the walk does not end on the band model")
            return Rat.atom("S[%d,%d,%d]" % p)
        if name == "sysabs":
            fn = self.mod.func("sysabs")
            params = [a.arg for a in fn.args.args]
            amap = dict(zip(params, args))
            amap.update(kwargs)
            nd = len(fn.args.defaults)
            for i, p_ in enumerate(params):
                if p_ not in amap:
                    j = i - (len(params) - nd)
                    if j < 0:
                        raise AnalysisError("genhkl_base: sysabs called without %s (line %d)" % (p_, node.lineno))
                    amap[p_] = self.eval_default(fn.args.defaults[j])
            p = self._point(amap[params[0]], "sysabs", node)
            self.consulted.append((p, amap[params[1]], amap.get("crystal_system"), amap.get("cell_choice")))
            ab = self.model.absent(p)
            if self.flip is not None and (amap.get("crystal_system"), amap.get("cell_choice")) == self.flip:
                ab = 1 - ab      # does the answer to the calls made with these arguments matter?
            return Rat.const(ab)
        return NotImplemented

    def _sign(self, d, node=None):
        S = [a for a in d.atoms() if a.startswith("S[")]
        if not S and d.atoms() and all(a.startswith("unit_cell[") for a in d.atoms()):
            return self.cell_sign        # tests on the cell only select log messages (the cone tables are compared three ways by E0)
        if len(S) != 1:
            return None
        s = Rat.atom(S[0])
        a = d.subs({S[0]: Rat.const(1), "sintlmin": Rat.const(0), "sintlmax": Rat.const(0)})
        if not a.is_const() or a.const_value() == 0:
            return None
        T = (s * a - d) / a
        lo, hi = Rat.atom("sintlmin"), Rat.atom("sintlmax")
        th = None
        for base, atom in ((0, lo), (1, hi)):
            k = T / atom
            if k.is_const() and Fraction(1, 2) < k.const_value() < 2:
                th = (base, Fraction(k.const_value()))
        if th is None:
            return None
        self.thresholds.add(th)
        if th not in self.model.scale:
            # a threshold the model was not built for: this run only collects thresholds (its result is discarded)
            self.new_threshold = True
            th = (th[0], Fraction(1))
        tp = 2 * self.model.scale.index(th)
        p = tuple(int(x) for x in S[0][2:-1].split(","))
        pos = self.model.pos(p)
        rel = (pos > tp) - (pos < tp)
        return rel if a.const_value() > 0 else -rel


def run_walk(mod, table, Laue, cc, csys, seed, output_stl, target=45, scale=None, flip=None, fname="genhkl_base"):
    """-> dict(rows=[(h,k,l)], keys_ok, col_ok, consulted=..., expected=[...], model=...)
    scale=None: the thresholds are the ones the code itself compares with for this combination, observed on a first run
    on the plain model (sintlmin, sintlmax) and added until no new one shows up"""
    if scale is None:
        scale = [(0, Fraction(1)), (1, Fraction(1))]
        for _round in range(4):
            res = run_walk(mod, table, Laue, cc, csys, seed, output_stl, target, scale=scale, flip=flip, fname=fname)
            more = sorted(set(res.get("thresholds", [])) - set(scale))
            if not more:
                return res
            scale = sorted(set(scale) | set(more))
        raise AnalysisError("genhkl_base compares sin(theta)/lambda with ever new thresholds")
    model = BandModel(table, seed, scale, target)
    expected = model.expected()
    fn = mod.func(fname)
    ev = WalkEval(mod, model)
    ev.bad_cell = None
    ev.flip = flip
    syscond = sym_array("sysconditions", (26,))
    run_ev = ev.home_evaluator(fn)          # (a genhkl_base imported back from a private module runs there)
    env = _bind_params(run_ev, fn, {"Laue_class": Laue, "cell_choice": cc, "crystal_system": csys, "unit_cell": sym_array("unit_cell", (6,)),
                                "sysconditions": syscond, "sintlmin": Rat.atom("sintlmin"),
                                "sintlmax": Rat.atom("sintlmax"), "output_stl": output_stl})
    try:
        run_ev.exec_block(core.body_wo_doc(fn), env)
        out = None
    except _Return as r:
        out = r.value
    except (PyRaise, RaiseReached) as e:
        return {"error": "genhkl_base raises %s on the band model" % (getattr(e, "name", None) or type(e).__name__), "model": model, "expected": expected,
                "thresholds": sorted(ev.thresholds), "scaled": model.scaled}
    res = {"model": model, "expected": expected, "consulted": ev.consulted, "probed": ev.probed, "bad_cell": ev.bad_cell,
           "thresholds": sorted(ev.thresholds), "syscond": syscond, "params": (csys, cc), "scaled": model.scaled}
    if isinstance(out, Sorted):
        rows, keys = out.rows, out.keys
    else:
        A = out if isinstance(out, Arr) else None
        if A is not None and (0 in (getattr(A, "zshape", None) or A.shape)):
            rows, keys = [], []
        else:
            res["error"] = "the value returned is not a table reordered by an argsort of its sin(theta)/lambda column (%s)" % type(out).__name__
            return res
    ncol = 3 if output_stl is None else 4
    pts, keys_ok, col_ok, int_ok = [], True, True, True
    for r, k in zip(rows, keys):
        if len(r) != ncol:
            res["error"] = "rows have %d columns with output_stl=%r" % (len(r), output_stl)
            return res
        p = tuple(const_int(scalar(x)) for x in r[:3])
        if any(x is None for x in p):
            int_ok = False
            continue
        pts.append(p)
        want = Rat.atom("S[%d,%d,%d]" % p)
        if not scalar(k).equals(want):
            keys_ok = False
            res.setdefault("key_example", (p, scalar(k).key()))
        if ncol == 4 and not scalar(r[3]).equals(want):
            col_ok = False
            res.setdefault("col_example", (p, scalar(r[3]).key()))
    res.update(rows=pts, keys_ok=keys_ok, col_ok=col_ok, int_ok=int_ok)
    return res


def describe(res):
    """-> (hkl set ok, message)"""
    if "error" in res:
        return False, res["error"]
    model = res["model"]
    exp, got = sorted(res["expected"]), sorted(res["rows"])
    if exp == got:
        return True, ""
    from collections import Counter
    ce, cg = Counter(exp), Counter(got)
    missing = sorted((ce - cg).elements())
    extra = sorted((cg - ce).elements())
    parts = []
    if missing:
        p = missing[0]
        parts.append("%d accepted cone point(s) are missing, e.g. %s (%s)" % (len(missing), p, model.region(model.pos(p))))
    if extra:
        p = extra[0]
        why = "listed %d times" % cg[p] if ce[p] else ("extinct" if model.absent(p) and model.accepted_pos(model.pos(p)) else model.region(model.pos(p)))
        parts.append("%d row(s) must not be there, e.g. %s (%s)" % (len(extra), p, why))
    return False, "; ".join(parts) + " [band model: zone of cone level <= %d, seed %d]" % (model.r, model.seed)


# ---------------------------------------------------------------------------------------------------------------------
# driver shared by C05, C06 and C14
# ---------------------------------------------------------------------------------------------------------------------

def plan(tier):
    """[(seed, output_stl)] and the number of zone points aimed at"""
    if tier == "quick":
        return [(1, True), (2, None)], 45
    return [(1, True), (2, None), (3, True), (4, None), (5, True), (6, None)], 110


def _job(args):
    rel, Laue, cc, csys, table, seed, flag, target = args
    key = (rel, Laue, cc, csys, seed, flag)
    try:
        mod = core.module(rel)
        res = run_walk(mod, table, Laue, cc, csys, seed, flag, target)
    except AnalysisError as e:
        return key, {"analysis_error": str(e)}
    ok, msg = describe(res)
    out = {"ok": ok, "msg": msg, "rows": sorted(res.get("rows", [])), "nexp": len(res["expected"]), "probed": res.get("probed", 0),
           "keys_ok": res.get("keys_ok", True), "col_ok": res.get("col_ok", True), "int_ok": res.get("int_ok", True),
           "key_example": res.get("key_example"), "col_example": res.get("col_example"), "bad_cell": res.get("bad_cell"),
           "thresholds": ["%s*%s" % ("sintlmin" if b_ == 0 else "sintlmax", k_) for b_, k_ in res.get("thresholds", [])],
           "zone": res["model"].r, "scaled": bool(res.get("scaled"))}
    cons = set()
    sys_ok = True
    pats = {(cs_, cc_) for _p, _sc, cs_, cc_ in res.get("consulted", []) if isinstance(cs_, (str, type(None))) and isinstance(cc_, (str, type(None)))}
    dead = set()
    if len(pats) > 1 and "error" not in res:
        # sysabs is called with different arguments at different sites: a site whose answer does not reach the result is dead
        for pat in sorted(pats, key=repr):
            try:
                alt = run_walk(mod, table, Laue, cc, csys, seed, flag, target, scale=res["model"].scale, flip=pat)
            except AnalysisError as e:
                return key, {"analysis_error": str(e)}
            if "error" not in alt and sorted(alt.get("rows", [])) == sorted(res.get("rows", [])):
                dead.add(pat)
    for p, sc, cs_, cc_ in res.get("consulted", []):
        if (cs_, cc_) in dead:
            continue
        cons.add((cs_ if isinstance(cs_, (str, type(None))) else repr(cs_), cc_ if isinstance(cc_, (str, type(None))) else repr(cc_)))
        if not _is_param(sc, "sysconditions", 26):
            sys_ok = False
    out["consulted"] = sorted(cons, key=repr)
    out["nconsulted"] = len(res.get("consulted", []))
    out["syscond_ok"] = sys_ok
    return key, out


def run_all(rels_tables, tier):
    """rels_tables: [(rel, [(Laue, cc, csys, table)])] -> {(rel, Laue, cc, csys, seed, flag): outcome}"""
    import os
    from multiprocessing import Pool
    seeds, target = plan(tier)
    jobs = [(rel, L, cc, cs, t, seed, flag, target) for rel, rows in rels_tables for (L, cc, cs, t) in rows for seed, flag in seeds]
    with Pool(min(16, os.cpu_count() or 1)) as pool:
        try:
            res = pool.map_async(_job, jobs, chunksize=1).get(timeout=1500)
        except Exception as e:
            raise AnalysisError("evaluation of the walk on the band models failed: %s" % type(e).__name__)
    return dict(res)


def rows_of(segm, settings):
    """one (Laue, cell choice, crystal system, table) per distinct combination of sglib that selects a cone table"""
    out = []
    for c in sorted({(s.Laue, s.cell_choice, s.crystal_system) for s in settings}):
        hits = tables.select_segm(segm, *c)
        if len(hits) == 1:
            out.append(c + (hits[0]["table"],))
    return out


def verdicts(results, rel):
    """-> {(Laue, cc, csys): dict(ok_set, msg, sort_ok, sort_msg, consulted, syscond_ok, runs, rows)}; raises on an analysis error"""
    by = {}
    for (r_, L, cc, cs, seed, flag), o in sorted(results.items(), key=lambda kv: repr(kv[0])):
        if r_ != rel:
            continue
        if "analysis_error" in o:
            raise AnalysisError("%s genhkl_base on the band model of %s / %s: %s" % (rel, L, cc, o["analysis_error"]))
        v = by.setdefault((L, cc, cs), {"ok_set": True, "msg": "", "sort_ok": True, "sort_msg": "", "consulted": set(), "syscond_ok": True,
                                      "runs": 0, "rows": 0, "cell_ok": True, "signature": [], "scaled": False, "thresholds": set()})
        v["scaled"] = v["scaled"] or o["scaled"]
        v["thresholds"] |= set(o["thresholds"])
        v["runs"] += 1
        v["rows"] += o["nexp"]
        v["signature"].append((seed, flag, tuple(o["rows"]), o["keys_ok"], o["col_ok"]))
        if not o["ok"] and v["ok_set"]:
            v["ok_set"], v["msg"] = False, o["msg"]
        if not (o["keys_ok"] and o["col_ok"] and o["int_ok"]) and v["sort_ok"]:
            v["sort_ok"] = False
            if not o["keys_ok"]:
                v["sort_msg"] = "row %s is sorted by %s, not by its own sin(theta)/lambda" % o["key_example"] if o["key_example"] else "rows are not sorted by their own sin(theta)/lambda"
            elif not o["col_ok"]:
                v["sort_msg"] = "the fourth column of row %s is %s, not its own sin(theta)/lambda" % o["col_example"] if o["col_example"] else "fourth column"
            else:
                v["sort_msg"] = "a returned index is not an integer"
        v["consulted"] |= set(map(tuple, o["consulted"]))
        v["syscond_ok"] = v["syscond_ok"] and o["syscond_ok"]
        v["cell_ok"] = v["cell_ok"] and o["bad_cell"] is None
    return by


def consult_policy(by):
    """how sysabs is consulted: {'crystal_system': ('param'|'literal', value), 'cell_choice': (...)} over all rows"""
    out = {}
    for idx, pname in ((0, "crystal_system"), (1, "cell_choice")):
        as_param, lits = True, set()
        for (L, cc, cs), v in by.items():
            given = cs if idx == 0 else cc
            for c in v["consulted"]:
                lits.add(c[idx])
                if c[idx] != given:
                    as_param = False
        if as_param:
            out[pname] = ("param", pname)
        elif len(lits) == 1:
            out[pname] = ("literal", next(iter(lits)))
        else:
            raise AnalysisError("genhkl_base consults sysabs with a %s that is neither its own parameter nor one constant: %s" % (pname, sorted(lits, key=repr)))
    return out
