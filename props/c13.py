"""
C13 -- strain and strained B matrix are exact inverses; UBI yields back U and strain.

E3, callees opaque.  The back-substitutions of epsilon_to_b(_old) are decided
semantically: the upper-triangular matrix X they build satisfies the equation
the docstring states, sym(B0.X) = eps + I  (resp. sym(X.A0inv) = eps + I),
entry by entry, as identities of normal forms; b_to_epsilon(_old) are the
literal formulas; the arguments ubi_to_u_and_eps hands on are compared with the
module's own UBI convention (UBI = tau inv(U B)), which is where the tau-weight
defect of xfab.tools shows.
"""
import ast

from xfabsa import core, numeric as N
from xfabsa.core import AnalysisError
from xfabsa.poly import Rat
from xfabsa.symeval import Evaluator, sym_array, Arr, Opaque, scalar, materialise, vkey

PAIRS = [(0, 0), (0, 1), (0, 2), (1, 1), (1, 2), (2, 2)]     # order of [e11, e12, e13, e22, e23, e33]


def upper(name):
    """opaque upper-triangular 3x3 (sub-diagonal entries are the constant 0: C01)"""
    return Arr([[Rat.atom("%s[%d,%d]" % (name, i, j)) if j >= i else Rat.const(0) for j in range(3)] for i in range(3)])


def mat(v):
    A = v if isinstance(v, Arr) else materialise(v)
    if A is None or A.shape != (3, 3):
        raise AnalysisError("not an explicit 3x3 array: %r" % (v,))
    return [[scalar(x) for x in r] for r in A.data]


def mm(A, B):
    return [[sum((A[i][k] * B[k][j] for k in range(3)), Rat.const(0)) for j in range(3)] for i in range(3)]


def seq6(v):
    if isinstance(v, Arr):
        v = v.data
    if not isinstance(v, (list, tuple)) or len(v) != 6:
        raise AnalysisError("strain is not a sequence of six values")
    return [scalar(x) for x in v]


def run(ctx):
    from xfabsa import numeric as _N
    _N.alias_rule(ctx, 'C13', ['xfab/tools.py', 'xfab/laue.py'])
    ctx.rule("b2e", "b_to_epsilon(_old) == sym(T) - I with T = B0.inv(B) (resp. A(B).A0inv), order e11,e12,e13,e22,e23,e33")
    ctx.rule("e2b", "epsilon_to_b(_old): the triangular matrix built solves sym(B0.X) = eps + I (resp. sym(X.A0inv)), and the result is inv(X) (resp. B of the cell of X)")
    ctx.rule("zero", "zero strain gives the unstrained matrix: B0.X == I at eps = 0")
    ctx.rule("tau", "ubi_to_u_and_eps hands b_to_epsilon the strained B of the module's UBI convention: tau*inv(UBI.U)")
    for rel, short, two_pi in N.MODULES:
        mod = core.module(rel)
        ctx.saw(mod)
        tau = N.tau_of(two_pi)
        cell = sym_array("unit_cell", (6,))
        eps = sym_array("epsilon", (6,))
        epsv = [Rat.atom("epsilon[%d]" % i) for i in range(6)]
        Bsym = sym_array("B_matrix", (3, 3))

        def pol_factory(log):
            def pol(name, args, kwargs, node):
                log.append((name, args))
                if name == "form_b_mat":
                    return upper("B0") if vkey(args[0]) == vkey(cell) else Opaque("form_b_mat(%s)" % vkey(args[0]), (3, 3))
                if name == "form_a_mat_inv" and vkey(args[0]) == vkey(cell):
                    return upper("A0inv")
                if name == "form_a_mat" and vkey(args[0]) == vkey(cell):
                    # the unstrained A is the exact inverse of the symbolic triangular A0inv, so that
                    # inv(form_a_mat(cell)) and form_a_mat_inv(cell) are the same normal forms
                    from xfabsa.symeval import exact_inverse
                    return exact_inverse(upper("A0inv"))
                if name in ("form_a_mat", "form_a_mat_inv"):
                    return Opaque("%s(%s)" % (name, vkey(args[0])), (3, 3))
                if name == "ubi_to_cell":
                    # ubi_to_cell(X) is a_to_cell(X') (C02 decides that): one opaque value for both spellings
                    A_ = args[0] if isinstance(args[0], Arr) else materialise(args[0])
                    if A_ is not None and len(A_.shape) == 2:
                        T_ = Arr([[A_.data[j][i] for j in range(A_.shape[0])] for i in range(A_.shape[1])])
                        return Opaque("a_to_cell(%s)" % vkey(T_), (6,))
                if name in ("a_to_cell", "b_to_cell", "ubi_to_cell"):
                    return Opaque("%s(%s)" % (name, vkey(args[0])), (6,))
                if name == "b_to_epsilon":
                    return Opaque("b_to_epsilon(...)", (6,))
                return NotImplemented
            return pol
        B0 = mat(upper("B0"))
        A0i = mat(upper("A0inv"))
        ident = [[Rat.const(1 if i == j else 0) for j in range(3)] for i in range(3)]
        # ---------------- b_to_epsilon
        fn = mod.func("b_to_epsilon"); ctx.saw(mod, fn)
        log = []

        def same6(a_, b_):
            return len(a_) == len(b_) and all(x_.equals(y_) for x_, y_ in zip(a_, b_))

        def run_b2e(setup, fname_="b_to_epsilon"):
            del log[:]
            ev_ = Evaluator(mod, inline=set(), call_policy=pol_factory(log))
            setup(ev_)
            return seq6(ev_.call_function(fname_, [Bsym, cell]))
        # (a tolerance guard in front of the formula: the general path is analysed below, the guarded one must agree with it)
        out = N.fast_path_rule(ctx, "C13:b2e:%s.b_to_epsilon" % short, core.loc(mod, fn), run_b2e, same6)
        Bi = mat(Opaque("inv(B_matrix)", (3, 3)))
        T = mm(B0, Bi)
        ok = True           # (B0 below is the opaque value form_b_mat(unit_cell): the comparison of values covers the call)
        for k, (i, j) in enumerate(PAIRS):
            want = (T[i][j] + T[j][i]) / 2 - ident[i][j]
            ok = ok and out[k].equals(want)
        ctx.check(ok, "C13:b2e:%s.b_to_epsilon" % short,
                  "b_to_epsilon is not [sym(B0.inv(B)) - I] in the order e11,e12,e13,e22,e23,e33 with B0 = form_b_mat(unit_cell)",
                  core.loc(mod, fn), sample={"function": "%s.b_to_epsilon" % short, "e12": N.short(out[1], 200)})
        # ---------------- b_to_epsilon_old
        fn = mod.func("b_to_epsilon_old"); ctx.saw(mod, fn)
        log = []
        out = N.fast_path_rule(ctx, "C13:b2e:%s.b_to_epsilon_old" % short, core.loc(mod, fn),
                               lambda setup: run_b2e(setup, "b_to_epsilon_old"), same6)
        okc = True
        if okc:
            A = mat(Opaque("form_a_mat(b_to_cell(%s))" % vkey(Bsym), (3, 3)))
            T = mm(A, A0i)
            for k, (i, j) in enumerate(PAIRS):
                okc = okc and out[k].equals((T[i][j] + T[j][i]) / 2 - ident[i][j])
        ctx.check(okc, "C13:b2e:%s.b_to_epsilon_old" % short,
                  "b_to_epsilon_old is not sym(A.A0inv) - I with A = form_a_mat(b_to_cell(B)), A0inv = form_a_mat_inv(unit_cell)",
                  core.loc(mod, fn))
        # ---------------- epsilon_to_b
        fn = mod.func("epsilon_to_b"); ctx.saw(mod, fn)
        log = []
        ev = Evaluator(mod, inline=set(), call_policy=pol_factory(log))
        out = ev.call_function("epsilon_to_b", [eps, cell])
        # the matrix X whose inverse is returned -- by value: an inversion met on the way whose result is the value returned
        # (inv(X), solve(X, 1), ...), otherwise the inverse of the value returned, computed here
        where = core.loc(mod, fn)
        Xv = None
        for (nm, a, r) in ev.np_log:
            if nm == "linalg.inv" and (r is out or vkey(r) == vkey(out)):
                Xv = a[0]
        if Xv is None:
            Rm = out if isinstance(out, Arr) else materialise(out)
            if Rm is None or Rm.shape != (3, 3):
                raise AnalysisError("%s.epsilon_to_b does not evaluate to an explicit 3x3 matrix" % short)
            Xv = Evaluator(mod, inline=set()).np_call("linalg.inv", [Rm], {}, fn)
            if not isinstance(Xv, Arr) or Xv._opaque_base() is not None:
                raise AnalysisError("%s.epsilon_to_b: the inverse of the returned matrix has no closed form here" % short)
        if True:
            X = mat(Xv)
            tri = all(X[i][j].is_zero() for i in range(3) for j in range(i))
            ctx.check(tri, "C13:e2b:%s.epsilon_to_b:triangular" % short, "the matrix inverted is not upper triangular", where)
            P = mm(B0, X)
            for k, (i, j) in enumerate(PAIRS):
                lhs = P[i][j] + P[j][i]
                rhs = 2 * (epsv[k] + ident[i][j])
                ctx.check(lhs.equals(rhs), "C13:e2b:%s.epsilon_to_b:eq%d%d" % (short, i + 1, j + 1),
                          "2(eps+I)[%d,%d] = (B0.X + (B0.X)')[%d,%d] fails: lhs %s ; rhs %s"
                          % (i + 1, j + 1, i + 1, j + 1, N.short(lhs, 200), N.short(rhs)), where,
                          sample={"equation": "sym(B0.Binv) = eps + I", "entry": [i + 1, j + 1], "lhs": N.short(lhs, 200)} if (i, j) == (0, 2) else None)
            z = {"epsilon[%d]" % i: Rat.const(0) for i in range(6)}
            okz = all(P[i][j].subs(z).equals(ident[i][j]) for i in range(3) for j in range(3))
            ctx.check(okz, "C13:zero:%s.epsilon_to_b" % short, "at zero strain B0.Binv is not the identity", where)
        # ---------------- epsilon_to_b_old
        fn = mod.func("epsilon_to_b_old"); ctx.saw(mod, fn)
        where = core.loc(mod, fn)
        log = []
        out = Evaluator(mod, inline=set(), call_policy=pol_factory(log)).call_function("epsilon_to_b_old", [eps, cell])
        a2c = [a for n_, a in log if n_ == "a_to_cell"]
        if len(a2c) != 1:
            ctx.fail("C13:e2b:%s.epsilon_to_b_old:calls" % short, "expected one a_to_cell call on the matrix that is built; got %s"
                     % [n_ for n_, a in log], where)
        else:
            X = mat(a2c[0][0])
            okr = isinstance(out, Opaque) and out.base == "form_b_mat(a_to_cell(%s))" % vkey(a2c[0][0])
            ctx.check(okr, "C13:e2b:%s.epsilon_to_b_old:result" % short,
                      "epsilon_to_b_old does not return form_b_mat(a_to_cell(A)) for the matrix A it builds", where)
            tri = all(X[i][j].is_zero() for i in range(3) for j in range(i))
            ctx.check(tri, "C13:e2b:%s.epsilon_to_b_old:triangular" % short, "A is not upper triangular", where)
            P = mm(X, A0i)
            for k, (i, j) in enumerate(PAIRS):
                lhs = P[i][j] + P[j][i]
                rhs = 2 * (epsv[k] + ident[i][j])
                ctx.check(lhs.equals(rhs), "C13:e2b:%s.epsilon_to_b_old:eq%d%d" % (short, i + 1, j + 1),
                          "2(eps+I)[%d,%d] = (A.A0inv + (A.A0inv)')[%d,%d] fails: lhs %s" % (i + 1, j + 1, i + 1, j + 1, N.short(lhs, 200)), where)
            z = {"epsilon[%d]" % i: Rat.const(0) for i in range(6)}
            okz = all(P[i][j].subs(z).equals(ident[i][j]) for i in range(3) for j in range(3))
            ctx.check(okz, "C13:zero:%s.epsilon_to_b_old" % short, "at zero strain A.A0inv is not the identity", where)
        # ---------------- ubi_to_u_and_eps
        fn = mod.func("ubi_to_u_and_eps"); ctx.saw(mod, fn)
        where = core.loc(mod, fn)
        ubi = sym_array("ubi_matrix", (3, 3))
        uses_qr = any(isinstance(n_, ast.Call) and isinstance(n_.func, ast.Attribute) and n_.func.attr == "qr" for n_ in ast.walk(fn))
        if uses_qr:
            # alternative realisation: (U, B) from a QR factorisation of tau*inv(UBI) with a sign normalisation.
            # Obligation on all eight sign patterns of diag(R): U == Q.D, the matrix handed on == D.R, QR argument == tau*inv(UBI)
            import itertools
            okq = True
            why = ""
            for pattern in itertools.product((False, True), repeat=3):
                log = []
                ev = Evaluator(mod, inline=set(), call_policy=pol_factory(log), branch_policy=N.skip_checks_policy)
                qarg = []
                Q = sym_array("Q", (3, 3)); Rm = sym_array("R", (3, 3))
                orig = ev._np_call

                def hook(name, args, kwargs, node, orig=orig, qarg=qarg, Q=Q, Rm=Rm):
                    if name == "linalg.qr":
                        qarg.append(args[0])
                        return (materialise(Q), Arr([[Rat.atom("R[%d,%d]" % (i, j)) if j >= i else Rat.const(0) for j in range(3)] for i in range(3)]))
                    return orig(name, args, kwargs, node)
                ev._np_call = hook

                def sgn(x, node, pattern=pattern):
                    from xfabsa.poly import single_atom
                    a_ = single_atom(x)
                    for k in range(3):
                        if a_ == "R[%d,%d]" % (k, k):
                            return Rat.const(-1 if pattern[k] else 1)
                    raise AnalysisError("sign() of `%s`, not of a diagonal entry of the triangular factor" % x.key()[:40])
                ev.sign_of = sgn

                def bpol2(test, e_, env_, pattern=pattern):
                    if N.skip_checks_policy(test, e_, env_) is False:
                        return False
                    if isinstance(test, ast.Compare) and len(test.ops) == 1 and isinstance(test.comparators[0], ast.Constant) \
                            and test.comparators[0].value == 0 and isinstance(test.ops[0], (ast.Lt, ast.LtE, ast.Gt, ast.GtE)):
                        from xfabsa.poly import single_atom
                        a_ = single_atom(scalar(e_.eval(test.left, env_)))
                        for k in range(3):
                            if a_ == "R[%d,%d]" % (k, k):
                                return pattern[k] if isinstance(test.ops[0], (ast.Lt, ast.LtE)) else not pattern[k]
                    return None
                ev.branch_policy = bpol2
                out = ev.call_function("ubi_to_u_and_eps", [ubi, cell])
                bcalls = [a for n_, a in log if n_ == "b_to_epsilon"]
                if len(qarg) != 1 or len(bcalls) != 1 or not (isinstance(out, tuple) and len(out) == 2):
                    okq, why = False, "expected one qr factorisation, one b_to_epsilon call and a (U, eps) result"
                    break
                want_arg = N.ref("inv(X)*tau", {"X": ubi, "tau": tau})
                fa = [scalar(x) for x in (qarg[0] if isinstance(qarg[0], Arr) else materialise(qarg[0])).flat()]
                fw = [scalar(x) for x in (want_arg if isinstance(want_arg, Arr) else materialise(want_arg)).flat()]
                if not all(x.equals(y) for x, y in zip(fa, fw)):
                    okq, why = False, "the matrix factorised is not tau*inv(UBI)"
                    break
                Uo = [scalar(x) for x in (out[0] if isinstance(out[0], Arr) else materialise(out[0])).flat()]
                Bo = [scalar(x) for x in (bcalls[0][0] if isinstance(bcalls[0][0], Arr) else materialise(bcalls[0][0])).flat()]
                for i in range(3):
                    for j in range(3):
                        sj = -1 if pattern[j] else 1
                        si = -1 if pattern[i] else 1
                        if not Uo[3 * i + j].equals(sj * Rat.atom("Q[%d,%d]" % (i, j))):
                            okq, why = False, "U is not Q.D for diag(R) signs %s" % (["-" if p_ else "+" for p_ in pattern],)
                        want_b = si * Rat.atom("R[%d,%d]" % (i, j)) if j >= i else Rat.const(0)
                        if not Bo[3 * i + j].equals(want_b):
                            okq, why = False, ("the matrix handed to b_to_epsilon is not D.R (rows of the triangular factor must be "
                                               "flipped with the columns of Q) for diag(R) signs %s" % (["-" if p_ else "+" for p_ in pattern],))
                if not okq:
                    break
            ctx.check(okq, "C13:tau:%s.ubi_to_u_and_eps:qr-route" % short,
                      "QR-based ubi_to_u_and_eps: %s" % why, where)
            continue
        log = []
        out = Evaluator(mod, inline=set(), call_policy=pol_factory(log), branch_policy=N.skip_checks_policy) \
            .call_function("ubi_to_u_and_eps", [ubi, cell])
        names = [n_ for n_, a in log]
        bcalls_ = [a for n_, a in log if n_ == "b_to_epsilon"]
        if not (isinstance(out, tuple) and len(out) == 2):
            ctx.fail("C13:tau:%s.ubi_to_u_and_eps:calls" % short, "ubi_to_u_and_eps does not return the pair (U, eps)", where)
            continue
        ubim_ = materialise(ubi)
        dcell = "a_to_cell(%s)" % vkey(Arr([[ubim_.data[j][i] for j in range(3)] for i in range(3)]))
        if len(bcalls_) != 1:
            # the strain is computed some other way than by one call of b_to_epsilon: decided on the VALUE returned -- it must be
            # sym(B0 . inv(B)) - I for the strained B of the module's UBI convention, B = tau*inv(UBI.U), B0 = form_b_mat(unit_cell)
            Bd_ = Opaque("form_b_mat(%s)" % dcell, (3, 3))
            Uw_ = N.ref("transpose(dot(B, X))/tau", {"B": Bd_, "X": ubi, "tau": tau})
            # inv(B) = UBI.U/tau, written out (no inverse of an inverse to recognise)
            Tw_ = N.ref("dot(B0, dot(X, U))/tau", {"B0": Arr([[x for x in r] for r in B0]), "X": ubi, "U": Uw_, "tau": tau})
            Tm_ = mat(Tw_)
            want6 = [(Tm_[i][j] + Tm_[j][i]) / 2 - ident[i][j] for (i, j) in PAIRS]
            try:
                got6 = seq6(out[1])
            except AnalysisError:
                raise AnalysisError("%s.ubi_to_u_and_eps: the strain is not obtained from b_to_epsilon and is not an explicit list of six "
                                    "components (calls: %s)" % (short, names))
            oke = len(got6) == 6 and all(N.rat_equal(x_, y_) for x_, y_ in zip(got6, want6))
            ctx.check(oke, "C13:tau:%s.ubi_to_u_and_eps:eps" % short,
                      "the strain returned is not sym(B0.inv(B)) - I for B = tau*inv(UBI.U) (the strained B of the module's UBI "
                      "convention) and B0 = form_b_mat(unit_cell)", where)
            fa_ = [scalar(x) for x in (out[0] if isinstance(out[0], Arr) else materialise(out[0])).flat()]
            ctx.check(all(x.equals(y) for x, y in zip(fa_, [scalar(x) for x in Uw_.flat()])), "C13:tau:%s.ubi_to_u_and_eps:U" % short,
                      "U is not transpose(dot(form_b_mat(ubi_to_cell(ubi)), ubi))/tau", where)
            continue
        okU = True          # (the opaque values of ubi_to_cell / form_b_mat carry their arguments: comparing U covers those calls)
        Bd = Opaque("form_b_mat(%s)" % dcell, (3, 3))
        Uwant = N.ref("transpose(dot(B, X))/tau", {"B": Bd, "X": ubi, "tau": tau})
        Ugot = out[0]
        fa = [scalar(x) for x in (Ugot if isinstance(Ugot, Arr) else materialise(Ugot)).flat()]
        fb = [scalar(x) for x in Uwant.flat()]
        okU = okU and all(x.equals(y) for x, y in zip(fa, fb))
        ctx.check(okU, "C13:tau:%s.ubi_to_u_and_eps:U" % short,
                  "U is not transpose(dot(form_b_mat(ubi_to_cell(ubi)), ubi))/tau", where)
        # the strained B in the module's own convention: UBI = tau inv(U B)  =>  B = tau inv(UBI U)
        Bwant = N.ref("inv(dot(X, U))*tau", {"X": ubi, "U": Uwant, "tau": tau})
        barg = bcalls_[0][0]
        try:
            ga = [scalar(x) for x in (barg if isinstance(barg, Arr) else materialise(barg)).flat()]
            gb = [scalar(x) for x in (Bwant if isinstance(Bwant, Arr) else materialise(Bwant)).flat()]
            okB = all(x.equals(y) for x, y in zip(ga, gb))
            ratio = None
            if not okB:
                nz = [(x, y) for x, y in zip(ga, gb) if not y.is_zero()]
                if nz and all((x / y).equals(nz[0][0] / nz[0][1]) for x, y in nz):
                    ratio = nz[0][0] / nz[0][1]
        except (AnalysisError, AttributeError):
            okB, ratio = False, None
        rk = ":x(%s)" % ratio.key().replace(" ", "") if (ratio is not None and not okB) else ""
        ctx.check(okB, "C13:tau:%s.ubi_to_u_and_eps%s" % (short, rk),
                  "the matrix handed to b_to_epsilon is %s times the strained B of the module's UBI convention "
                  "(B = tau*inv(UBI.U) for UBI = tau*inv(U.B)); b_to_epsilon compares it with form_b_mat of weight tau"
                  % (N.short(ratio) if ratio is not None else "not"), where,
                  sample={"function": "%s.ubi_to_u_and_eps" % short, "arg0_of_b_to_epsilon": "tau*inv(dot(ubi, U))"})
        ctx.check(vkey(bcalls_[0][1]) == vkey(cell) and isinstance(out[1], Opaque) and out[1].base == "b_to_epsilon(...)",
                  "C13:tau:%s.ubi_to_u_and_eps:cell" % short,
                  "b_to_epsilon is not called with the unstrained unit_cell / its result is not returned", where)
    ctx.not_decided += ["numerical accuracy of inv; that the two maps are mutual inverses follows on paper from the verified "
                        "equation (uniqueness of the triangular solution) and inv(inv(X)) = X"]
    ctx.assumptions += ["form_b_mat / form_a_mat_inv return upper-triangular matrices (C01)", "numpy dot, transpose, inv, eye",
                        "ubi_to_cell(X) is a_to_cell(transpose(X)) (C02)"]
    from xfabsa import numeric as _N2
    _N2.hazard_rule(ctx, 'C13')
    return ("b_to_epsilon(_old) compared with sym(T) - I literally; the matrices built by epsilon_to_b(_old) shown to solve "
            "the stated equation entry by entry for symbolic strain and symbolic unstrained matrix (so for every cell and "
            "strain), and to reduce to the unstrained matrix at zero strain; ubi_to_u_and_eps's U and the matrix it passes "
            "on compared with the module's own UBI convention.")
