"""
Array-programming vocabulary of numpy on the evaluator's own values (xfabsa/symeval.py: `Arr` = nested lists of normal
forms, truth values or index integers).  Everything here is *exact*: a function either has the value numpy defines for it
in real arithmetic, or it answers NotImplemented and the caller reports the idiom as not readable (ANALYSIS-ERROR) -- never
an opaque value, because an opaque value compared with a reference reads as "differs".

    call(ev, name, args, kwargs, node)                 numpy.<name>(...)
    ufunc_method(ev, ufunc, attr, args, kwargs, node)  numpy.<ufunc>.<reduce|outer|accumulate>(...)
    advanced_index(data, idx, err)                     numpy's integer-array indexing on nested lists (read; the store
                                                       path indexes an array of index paths with the same function)

Shapes are explicit and small (3-vectors, 3x3 matrices, tables of a few hundred rows), so every function is written for
nested lists of any rank in the most direct way.
"""
import ast
import itertools

from .core import AnalysisError
from .poly import Rat


# ---------------------------------------------------------------------------------------------------------------- nested lists

def nd_shape(d):
    s = []
    while isinstance(d, list):
        s.append(len(d))
        d = d[0] if d else None
    return tuple(s)


def nd_get(d, idx):
    for i in idx:
        d = d[i]
    return d


def nd_build(shape, f, pre=()):
    if not shape:
        return f(pre)
    return [nd_build(shape[1:], f, pre + (i,)) for i in range(shape[0])]


def nd_map(f, d):
    return [nd_map(f, x) for x in d] if isinstance(d, list) else f(d)


def nd_flat(d):
    if isinstance(d, list):
        out = []
        for x in d:
            out += nd_flat(x)
        return out
    return [d]


def nd_regular(d):
    """every sub-list at one depth has the same length"""
    if not isinstance(d, list):
        return True
    if not d:
        return True
    if any(isinstance(x, list) for x in d):
        if not all(isinstance(x, list) for x in d):
            return False
        return len({nd_shape(x) for x in d}) == 1 and all(nd_regular(x) for x in d)
    return True


def broadcast_shapes(shapes, err):
    rank = max(len(s) for s in shapes)
    out = []
    for k in range(rank):
        dims = {s[len(s) - rank + k] for s in shapes if len(s) - rank + k >= 0}
        dims.discard(1)
        if len(dims) > 1:
            err("shapes %s do not broadcast" % (shapes,))
        out.append(dims.pop() if dims else 1)
    return tuple(out)


def broadcast_get(d, shape, idx):
    """entry of `d` (of shape `shape`) at position idx of the broadcast result"""
    off = len(idx) - len(shape)
    return nd_get(d, tuple(0 if shape[k] == 1 else idx[off + k] for k in range(len(shape))))


def broadcast_to(d, shape, err):
    s = nd_shape(d)
    full = broadcast_shapes([s, tuple(shape)], err)
    if full != tuple(shape):
        err("cannot broadcast shape %s to %s" % (s, tuple(shape)))
    return nd_build(tuple(shape), lambda ix: broadcast_get(d, s, ix))


def move_axis_front(d, axis):
    s = nd_shape(d)
    rest = s[:axis] + s[axis + 1:]
    return [nd_build(rest, lambda ix, k=k: nd_get(d, ix[:axis] + (k,) + ix[axis:])) for k in range(s[axis])]


def move_front_to(d, axis):
    """inverse of move_axis_front: the leading axis goes to position `axis`"""
    s = nd_shape(d)
    n, rest = s[0], s[1:]
    shape = rest[:axis] + (n,) + rest[axis:]
    return nd_build(shape, lambda ix: nd_get(d, (ix[axis],) + ix[:axis] + ix[axis + 1:]))


# ---------------------------------------------------------------------------------------------------------------- indexing

class IndexArray(list):
    """an integer index array of any rank (nested lists of ints)"""


def advanced_index(data, idx, err):
    """data[idx] with idx a tuple of int | slice | None | IndexArray (nested int lists); numpy's rules:
    integers next to index arrays are index arrays of rank 0; all index arrays are broadcast to one shape S; when they are
    adjacent the S axes take the place of the first of them, otherwise they come first"""
    shape = nd_shape(data)
    idx = list(idx)
    used = sum(1 for i in idx if i is not None)
    if used > len(shape):
        err("too many indices")
    idx += [slice(None)] * (len(shape) - used)
    adv = [k for k, i in enumerate(idx) if isinstance(i, (IndexArray, int)) and not isinstance(i, bool)]
    arrays = [k for k in adv if isinstance(idx[k], IndexArray)]
    if not arrays:
        return _basic(data, idx, err)
    shapes = [nd_shape(idx[k]) if isinstance(idx[k], IndexArray) else () for k in adv]
    S = broadcast_shapes(shapes, err)
    contiguous = adv == list(range(adv[0], adv[-1] + 1))

    def sub(s):
        ix = list(idx)
        for k, sh in zip(adv, shapes):
            ix[k] = broadcast_get(idx[k], sh, s) if isinstance(idx[k], IndexArray) else idx[k]
            if not isinstance(ix[k], int) or isinstance(ix[k], bool):
                err("index array with a non-integer entry")
        return _basic(data, ix, err)
    subs = nd_build(S, sub)
    first = nd_get(subs, (0,) * len(S)) if all(S) else None
    if first is None:
        return nd_build(S, lambda ix: None)
    R = nd_shape(first)
    if not contiguous or not R:
        return subs
    # number of result axes produced by the basic indices in front of the first advanced one
    p = sum(1 for i in idx[:adv[0]] if i is None or isinstance(i, slice))
    if p == 0:
        return subs
    full = R[:p] + S + R[p:]
    return nd_build(full, lambda ix: nd_get(nd_get(subs, ix[p:p + len(S)]), ix[:p] + ix[p + len(S):]))


def _basic(d, idx, err):
    if not idx:
        return d
    i = idx[0]
    if i is None:
        return [_basic(d, idx[1:], err)]
    if not isinstance(d, list):
        err("too many indices")
    if isinstance(i, int):
        try:
            return _basic(d[i], idx[1:], err)
        except IndexError:
            err("index out of range")
    return [_basic(x, idx[1:], err) for x in d[i]]


def mask_to_indices(mask, err):
    """boolean mask (nested lists of truth values) -> one IndexArray per axis (numpy.nonzero)"""
    shape = nd_shape(mask)
    hits = []
    for ix in itertools.product(*[range(n) for n in shape]):
        b = nd_get(mask, ix)
        if not isinstance(b, bool):
            err("mask entry that is not a truth value")
        if b:
            hits.append(ix)
    return [IndexArray([h[k] for h in hits]) for k in range(len(shape))]


# ---------------------------------------------------------------------------------------------------------------- numpy calls

def call(ev, name, args, kwargs, node):
    from .symeval import Arr, Opaque, materialise, scalar, const_int, IRat, iconst

    def err(msg):
        raise AnalysisError("E3: numpy.%s: %s (line %d)" % (name, msg, getattr(node, "lineno", 0)))

    def arr(v, what="argument"):
        """-> nested list / scalar leaf of an explicit value"""
        if isinstance(v, Arr):
            return v.data
        if isinstance(v, (list, tuple)) and not (isinstance(v, tuple) and v and isinstance(v[0], str)):
            m = materialise(v)
            if m is None:
                err("%s is not explicit" % what)
            if not nd_regular(m.data):
                err("%s is a ragged sequence" % what)
            return m.data
        if isinstance(v, Opaque):
            m = materialise(v)
            if m is not None:
                return m.data
            if v.shape is None:
                err("%s has unknown shape" % what)
            return scalar(v)
        if isinstance(v, bool):
            return v
        return scalar(v)

    def wrap(d):
        return Arr(d) if isinstance(d, list) else d

    def num(x):
        return Rat.const(int(x)) if isinstance(x, bool) else scalar(x)

    def axis_of(v, rank, default=None):
        if v is None:
            return default
        a = const_int(v)
        if a is None or not (-rank <= a < rank):
            err("axis is not a constant inside the rank")
        return a % rank

    def ints(v, what):
        d = arr(v, what)
        out = nd_map(lambda x: const_int(x) if not isinstance(x, bool) else None, d)
        if any(x is None for x in nd_flat(out)):
            err("%s is not a constant integer array" % what)
        return out

    def ew2(op, a, b):
        return ev.binop(op, wrap(a), wrap(b), node)

    kw = dict(kwargs)
    n_args = len(args)

    if name in ("deg2rad", "rad2deg") and n_args == 1 and not kw:
        return ev._np_call("radians" if name == "deg2rad" else "degrees", args, {}, node)
    if name in ("reciprocal", "negative", "positive") and n_args == 1 and not kw:
        d = arr(args[0])
        f = {"reciprocal": lambda x: Rat.const(1) / num(x), "negative": lambda x: -num(x), "positive": num}[name]
        try:
            return wrap(nd_map(f, d))
        except ZeroDivisionError:
            err("division by zero")
    if name in ("add", "subtract", "multiply", "divide", "true_divide", "power") and n_args == 2 and not kw:
        op = {"add": ast.Add, "subtract": ast.Sub, "multiply": ast.Mult, "divide": ast.Div, "true_divide": ast.Div, "power": ast.Pow}[name]()
        return ev.binop(op, args[0], args[1], node)
    if name == "fmod" and n_args == 2 and not kw:
        return ev._np_call("fmod", args, {}, node) if False else NotImplemented
    if name == "copysign" and n_args == 2 and not kw:
        x, y = arr(args[0]), arr(args[1])
        if isinstance(x, list) or isinstance(y, list):
            return NotImplemented
        x, y = num(x), num(y)
        if (x * x).equals(y * y):
            return y                  # |x| = |y|: the number with the magnitude of x and the sign of y is y
        if y.is_const():
            ax = ev.apply_unary("abs", x, node)
            return ax if y.const_value() >= 0 else -ax
        return NotImplemented
    if name == "hypot" and n_args == 2 and not kw:
        sq = ev.binop(ast.Add(), ev.binop(ast.Mult(), args[0], args[0], node), ev.binop(ast.Mult(), args[1], args[1], node), node)
        return ev._np_call("sqrt", [sq], {}, node)
    if name in ("logical_not", "invert", "bitwise_not") and n_args == 1 and not kw:
        d = arr(args[0])
        if not all(isinstance(x, bool) for x in nd_flat(d)):
            err("argument is not a truth-value array")
        return wrap(nd_map(lambda x: not x, d))
    if name in ("logical_and", "logical_or", "logical_xor", "bitwise_and", "bitwise_or") and n_args == 2 and not kw:
        a, b = arr(args[0]), arr(args[1])
        if not all(isinstance(x, bool) for x in nd_flat(a) + nd_flat(b)):
            err("arguments are not truth-value arrays")
        sa, sb = nd_shape(a), nd_shape(b)
        S = broadcast_shapes([sa, sb], err)
        f = {"and": lambda x, y: x and y, "or": lambda x, y: x or y, "xor": lambda x, y: x != y}[name.split("_")[1]]
        return wrap(nd_build(S, lambda ix: f(broadcast_get(a, sa, ix), broadcast_get(b, sb, ix))))
    if name == "ndim" and n_args == 1 and not kw:
        return Rat.const(len(nd_shape(arr(args[0]))))
    if name == "shape" and n_args == 1 and not kw:
        return tuple(Rat.const(k) for k in nd_shape(arr(args[0])))
    if name == "size" and n_args == 1 and not kw:
        tot = 1
        for k in nd_shape(arr(args[0])):
            tot *= k
        return Rat.const(tot)

    # ---- products
    if name in ("inner", "vdot") and n_args == 2 and not kw:
        a, b = arr(args[0]), arr(args[1])
        sa, sb = nd_shape(a), nd_shape(b)
        if name == "vdot":
            fa, fb = nd_flat(a), nd_flat(b)
            if len(fa) != len(fb):
                err("different sizes")
            tot = Rat.const(0)
            for x, y in zip(fa, fb):
                tot = tot + num(x) * num(y)
            return tot
        if not sa or not sb:
            return ev.binop(ast.Mult(), args[0], args[1], node)
        if sa[-1] != sb[-1]:
            err("last axes differ: %s and %s" % (sa, sb))

        def entry(ix):
            i, j = ix[:len(sa) - 1], ix[len(sa) - 1:]
            tot = Rat.const(0)
            for k in range(sa[-1]):
                tot = tot + num(nd_get(a, i + (k,))) * num(nd_get(b, j + (k,)))
            return tot
        return wrap(nd_build(sa[:-1] + sb[:-1], entry))
    if name == "tensordot" and n_args in (2, 3) and set(kw) <= {"axes"}:
        a, b = arr(args[0]), arr(args[1])
        sa, sb = nd_shape(a), nd_shape(b)
        axes = args[2] if n_args == 3 else kw.get("axes", Rat.const(2))
        k = const_int(axes)
        if k is not None:
            if k < 0 or k > len(sa) or k > len(sb):
                err("axes=%d does not fit the ranks" % k)
            ax_a, ax_b = list(range(len(sa) - k, len(sa))), list(range(k))
        else:
            if not isinstance(axes, (list, tuple)) or len(axes) != 2:
                err("axes is neither an integer nor a pair")

            def axl(v, rank):
                vs = v if isinstance(v, (list, tuple)) else [v]
                out = [const_int(x) for x in vs]
                if any(x is None or not (-rank <= x < rank) for x in out):
                    err("axes are not constants inside the rank")
                return [x % rank for x in out]
            ax_a, ax_b = axl(axes[0], len(sa)), axl(axes[1], len(sb))
        if len(ax_a) != len(ax_b) or any(sa[p] != sb[q] for p, q in zip(ax_a, ax_b)):
            err("contracted axes differ")
        free_a = [p for p in range(len(sa)) if p not in ax_a]
        free_b = [q for q in range(len(sb)) if q not in ax_b]
        csh = tuple(sa[p] for p in ax_a)

        def entry(ix):
            ia, ib = ix[:len(free_a)], ix[len(free_a):]
            tot = Rat.const(0)
            for c in itertools.product(*[range(m) for m in csh]):
                pa = [None] * len(sa)
                pb = [None] * len(sb)
                for p, v in zip(free_a, ia):
                    pa[p] = v
                for q, v in zip(free_b, ib):
                    pb[q] = v
                for p, q, v in zip(ax_a, ax_b, c):
                    pa[p] = v
                    pb[q] = v
                tot = tot + num(nd_get(a, tuple(pa))) * num(nd_get(b, tuple(pb)))
            return tot
        return wrap(nd_build(tuple(sa[p] for p in free_a) + tuple(sb[q] for q in free_b), entry))
    if name == "kron" and n_args == 2 and not kw:
        a, b = arr(args[0]), arr(args[1])
        sa, sb = nd_shape(a), nd_shape(b)
        if len(sa) != len(sb) or not sa:
            err("only arrays of equal rank")
        shape = tuple(p * q for p, q in zip(sa, sb))
        return wrap(nd_build(shape, lambda ix: num(nd_get(a, tuple(i // q for i, q in zip(ix, sb)))) * num(nd_get(b, tuple(i % q for i, q in zip(ix, sb))))))
    if name == "linalg.multi_dot" and n_args == 1 and not kw:
        seq = args[0].data if isinstance(args[0], Arr) else args[0]
        if not isinstance(seq, (list, tuple)) or len(seq) < 2:
            err("needs a sequence of at least two arrays")
        seq = [Arr(x) if isinstance(x, list) else x for x in seq]
        acc = seq[0]
        for x in seq[1:]:
            acc = ev.np_dot(acc, x, node)          # the product is associative: the order numpy chooses does not change the value
        return acc
    if name == "linalg.matrix_power" and n_args == 2 and not kw:
        k = const_int(args[1])
        if k is None or k < 0 or k > 16:
            err("exponent is not a small non-negative constant")
        a = arr(args[0])
        s = nd_shape(a)
        if len(s) != 2 or s[0] != s[1]:
            err("not a square matrix")
        acc = Arr(nd_build(s, lambda ix: Rat.const(1 if ix[0] == ix[1] else 0)))
        for _ in range(k):
            acc = ev.np_dot(acc, wrap(a), node)
        return acc

    # ---- reductions
    if name in ("prod", "product", "cumsum", "cumprod", "mean", "average") and n_args == 1 and set(kw) <= {"axis"}:
        d = arr(args[0])
        s = nd_shape(d)
        if not s:
            return num(d)
        ax = axis_of(kw.get("axis"), len(s))
        if ax is None:
            d, s, ax, flatten = nd_flat(d), None, 0, True
            s = (len(d),)
        lead = move_axis_front(d, ax)

        def comb(f, u, v):
            return [comb(f, p, q) for p, q in zip(u, v)] if isinstance(u, list) else f(num(u), num(v))
        mul = lambda x, y: x * y
        add = lambda x, y: x + y
        if not lead:
            err("reduction over an empty axis")
        if name in ("prod", "product", "mean", "average"):
            f = mul if name in ("prod", "product") else add
            acc = nd_map(num, lead[0])
            for x in lead[1:]:
                acc = comb(f, acc, x)
            if name in ("mean", "average"):
                acc = nd_map(lambda x: x / len(lead), acc)
            return wrap(acc)
        f = add if name == "cumsum" else mul
        out = [nd_map(num, lead[0])]
        for x in lead[1:]:
            out.append(comb(f, out[-1], x))
        return wrap(move_front_to(out, ax))
    if name in ("count_nonzero",) and n_args == 1 and not kw:
        d = nd_flat(arr(args[0]))
        if all(isinstance(x, bool) for x in d):
            return Rat.const(sum(1 for x in d if x))
        if all(isinstance(x, Rat) and x.is_const() for x in d):
            return Rat.const(sum(1 for x in d if x.const_value() != 0))
        err("entries whose being zero is not decided")

    # ---- shape manipulation
    if name == "diagonal" and 1 <= n_args <= 2 and set(kw) <= {"offset"}:
        d = arr(args[0])
        s = nd_shape(d)
        if len(s) != 2:
            err("only matrices")
        off = const_int(args[1]) if n_args == 2 else const_int(kw["offset"]) if "offset" in kw else 0
        if off is None:
            err("offset is not constant")
        return Arr([d[i][i + off] for i in range(s[0]) if 0 <= i + off < s[1]])
    if name == "broadcast_to" and n_args == 2 and not kw:
        shp = args[1] if isinstance(args[1], (list, tuple)) else [args[1]]
        dims = [const_int(x) for x in shp]
        if any(x is None for x in dims):
            err("shape is not constant")
        d = arr(args[0])
        return wrap(broadcast_to(d if isinstance(d, list) else d, tuple(dims), err)) if isinstance(d, list) \
            else wrap(nd_build(tuple(dims), lambda ix: d))
    if name in ("squeeze", "ravel", "flatten", "atleast_1d", "atleast_2d", "expand_dims", "flip", "moveaxis", "rollaxis", "roll",
                "tile", "repeat", "take", "delete", "fliplr", "flipud", "rot90", "flatnonzero", "nonzero", "argwhere", "compress",
                "extract", "select", "choose", "full_like", "fromiter", "block", "dstack", "array_split", "split", "hsplit", "vsplit",
                "triu_indices", "tril_indices", "diag_indices", "indices", "meshgrid", "ix_", "linspace", "apply_along_axis",
                "result_type", "promote_types", "isscalar", "isfinite", "isnan", "isinf", "copy", "append", "insert", "cumsum", "diff", "ptp",
                "tri", "diagflat", "fill_diagonal", "unravel_index", "ravel_multi_index", "triu_indices_from", "tril_indices_from",
                "permute_dims", "vander", "dot"):
        r = _shape_call(ev, name, args, kw, node, arr, wrap, num, ints, axis_of, err)
        if r is not NotImplemented:
            return r
    return NotImplemented


def _shape_call(ev, name, args, kw, node, arr, wrap, num, ints, axis_of, err):
    from .symeval import Arr, Opaque, materialise, scalar, const_int, IRat, iconst
    n_args = len(args)

    def ic(x):
        return iconst(x)

    if name == "squeeze" and n_args == 1 and not kw:
        d = arr(args[0])
        s = nd_shape(d)
        keep = tuple(k for k in s if k != 1)
        pos = [i for i, k in enumerate(s) if k != 1]
        return wrap(nd_build(keep, lambda ix: nd_get(d, tuple(ix[pos.index(i)] if i in pos else 0 for i in range(len(s))))))
    if name in ("ravel", "flatten") and n_args == 1 and not kw:
        d = arr(args[0])
        return Arr(nd_flat(d)) if isinstance(d, list) else Arr([d])
    if name == "atleast_1d" and n_args == 1 and not kw:
        d = arr(args[0])
        return wrap(d if isinstance(d, list) else [d])
    if name == "atleast_2d" and n_args == 1 and not kw:
        d = arr(args[0])
        s = nd_shape(d)
        return wrap(d if len(s) >= 2 else [d] if len(s) == 1 else [[d]])
    if name == "expand_dims" and n_args + len(kw) == 2 and set(kw) <= {"axis"}:
        d = arr(args[0])
        s = nd_shape(d)
        ax = axis_of(args[1] if n_args == 2 else kw["axis"], len(s) + 1)
        return wrap(nd_build(s[:ax] + (1,) + s[ax:], lambda ix: nd_get(d, ix[:ax] + ix[ax + 1:])))
    if name in ("flip", "fliplr", "flipud") and n_args >= 1 and set(kw) <= {"axis"}:
        d = arr(args[0])
        s = nd_shape(d)
        if name == "flip":
            axv = args[1] if n_args == 2 else kw.get("axis")
            axes = list(range(len(s))) if axv is None else [axis_of(x, len(s)) for x in (axv if isinstance(axv, (list, tuple)) else [axv])]
        else:
            if n_args != 1 or kw or len(s) < (2 if name == "fliplr" else 1):
                return NotImplemented
            axes = [1 if name == "fliplr" else 0]
        return wrap(nd_build(s, lambda ix: nd_get(d, tuple(s[k] - 1 - i if k in axes else i for k, i in enumerate(ix)))))
    if name == "rot90" and n_args == 1 and not kw:
        d = arr(args[0])
        s = nd_shape(d)
        if len(s) != 2:
            err("only matrices")
        return wrap(nd_build((s[1], s[0]), lambda ix: d[ix[1]][s[1] - 1 - ix[0]]))
    if name in ("moveaxis", "rollaxis") and name == "moveaxis" and n_args == 3 and not kw:
        d = arr(args[0])
        s = nd_shape(d)
        src, dst = axis_of(args[1], len(s)), axis_of(args[2], len(s))
        order = [k for k in range(len(s)) if k != src]
        order.insert(dst, src)
        return wrap(nd_build(tuple(s[k] for k in order), lambda ix: nd_get(d, tuple(ix[order.index(k)] for k in range(len(s))))))
    if name == "roll" and 2 <= n_args <= 3 and set(kw) <= {"axis"}:
        d = arr(args[0])
        s = nd_shape(d)
        sh = const_int(args[1])
        if sh is None:
            err("shift is not a constant integer")
        axv = args[2] if n_args == 3 else kw.get("axis")
        if axv is None:
            flat = nd_flat(d)
            n_ = len(flat)
            rolled = [flat[(i - sh) % n_] for i in range(n_)] if n_ else []
            it = iter(rolled)
            return wrap(nd_build(s, lambda ix: next(it)))
        ax = axis_of(axv, len(s))
        return wrap(nd_build(s, lambda ix: nd_get(d, ix[:ax] + ((ix[ax] - sh) % s[ax],) + ix[ax + 1:])))
    if name == "tile" and n_args == 2 and not kw:
        d = arr(args[0])
        reps = [const_int(x) for x in (args[1] if isinstance(args[1], (list, tuple)) else [args[1]])]
        if any(r is None or r < 0 for r in reps):
            err("repetitions are not constant")
        s = nd_shape(d)
        rank = max(len(s), len(reps))
        s2 = (1,) * (rank - len(s)) + s
        reps = [1] * (rank - len(reps)) + reps
        dd = d
        for _ in range(rank - len(s)):
            dd = [dd]
        return wrap(nd_build(tuple(a * b for a, b in zip(s2, reps)), lambda ix: nd_get(dd, tuple(i % a for i, a in zip(ix, s2)))))
    if name == "repeat" and 2 <= n_args <= 3 and set(kw) <= {"axis"}:
        d = arr(args[0])
        k = const_int(args[1])
        if k is None or k < 0:
            err("repeat count is not a constant")
        axv = args[2] if n_args == 3 else kw.get("axis")
        if axv is None:
            flat = nd_flat(d)
            return Arr([x for x in flat for _ in range(k)])
        s = nd_shape(d)
        ax = axis_of(axv, len(s))
        return wrap(nd_build(s[:ax] + (s[ax] * k,) + s[ax + 1:], lambda ix: nd_get(d, ix[:ax] + (ix[ax] // k,) + ix[ax + 1:])))
    if name == "take" and 2 <= n_args <= 3 and set(kw) <= {"axis"}:
        d = arr(args[0])
        s = nd_shape(d)
        ind = ints(args[1], "indices")
        axv = args[2] if n_args == 3 else kw.get("axis")
        if axv is None:
            flat = nd_flat(d)
            try:
                return wrap(nd_map(lambda i: flat[i], ind))
            except IndexError:
                err("index out of range")
        ax = axis_of(axv, len(s))
        idx = [slice(None)] * ax + [IndexArray(ind) if isinstance(ind, list) else ind]
        return wrap(advanced_index(d, idx, err))
    if name == "delete" and n_args == 3 and not kw or name == "delete" and n_args == 2 and set(kw) == {"axis"}:
        d = arr(args[0])
        s = nd_shape(d)
        ind = ints(args[1], "indices")
        ax = axis_of(args[2] if n_args == 3 else kw["axis"], len(s))
        drop = {i % s[ax] for i in (nd_flat(ind) if isinstance(ind, list) else [ind])}
        keep = IndexArray([i for i in range(s[ax]) if i not in drop])
        return wrap(advanced_index(d, [slice(None)] * ax + [keep], err))
    if name in ("flatnonzero", "nonzero", "argwhere") and n_args == 1 and not kw:
        d = arr(args[0])
        if not isinstance(d, list):
            err("scalar argument")

        def truth(x):
            if isinstance(x, bool):
                return x
            if isinstance(x, Rat) and x.is_const():
                return x.const_value() != 0
            err("entries whose being zero is not decided")
        m = nd_map(truth, d)
        if name == "flatnonzero":
            return Arr([ic(i) for i, b in enumerate(nd_flat(m)) if b])
        coords = mask_to_indices(m, err)
        if name == "nonzero":
            return tuple(Arr([ic(i) for i in c]) for c in coords)
        return Arr([[ic(c[k]) for c in coords] for k in range(len(coords[0]))]) if coords and len(coords[0]) else Arr([])
    if name in ("compress", "extract") and n_args == 2 and not kw:
        m, d = arr(args[0]), arr(args[1])
        fm, fd = nd_flat(m), nd_flat(d)
        if not all(isinstance(x, bool) for x in fm) or len(fm) != len(fd):
            err("condition is not a truth-value array of the data's size")
        return Arr([x for b, x in zip(fm, fd) if b])
    if name == "select" and 2 <= n_args <= 3 and set(kw) <= {"default"}:
        conds, choices = args[0], args[1]
        default = args[2] if n_args == 3 else kw.get("default", Rat.const(0))
        if not isinstance(conds, (list, tuple)) or not isinstance(choices, (list, tuple)) or len(conds) != len(choices):
            err("condition and choice lists differ")
        cs = [arr(c) for c in conds]
        xs = [arr(x) for x in choices] + [arr(default)]
        shapes = [nd_shape(c) for c in cs] + [nd_shape(x) for x in xs]
        S = broadcast_shapes(shapes, err)

        def pick(ix):
            for c, x in zip(cs, xs):
                b = broadcast_get(c, nd_shape(c), ix) if isinstance(c, list) else c
                if not isinstance(b, bool):
                    err("condition that is not a truth value")
                if b:
                    return num(broadcast_get(x, nd_shape(x), ix) if isinstance(x, list) else x)
            x = xs[-1]
            return num(broadcast_get(x, nd_shape(x), ix) if isinstance(x, list) else x)
        return wrap(nd_build(S, pick))
    if name == "choose" and n_args == 2 and not kw:
        sel = ints(args[0], "selector")
        xs = [arr(x) for x in (args[1].data if isinstance(args[1], Arr) else args[1])]
        shapes = [nd_shape(sel)] + [nd_shape(x) for x in xs]
        S = broadcast_shapes(shapes, err)

        def pick(ix):
            k = broadcast_get(sel, nd_shape(sel), ix) if isinstance(sel, list) else sel
            if not (0 <= k < len(xs)):
                err("selector out of range")
            x = xs[k]
            return num(broadcast_get(x, nd_shape(x), ix) if isinstance(x, list) else x)
        return wrap(nd_build(S, pick))
    if name == "full_like" and n_args == 2 and set(kw) <= {"dtype"}:
        from .symeval import may_be_integer, HAZARDS
        model = args[0]
        d = arr(model)
        fill = scalar(args[1])
        r = wrap(nd_map(lambda x: fill, d))
        caller_typed = (isinstance(model, Arr) and model.inherits_dtype) or isinstance(model, Opaque) \
            or (isinstance(model, Rat) and not model.is_const() and may_be_integer(model))
        if caller_typed and "dtype" not in kw and not isinstance(fill, IRat):
            rec = ("dtype", getattr(ev, "current_fn", "?"), getattr(node, "lineno", 0),
                   "`full_like(model, value)` takes the number type of its model, which is the caller's: for integer input the "
                   "value %s is truncated to an integer" % fill.key()[:40])
            if rec not in ev.hazards:
                ev.hazards.append(rec)
                HAZARDS.append(rec)
        if isinstance(r, Arr) and "dtype" not in kw:
            if isinstance(model, Arr) and (model.inherits_dtype or model.int_dtype):
                # the result has the model's dtype: an integer model truncates the fill value
                r2 = ev._np_call("zeros_like", [model], {}, node)
                for ix in itertools.product(*[range(k) for k in nd_shape(d)]):
                    tgt = r2.data
                    for i in ix[:-1]:
                        tgt = tgt[i]
                    tgt[ix[-1]] = fill
                if model.int_dtype and not isinstance(fill, IRat):
                    import math
                    if fill.is_const():
                        r2 = Arr(nd_map(lambda x: iconst(math.trunc(fill.const_value())), d))
                        r2.int_dtype = True
                    else:
                        err("non-constant fill value for an integer model")
                return r2
        return r
    if name == "fromiter" and n_args >= 1 and set(kw) <= {"dtype", "count"}:
        seq = ev.as_sequence(args[0], node)
        vals = [scalar(x) for x in seq]
        return Arr(vals)
    if name == "block" and n_args == 1 and not kw:
        rows = args[0]
        if not isinstance(rows, (list, tuple)):
            err("argument is not a nested list")
        if rows and all(isinstance(r, (list, tuple)) for r in rows):
            parts = [ev._np_call("concatenate", [[wrap(arr(b)) for b in r]], {"axis": Rat.const(-1)}, node) for r in rows]
            return ev._np_call("concatenate", [parts], {"axis": Rat.const(-2)}, node)
        return ev._np_call("concatenate", [[wrap(arr(b)) for b in rows]], {"axis": Rat.const(-1)}, node)
    if name == "dstack" and n_args == 1 and not kw:
        parts = [arr(x) for x in args[0]]
        up = []
        for p in parts:
            s = nd_shape(p)
            if len(s) == 2:
                up.append(Arr(nd_map(lambda x: [x], p) if False else [[[x] for x in row] for row in p]))
            else:
                return NotImplemented
        return ev._np_call("concatenate", [up], {"axis": Rat.const(2)}, node)
    if name in ("triu_indices", "tril_indices") and 1 <= n_args <= 3 and set(kw) <= {"k", "m"}:
        n_ = const_int(args[0])
        k = const_int(args[1]) if n_args >= 2 else const_int(kw["k"]) if "k" in kw else 0
        m = const_int(args[2]) if n_args == 3 else const_int(kw["m"]) if "m" in kw else n_
        if n_ is None or k is None or m is None:
            err("arguments are not constant")
        pairs = [(i, j) for i in range(n_) for j in range(m) if (j - i >= k if name == "triu_indices" else j - i <= k)]
        return (Arr([ic(p[0]) for p in pairs]), Arr([ic(p[1]) for p in pairs]))
    if name in ("triu_indices_from", "tril_indices_from") and 1 <= n_args <= 2 and set(kw) <= {"k"}:
        s = nd_shape(arr(args[0]))
        if len(s) != 2:
            err("only matrices")
        k = const_int(args[1]) if n_args == 2 else const_int(kw["k"]) if "k" in kw else 0
        pairs = [(i, j) for i in range(s[0]) for j in range(s[1]) if (j - i >= k if name.startswith("triu") else j - i <= k)]
        return (Arr([ic(p[0]) for p in pairs]), Arr([ic(p[1]) for p in pairs]))
    if name == "diag_indices" and 1 <= n_args <= 2 and not kw:
        n_ = const_int(args[0])
        nd = const_int(args[1]) if n_args == 2 else 2
        if n_ is None or nd is None:
            err("arguments are not constant")
        return tuple(Arr([ic(i) for i in range(n_)]) for _ in range(nd))
    if name == "indices" and n_args == 1 and not kw:
        dims = [const_int(x) for x in (args[0] if isinstance(args[0], (list, tuple)) else [args[0]])]
        if any(x is None for x in dims):
            err("dimensions are not constant")
        return Arr([nd_build(tuple(dims), lambda ix, k=k: ic(ix[k])) for k in range(len(dims))])
    if name == "meshgrid" and n_args >= 1 and set(kw) <= {"indexing", "sparse"}:
        if "sparse" in kw and kw["sparse"] is not False:
            return NotImplemented
        indexing = kw.get("indexing", "xy")
        if indexing not in ("xy", "ij"):
            err("indexing is not 'xy' or 'ij'")
        vecs = [arr(a) for a in args]
        vecs = [v if isinstance(v, list) else [v] for v in vecs]
        if any(len(nd_shape(v)) != 1 for v in vecs):
            vecs = [nd_flat(v) for v in vecs]
        lens = [len(v) for v in vecs]
        if indexing == "xy" and len(vecs) >= 2:
            shape = (lens[1], lens[0]) + tuple(lens[2:])
            pos = [1, 0] + list(range(2, len(vecs)))
        else:
            shape = tuple(lens)
            pos = list(range(len(vecs)))
        return [Arr(nd_build(shape, lambda ix, k=k: vecs[k][ix[pos[k]]])) for k in range(len(vecs))]
    if name == "ix_" and n_args >= 1 and not kw:
        out = []
        for k, a in enumerate(args):
            d = arr(a)
            if not isinstance(d, list) or len(nd_shape(d)) != 1:
                err("arguments must be one-dimensional")
            if d and all(isinstance(x, bool) for x in d):
                d = [ic(i) for i, b in enumerate(d) if b]
            v = ints(Arr(d), "index vector")
            shape = tuple(len(v) if j == k else 1 for j in range(n_args))
            out.append(Arr(nd_build(shape, lambda ix, v=v, k=k: ic(v[ix[k]]))))
        return tuple(out)
    if name == "linspace" and 2 <= n_args <= 3 and set(kw) <= {"num", "endpoint"}:
        lo, hi = scalar(args[0]), scalar(args[1])
        cnt = const_int(args[2]) if n_args == 3 else const_int(kw["num"]) if "num" in kw else 50
        ep = kw.get("endpoint", True)
        if cnt is None or cnt < 0 or not isinstance(ep, bool) or cnt > 2000:
            err("num / endpoint are not constants")
        div = (cnt - 1) if ep else cnt
        return Arr([lo + (hi - lo) * Rat.const(i) / max(div, 1) for i in range(cnt)])
    if name == "apply_along_axis" and n_args >= 3 and not kw:
        fn = args[0]
        d = arr(args[2])
        s = nd_shape(d)
        ax = axis_of(args[1], len(s))
        rest = s[:ax] + s[ax + 1:]
        extra = list(args[3:])

        def one(ix):
            vec = Arr([nd_get(d, ix[:ax] + (k,) + ix[ax:]) for k in range(s[ax])])
            return ev.call_value(fn, [vec] + extra, {}, node)
        outs = nd_build(rest, one)
        first = nd_get(outs, (0,) * len(rest)) if all(rest) else None
        if first is None:
            err("empty array")
        fs = nd_shape(first.data) if isinstance(first, Arr) else nd_shape(arr(first)) if isinstance(first, (list, tuple)) else ()
        if not fs:
            return wrap(nd_map(lambda x: scalar(x), outs) if isinstance(outs, list) else scalar(outs))
        if len(fs) != 1:
            err("function results of rank > 1")
        full = rest[:ax] + fs + rest[ax:]

        def entry(ix):
            o = nd_get(outs, ix[:ax] + ix[ax + 1:]) if rest else outs
            o = o.data if isinstance(o, Arr) else arr(o)
            return o[ix[ax]]
        return wrap(nd_build(full, entry))
    if name in ("isfinite", "isnan", "isinf") and n_args == 1 and not kw:
        # the values the analysis ranges over are real numbers: finite, not NaN
        d = arr(args[0])
        ans = name == "isfinite"
        def one(x):
            if isinstance(x, bool):
                return ans
            scalar(x)
            return ans
        return wrap(nd_map(one, d)) if isinstance(d, list) else one(d)
    if name in ("result_type", "promote_types"):
        return ("npfunc", "float64")          # every dtype xfab computes with on this path is a float type; used only as dtype=
    if name == "isscalar" and n_args == 1 and not kw:
        v = args[0]
        return isinstance(v, (Rat, int, float)) and not isinstance(v, bool) or isinstance(v, (bool, str))
    if name == "copy" and n_args == 1 and not kw:
        v = args[0]
        return v.copy() if isinstance(v, Arr) else wrap(arr(v))
    if name == "append" and 2 <= n_args <= 3 and set(kw) <= {"axis"}:
        axv = args[2] if n_args == 3 else kw.get("axis")
        a, b = arr(args[0]), arr(args[1])
        if axv is None:
            return Arr((nd_flat(a) if isinstance(a, list) else [a]) + (nd_flat(b) if isinstance(b, list) else [b]))
        return ev._np_call("concatenate", [[wrap(a), wrap(b)]], {"axis": axv}, node)
    if name == "diff" and n_args == 1 and not kw:
        d = arr(args[0])
        s = nd_shape(d)
        if not s:
            err("scalar argument")
        ax = len(s) - 1
        return wrap(nd_build(s[:ax] + (s[ax] - 1,), lambda ix: num(nd_get(d, ix[:ax] + (ix[ax] + 1,))) - num(nd_get(d, ix))))
    if name == "ptp" and n_args == 1 and not kw:
        return ev.binop(ast.Sub(), ev._np_call("max", [args[0]], {}, node), ev._np_call("min", [args[0]], {}, node), node)
    if name == "tri" and 1 <= n_args <= 3 and set(kw) <= {"k"}:
        n_ = const_int(args[0])
        m = const_int(args[1]) if n_args >= 2 and args[1] is not None else n_
        k = const_int(args[2]) if n_args == 3 else const_int(kw["k"]) if "k" in kw else 0
        if None in (n_, m, k):
            err("arguments are not constant")
        return Arr([[Rat.const(1 if j - i <= k else 0) for j in range(m)] for i in range(n_)])
    if name == "diagflat" and n_args == 1 and not kw:
        v = nd_flat(arr(args[0]))
        return Arr([[num(v[i]) if i == j else Rat.const(0) for j in range(len(v))] for i in range(len(v))])
    if name == "unravel_index" and n_args == 2 and not kw:
        dims = [const_int(x) for x in args[1]]
        k = const_int(args[0])
        if k is None or any(x is None for x in dims):
            return NotImplemented
        out = []
        for n_ in reversed(dims):
            out.append(ic(k % n_))
            k //= n_
        return tuple(reversed(out))
    return NotImplemented


def ufunc_method(ev, ufunc, attr, args, kwargs, node):
    """numpy.<ufunc>.<attr>(...) for the arithmetic ufuncs"""
    from .symeval import Arr, materialise, scalar, const_int
    ops = {"add": ast.Add, "subtract": ast.Sub, "multiply": ast.Mult, "divide": ast.Div, "true_divide": ast.Div}
    if ufunc not in ops and ufunc not in ("maximum", "minimum", "logical_and", "logical_or"):
        return NotImplemented

    def err(msg):
        raise AnalysisError("E3: numpy.%s.%s: %s (line %d)" % (ufunc, attr, msg, getattr(node, "lineno", 0)))
    if attr in ("reduce", "accumulate") and len(args) in (1, 2) and set(kwargs) <= {"axis"}:
        v = args[0]
        A = v if isinstance(v, Arr) else materialise(v) if isinstance(v, (list, tuple)) or hasattr(v, "shape") else None
        if A is None:
            err("argument is not an explicit array")
        d = A.data
        s = nd_shape(d)
        if not s:
            return scalar(d)
        axv = args[1] if len(args) == 2 else kwargs.get("axis", Rat.const(0))
        if isinstance(axv, (list, tuple)) and attr == "reduce":
            # several axes: one after the other, highest first (the arithmetic reductions do not depend on the order)
            axes = [const_int(x) for x in axv]
            if any(x is None or not (-len(s) <= x < len(s)) for x in axes) or len({x % len(s) for x in axes}) != len(axes):
                err("axes are not distinct constants inside the rank")
            acc = A
            for x in sorted((x % len(s) for x in axes), reverse=True):
                acc = ufunc_method(ev, ufunc, "reduce", [acc], {"axis": Rat.const(x)}, node)
            return acc
        if axv is None:
            d, s = nd_flat(d), (len(nd_flat(d)),)
            ax = 0
        else:
            ax = const_int(axv)
            if ax is None or not (-len(s) <= ax < len(s)):
                err("axis is not a constant inside the rank")
            ax %= len(s)
        lead = move_axis_front(d, ax)
        if not lead:
            if ufunc == "add":
                return Rat.const(0)
            if ufunc == "multiply":
                return Rat.const(1)
            err("reduction of an empty axis")

        def as_value(x):
            return Arr(x) if isinstance(x, list) else x

        def comb(u, v_):
            if ufunc in ops:
                return ev.binop(ops[ufunc](), as_value(u), as_value(v_), node)
            if ufunc in ("maximum", "minimum"):
                return ev._np_call(ufunc, [as_value(u), as_value(v_)], {}, node)
            return ev._np_call(ufunc, [as_value(u), as_value(v_)], {}, node)

        def num(x):
            return Rat.const(int(x)) if isinstance(x, bool) and ufunc in ops else x
        acc = as_value(nd_map(num, lead[0]))
        if attr == "reduce":
            for x in lead[1:]:
                acc = comb(acc, as_value(nd_map(num, x)))
            return acc
        outs = [acc]
        for x in lead[1:]:
            outs.append(comb(outs[-1], as_value(nd_map(num, x))))
        return Arr(move_front_to([o.data if isinstance(o, Arr) else o for o in outs], ax))
    return NotImplemented
