"""Driver: ./check <Cnn> [--tier quick|thorough] [--replay file]"""
import importlib
import json
import os
import sys
import traceback

sys.path.insert(0, os.path.dirname(os.path.dirname(os.path.abspath(__file__))))
from xfabsa import core  # noqa: E402


def main(argv):
    if not argv or argv[0].startswith("-"):
        print("usage: check <Cnn> [--tier quick|thorough] [--replay file]")
        return core.EXIT_ANALYSIS
    pid = argv[0].upper()
    tier = os.environ.get("VERIF_TIER", "quick")
    replay = None
    i = 1
    while i < len(argv):
        if argv[i] == "--tier":
            tier = argv[i + 1]; i += 2
        elif argv[i] == "--replay":
            replay = argv[i + 1]; i += 2
        else:
            print("unknown argument", argv[i]); return core.EXIT_ANALYSIS
    if tier not in ("quick", "thorough"):
        tier = "quick"
    try:
        mod = importlib.import_module("props.%s" % pid.lower())
    except ImportError as e:
        print("ANALYSIS-ERROR property=%s no rule set: %s" % (pid, e))
        return core.EXIT_ANALYSIS
    ctx = core.Ctx(pid, tier)
    # a check must never hang: after the budget it stops as an analysis error (exit 2) and takes its worker processes along
    import signal

    def _timeout(_sig, _frm):
        print("ANALYSIS-ERROR property=%s time budget of the %s tier exceeded" % (pid, tier))
        sys.stdout.flush()
        try:
            import multiprocessing
            for ch in multiprocessing.active_children():
                ch.terminate()
        finally:
            os._exit(core.EXIT_ANALYSIS)
    signal.signal(signal.SIGALRM, _timeout)
    signal.alarm(int(os.environ.get("XFAB_BUDGET_S", "900" if tier == "quick" else "3600")))
    # a deterministic bound on the algebra as well (monomial products formed by polynomial multiplications): an expression
    # blow-up ends as an analysis error with the rule instances decided so far, not as a time-out
    from xfabsa import poly as _poly
    _poly._WORK[0], _poly._WORK[1] = 0, int(float(os.environ.get("XFAB_WORK", "2e8" if tier == "quick" else "2e9")))
    try:
        explanation = mod.run(ctx)
        ctx.extra["monomial_products"] = _poly._WORK[0]
        if tier == "thorough" and not os.environ.get("XFAB_SELFTEST_CHILD"):
            # the thorough tier also tests the checker both ways on the self-test variants of this property
            from concurrent.futures import ThreadPoolExecutor
            from selftest.run import one
            from selftest.mutations import M
            todo = [(k, e) for k, e in enumerate(M) if e[0] == pid]
            bad = []
            with ThreadPoolExecutor(max_workers=16) as ex:
                for idx, _pid, verdict, msg in ex.map(one, todo):
                    if verdict != "ok":
                        bad.append("#%d %s: %s" % (idx, verdict, msg[:160]))
            nbreak = sum(1 for _k, e in todo if e[5] == "violation")
            ctx.extra["selftest"] = {"variants": len(todo), "breaking_caught": nbreak - sum(1 for b in bad if "MISSED" in b),
                                     "breaking": nbreak, "behaviour_preserving": len(todo) - nbreak, "not_as_expected": bad}
            print("  selftest: %d variants of %s (%d breaking, %d behaviour-preserving), %d not as expected"
                  % (len(todo), pid, nbreak, len(todo) - nbreak, len(bad)))
            if bad:
                for b in bad:
                    print("  SELFTEST", b)
                raise core.AnalysisError("self-test of the checker failed: %d variant(s) not as expected" % len(bad))
        if replay:
            want = {v["key"] for v in json.load(open(replay)).get("violations", [])}
            still = [f for f in ctx.fails if f["key"] in want]
            print("replay: %d of %d recorded instances still fail" % (len(still), len(want)))
        return core.finish(ctx, explanation, exhaustive=getattr(mod, "EXHAUSTIVE", None))
    except _poly.WorkLimit:
        e = core.AnalysisError("the algebra exceeds the work limit of the %s tier (%d monomial products)" % (tier, _poly._WORK[1]))
        known = {k["key"] for k in core.load_known().get("known", []) if k.get("property") == pid}
        if any(f["key"] not in known for f in ctx.fails):
            print("ANALYSIS-INCOMPLETE property=%s %s (the rule instances decided before this point are reported)" % (pid, e))
            ctx.notes.append("analysis incomplete: %s" % e)
            return core.finish(ctx, "INCOMPLETE RUN: %s" % e)
        print("ANALYSIS-ERROR property=%s %s" % (pid, e))
        return core.EXIT_ANALYSIS
    except core.AnalysisError as e:
        if os.environ.get("XFAB_TRACE"):
            traceback.print_exc()
        # rule instances decided before the unreadable construct stand: a definite violation is still a violation
        known = {k["key"] for k in core.load_known().get("known", []) if k.get("property") == pid}
        if any(f["key"] not in known for f in ctx.fails):
            print("ANALYSIS-INCOMPLETE property=%s %s (the rule instances decided before this point are reported)" % (pid, e))
            ctx.notes.append("analysis incomplete: %s" % e)
            return core.finish(ctx, "INCOMPLETE RUN: %s" % e)
        print("ANALYSIS-ERROR property=%s %s" % (pid, e))
        return core.EXIT_ANALYSIS
    except Exception as e:
        if type(e).__name__ in ("PyRaise", "RaiseReached"):
            # a Python exception of the analysed code that no rule expected on its model (a model name looked up in a real
            # table, say): the rule cannot be evaluated on this tree -- no verdict
            if os.environ.get("XFAB_TRACE"):
                traceback.print_exc()
            print("ANALYSIS-ERROR property=%s the analysed code raises on the rule's model and the rule does not expect it: %s" % (pid, str(e)[:160]))
            return core.EXIT_ANALYSIS
        traceback.print_exc()
        print("ANALYSIS-ERROR property=%s internal error (see traceback)" % pid)
        return core.EXIT_ANALYSIS


if __name__ == "__main__":
    rc = main(sys.argv[1:])
    sys.stdout.flush()
    sys.exit(rc)
