"""
E5 -- finite-configuration abstract interpretation of the detector orientation code.

The four orientation parameters are concrete small integers, so every branch
test of trans_orientation / image_flipping / detyz_to_xy / xy_to_detyz folds;
the payload is abstract:
  * an image is an element of the dihedral index-map domain (swap, rev0, rev1):
        result[i, j] = raw[u, v],  (i', j') = (rev0 ? n0-1-i : i, rev1 ? n1-1-j : j),
        (u, v) = swap ? (j', i') : (i', j')
    with symbolic extents; numpy.transpose / fliplr / flipud are its generators;
  * coordinates are rational normal forms, affine in x, y and the two sizes;
    numpy.clip(v, -max(det_size), 0) is decided by sign on the forms +-(size-1).
"""
from fractions import Fraction

from .core import AnalysisError
from .poly import Rat, single_atom
from .symeval import Evaluator, Arr, Opaque, scalar, materialise
from .objeval import FullEvaluator


class IndexMap:
    def __init__(self, swap=False, rev0=False, rev1=False):
        self.swap, self.rev0, self.rev1 = swap, rev0, rev1

    def state(self):
        return (self.swap, self.rev0, self.rev1)

    def key(self):
        return "IndexMap%s" % (self.state(),)

    def transpose(self):
        return IndexMap(not self.swap, self.rev1, self.rev0)

    def flipud(self):
        return IndexMap(self.swap, not self.rev0, self.rev1)

    def fliplr(self):
        return IndexMap(self.swap, self.rev0, not self.rev1)

    def __repr__(self):
        return self.key()

    def store_index(self, x, y, N0, N1):
        """index (i, j) of the result at which raw[x, y] is stored; raw extents (N0, N1)"""
        # (u, v) = (x, y)
        ip, jp = (y, x) if self.swap else (x, y)
        n0, n1 = (N1, N0) if self.swap else (N0, N1)
        i = (n0 - 1 - ip) if self.rev0 else ip
        j = (n1 - 1 - jp) if self.rev1 else jp
        return i, j


class E5(FullEvaluator):
    def __init__(self, mod, size_atoms=("dety_size", "detz_size")):
        FullEvaluator.__init__(self, mod, inline=True)
        self.size_atoms = set(size_atoms)

    def _np_call(self, name, args, kwargs, node):
        if args and isinstance(args[0], IndexMap):
            if name == "transpose" and len(args) == 1:
                return args[0].transpose()
            if name == "fliplr":
                return args[0].fliplr()
            if name == "flipud":
                return args[0].flipud()
            if name == "ndim" and len(args) == 1:
                return Rat.const(2)                     # an image is a matrix of pixels
            if name in ("asarray", "asanyarray") and len(args) == 1 and not kwargs:
                return args[0]
            raise AnalysisError("E5: numpy.%s applied to an image (line %d)" % (name, node.lineno))
        if name == "linalg.inv" and len(args) == 1:
            A = args[0] if isinstance(args[0], Arr) else materialise(args[0])
            if A is not None and len(A.shape) == 2 and A.shape[0] == A.shape[1] == 2:
                m = [[scalar(x) for x in r] for r in A.data]
                if all(x.is_const() for r in m for x in r):
                    a, b, c, d = [m[0][0].const_value(), m[0][1].const_value(), m[1][0].const_value(), m[1][1].const_value()]
                    det = a * d - b * c
                    if det == 0:
                        raise AnalysisError("E5: inverse of a singular orientation matrix (line %d)" % node.lineno)
                    return Arr([[Rat.const(d / det), Rat.const(-b / det)], [Rat.const(-c / det), Rat.const(a / det)]])
        if name == "max" and len(args) == 1:
            return Opaque("max(%s)" % (args[0].key() if hasattr(args[0], "key") else args[0]))
        if name == "clip" and len(args) == 3 and not self._is_max_clip(args):
            return self.general_clip(args, node)
        if name == "clip" and len(args) == 3:
            v, lo, hi = args
            if not scalar(hi).is_zero():
                raise AnalysisError("E5: clip upper bound is not 0 (line %d)" % node.lineno)
            lo_s = scalar(lo)
            V = v if isinstance(v, Arr) else materialise(v)
            if V is None:
                raise AnalysisError("E5: clip of a non-explicit value")
            # lower bound must be -max(det_size) with det_size the vector of (size-1) forms
            if not (single_atom(-lo_s) or "").startswith("max("):
                raise AnalysisError("E5: clip lower bound is not -max(det_size) (line %d)" % node.lineno)
            out = []
            for x in V.data:
                x = scalar(x)
                out.append(self.clip_form(x, node))
            return Arr(out)
        return FullEvaluator._np_call(self, name, args, kwargs, node)

    @staticmethod
    def _is_max_clip(args):
        """the idiom clip(v, -max(det_size), 0) of the pinned tree"""
        try:
            return scalar(args[2]).is_zero() and (single_atom(-scalar(args[1])) or "").startswith("max(")
        except AnalysisError:
            return False

    def general_clip(self, args, node):
        """clip(v, lo, hi) with bounds affine in the extents, v affine in the pixel coordinates and the extents: decided over
        the whole domain (every extent >= 1, every pixel coordinate inside its raw / detector range).  A clamp that never acts
        is the identity, one that always acts is its bound; one that acts on a part of the domain stays an opaque clip(...)
        value, which no index or coordinate equals."""
        from .poly import func_atom, mono_items
        v, lo, hi = args

        def vec(t, n_):
            if isinstance(t, (Arr, list, tuple, Opaque)):
                A = t if isinstance(t, Arr) else materialise(t)
                if A is None or A.shape != (n_,):
                    raise AnalysisError("E5: clip bounds of another shape than the coordinates (line %d)" % node.lineno)
                return [scalar(x) for x in A.data]
            return [scalar(t)] * n_
        V = v if isinstance(v, Arr) else materialise(v)
        if V is None or len(V.shape) != 1:
            raise AnalysisError("E5: clip of something else than a coordinate pair (line %d)" % node.lineno)
        xs = [scalar(x) for x in V.data]
        los, his = vec(lo, len(xs)), vec(hi, len(xs))
        ny, nz = Rat.atom("dety_size"), Rat.atom("detz_size")
        ranges = {"x": (Rat.const(0), nz - 1), "y": (Rat.const(0), ny - 1), "dety": (Rat.const(0), ny - 1), "detz": (Rat.const(0), nz - 1)}

        def affine(r):
            """r = c0 + sum c_a * a with constant coefficients over the pixel and size atoms, else None"""
            if not (len(r.den) == 1 and list(r.den.keys())[0] == 0):
                return None
            dc = Fraction(list(r.den.values())[0])
            out = {}
            for m, c in r.num.items():
                it = mono_items(m)
                if not it:
                    out[None] = out.get(None, 0) + Fraction(c) / dc
                elif len(it) == 1 and it[0][1] == 1 and (it[0][0] in ranges or it[0][0] in self.size_atoms):
                    out[it[0][0]] = out.get(it[0][0], 0) + Fraction(c) / dc
                else:
                    return None
            return out

        def nonneg_for_all_sizes(r):
            """r >= 0 for all extents >= 1 (r affine in the extents only)"""
            f = affine(r)
            if f is None or any(a in ranges for a in f):
                return None
            coefs = [f.get(a, 0) for a in sorted(self.size_atoms)]
            return all(c >= 0 for c in coefs) and sum(coefs) + f.get(None, 0) >= 0
        out = []
        for x, l_, h_ in zip(xs, los, his):
            f = affine(x)
            if f is None and any(a.startswith("clip(") for a in x.atoms()):
                out.append(func_atom("clip", x, l_, h_))        # built on a clamp that can act: stays opaque
                continue
            if f is None:
                raise AnalysisError("E5: clip of `%s`, not affine in the pixel coordinates and extents (line %d)" % (x.key()[:60], node.lineno))
            xmin, xmax = x, x
            for a, (rlo, rhi) in ranges.items():
                c = f.get(a, 0)
                if c:
                    xmin = xmin.subs({a: rlo if c > 0 else rhi})
                    xmax = xmax.subs({a: rhi if c > 0 else rlo})
            inside_lo, inside_hi = nonneg_for_all_sizes(xmin - l_), nonneg_for_all_sizes(h_ - xmax)
            if inside_lo is None or inside_hi is None:
                raise AnalysisError("E5: clip bounds `%s`, `%s` are not affine in the extents (line %d)" % (l_.key()[:40], h_.key()[:40], node.lineno))
            if inside_lo and inside_hi:
                out.append(x)
                continue
            # a clamp that ALWAYS acts is decided too: v >= hi everywhere -> hi, v <= lo everywhere -> lo (for lo <= hi)
            ordered = nonneg_for_all_sizes(h_ - l_)
            above, below = nonneg_for_all_sizes(xmin - h_), nonneg_for_all_sizes(l_ - xmax)
            if ordered and above:
                out.append(h_)
            elif ordered and below:
                out.append(l_)
            else:
                out.append(func_atom("clip", x, l_, h_))
        return Arr(out)

    def clip_form(self, x, node):
        """clip(+-(size-1), -max(sizes-1), 0) for extents >= 1: +(N-1) -> 0, -(N-1) -> -(N-1), 0 -> 0"""
        if x.is_zero():
            return x
        for a in self.size_atoms:
            f = Rat.atom(a) - 1
            if x.equals(f):
                return Rat.const(0)
            if x.equals(-f):
                return x
        raise AnalysisError("E5: clip of `%s`, not +-(size-1) (line %d)" % (x.key(), node.lineno))
