"""Shared vocabulary of the two numeric sibling modules and of the cell atoms."""
from __future__ import annotations

import ast

from . import core
from .poly import Rat
from .symeval import Evaluator, sym_array, eval_reference, Arr, Opaque, scalar, materialise

# (path, short name, carries the 2 pi factor)
MODULES = [("xfab/tools.py", "tools", True), ("xfab/laue.py", "laue", False)]

PI = Rat.atom("pi")


def tau_of(two_pi: bool) -> Rat:
    return 2 * PI if two_pi else Rat.const(1)


def cell_env(cell_name="unit_cell", tau=None):
    """atoms of a symbolic cell, built through the same interpreter so that the
    reference and the code share atoms"""
    uc = sym_array(cell_name, (6,))
    env = {"uc": uc, "pi": PI}
    src = {"a": "uc[0]", "b": "uc[1]", "c": "uc[2]",
           "ca": "cos(uc[3]*pi/180)", "cb": "cos(uc[4]*pi/180)", "cg": "cos(uc[5]*pi/180)",
           "sa": "sin(uc[3]*pi/180)", "sb": "sin(uc[4]*pi/180)", "sg": "sin(uc[5]*pi/180)"}
    fenv = dict(env)
    fenv.update(ref_funcs())
    for k, e in src.items():
        env[k] = eval_reference(e, fenv)
    if tau is not None:
        env["tau"] = tau
    return uc, env


class _Fn:
    """callable placeholder understood by eval_reference through env"""


def ref_funcs():
    """names usable in reference expressions: cos sin sqrt arccos arcsin arctan2 exp"""
    out = {}
    for f in ("cos", "sin", "sqrt", "arccos", "arcsin", "arctan2", "arctan", "exp", "abs", "dot", "transpose", "array"):
        out[f] = ("npfunc", f)
    out["inv"] = ("npfunc", "linalg.inv")
    return out


def ref(expr, env):
    e = dict(ref_funcs())
    e.update(env)
    return eval_reference(expr, e)


def ref_env_with(env, **defs):
    """extend env with derived names given as expressions (evaluated in order)"""
    e = dict(env)
    for k, v in defs.items():
        e[k] = ref(v, e)
    return e


def rat_equal(x, y):
    """equality of two normal forms.  Identical normal forms are equal; normal forms that differ are reported as different
    only when they also differ numerically at a sample point (xfabsa/numeval.py) -- when they agree there, the identity is
    beyond the normaliser and the question is undecided (an analysis error, never a FAIL)"""
    try:
        sx, sy = scalar(x), scalar(y)
    except core.AnalysisError:
        return False
    if sx.equals(sy):
        return True
    from . import numeval
    r = numeval.decide_equal(sx, sy, numeval.default_domain(sx, sy))
    return r is True


def short(r, n=140):
    s = r.key() if hasattr(r, "key") else repr(r)
    return s if len(s) <= n else s[:n] + "..."


def positive_under(r: Rat, positive_atoms) -> bool:
    """sign domain: r > 0 whenever every atom in `positive_atoms` is > 0,
    decided syntactically: numerator and denominator are sums of same-signed
    monomials over positive atoms only."""
    r = scalar(r)
    if r.is_zero():
        return False
    from .poly import mono_items
    for p in (r.num, r.den):
        for m in p:
            for a, e in mono_items(m):
                if a not in positive_atoms:
                    return False
    sn = {c > 0 for c in r.num.values()}
    sd = {c > 0 for c in r.den.values()}
    if len(sn) != 1 or len(sd) != 1:
        return False
    return sn == sd


def cell_positive_atoms(cell_name="unit_cell"):
    """atoms that are positive for every geometrically valid cell held by the parameter `cell_name`: the edges, the sines of
    the angles (each angle lies strictly between 0 and 180 degrees), the volume root W and pi"""
    _uc, env = cell_env(cell_name)
    env = ref_env_with(env, W="sqrt(1 - ca**2 - cb**2 - cg**2 + 2*ca*cb*cg)")
    pos = {"pi"}
    for nm in ("a", "b", "c", "sa", "sb", "sg", "W"):
        pos |= env[nm].atoms()
    return pos


def domain_sign_policy(positive_atoms):
    """sign policy of a property whose domain makes the listed atoms positive (cell edges, sines of cell angles, the volume
    root): the sign of a difference is answered when the sign domain decides it (positive_under), and left open otherwise"""
    def policy(d, node=None):
        d = scalar(d)
        if positive_under(d, positive_atoms):
            return 1
        if positive_under(-d, positive_atoms):
            return -1
        return None
    return policy


def skip_checks_policy(test, ev, env):
    """branch policy: `if CHECKS.activated:` -> not taken (the guarded block
    only contains check calls; that is C20's rule 3)"""
    if isinstance(test, ast.Attribute) and test.attr == "activated":
        return False
    return None


def alias_rule(ctx, pid, rels):
    """zero-count rule shared by the numeric properties: no in-place mutation of cached / module-level values"""
    from . import alias
    alias.selfcheck()
    for rel in rels:
        mod = core.module(rel)
        ctx.saw(mod)
        alias.check(ctx, pid, mod)
        alias.check_arguments(ctx, pid, mod)


def hazard_rule(ctx, pid):
    """report the dtype hazards the evaluators met during this run (zero-count rule; positive example in the self-test corpus)"""
    from . import symeval
    ctx.rule("dtype", "no in-place store into an array whose dtype is inherited from the caller's data")
    seen = set()
    for kind, fn, line, text in symeval.HAZARDS:
        key = "%s:%s:%s" % (pid, kind, fn)
        if key in seen:
            continue
        seen.add(key)
        ctx.fail(key, text, "line %d" % line)
    if not seen:
        ctx.ok("%s:dtype:none" % pid)


def pos_multiple(x, want):
    """x == q * want for a positive rational q"""
    if want.is_zero():
        return x.is_zero()
    r = x / want
    return r.is_const() and r.const_value() > 0


# widest relative tolerance of a guard whose special path may return something else than the general formula: inputs that
# close to the special case are not told apart by the properties (shell bounds are kept 1e-9 away from lattice points, ...)
GUARD_TOLERANCE = 1e-9


def fast_path_rule(ctx, key, where, run, same):
    """`run(ev_setup)` evaluates the function with an evaluator prepared by ev_setup(ev); -> the value on the GENERAL path
    (every tolerance guard answered False).  For each guard met the function is evaluated again with that guard true: the
    special path must return the same value as the general one (a pure shortcut), unless the guard is narrower than
    GUARD_TOLERANCE.  `same(a, b)` compares two results."""
    met = []

    def generic(ev):
        ev.close_policy = lambda g: (met.append(g) if g["key"] not in [m["key"] for m in met] else None) or False
    general = run(generic)
    for g in list(met):
        def special(ev, g=g):
            ev.close_policy = lambda h: h["key"] == g["key"]
        fast = run(special)
        width = max(float(g["rtol"]), float(g["atol"]))
        ok = same(general, fast) or width <= GUARD_TOLERANCE
        ctx.check(ok, "%s:fast-path:%d" % (key, len([m for m in met if m["line"] <= g["line"]])),
                  "when `%s` holds (inputs within rtol=%g / atol=%g of the special case) the function returns something else than its "
                  "general formula: every input in that band gets the special value, an error of the order of the tolerance"
                  % (g["text"], float(g["rtol"]), float(g["atol"])), where, sample={"guard": g["text"], "rtol": float(g["rtol"]), "atol": float(g["atol"])})
    return general
